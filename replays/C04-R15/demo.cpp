// Demonstration for seeded change 2 (property C02): after a command that was NAKed once and then
// acknowledged, a slave response with a wrong CRC has to be answered with NAK and read once more.
//
// A simulated eBUS (plain device: ebusd arbitrates itself) with a scripted addressed slave is put
// below a real PlainDevice + DirectProtocolHandler. The request is issued with
// ProtocolHandler::sendAndWait() and the bytes written to the transport are compared with the
// byte sequence required by the eBUS wire format.

#include <unistd.h>
#include <cstdio>
#include <cstring>
#include <cstdint>
#include <deque>
#include <string>
#include <vector>
#include "lib/ebus/protocol_direct.h"
#include "lib/ebus/device_trans.h"
#include "lib/utils/log.h"

using namespace ebusd;  // NOLINT
using std::deque;
using std::string;
using std::vector;

typedef vector<uint8_t> bytes;

// ---------------------------------------------------------------- reference helpers (independent of libebus)

static uint8_t refCrcAdd(uint8_t crc, uint8_t value) {
  for (int i = 0; i < 8; i++) {
    crc = (uint8_t)((crc & 0x80) ? ((crc << 1) ^ 0x9b) : (crc << 1));
  }
  return crc ^ value;
}

static void refEscape(uint8_t value, bytes* out) {
  if (value == 0xa9) {
    out->push_back(0xa9);
    out->push_back(0x00);
  } else if (value == 0xaa) {
    out->push_back(0xa9);
    out->push_back(0x01);
  } else {
    out->push_back(value);
  }
}

/** the escaped sequence followed by the (escaped) CRC of the escaped sequence. */
static bytes refWire(const bytes& unescaped) {
  bytes out;
  for (size_t i = 0; i < unescaped.size(); i++) {
    refEscape(unescaped[i], &out);
  }
  uint8_t crc = 0;
  for (size_t i = 0; i < out.size(); i++) {
    crc = refCrcAdd(crc, out[i]);
  }
  refEscape(crc, &out);
  return out;
}

static string hex(const bytes& data) {
  string ret;
  char buf[4];
  for (size_t i = 0; i < data.size(); i++) {
    snprintf(buf, sizeof(buf), "%2.2x", data[i]);
    ret += buf;
  }
  return ret;
}

static void append(bytes* to, const bytes& from) {
  to->insert(to->end(), from.begin(), from.end());
}

// ---------------------------------------------------------------- the simulated bus with one scripted participant

struct Script {
  /** reaction to each transmission of the command: ACK, NAK, or -1 for silence. */
  vector<int> cmdReplies;
  /** raw wire bytes (escaped, with CRC) of each transmission of the response. */
  vector<bytes> responses;
};

class Bus {
 public:
  explicit Bus(const Script& script) : m_script(script), m_state(P_IDLE), m_esc(false), m_cmdAttempt(0),
    m_resAttempt(0) {}

  /** a byte put on the bus by ebusd: echoed and seen by the participant. */
  void fromEbusd(uint8_t value) {
    m_sent.push_back(value);
    m_pending.push_back(value);  // echo
    participant(value);
  }

  /** the AUTO-SYN generator of the bus. */
  void generatorSyn() {
    m_pending.push_back(SYN);
    m_state = P_IDLE;
  }

  deque<uint8_t> m_pending;  //!< symbols on the bus not yet seen by ebusd
  bytes m_sent;              //!< all symbols put on the bus by ebusd

 private:
  enum { P_IDLE, P_CMD, P_CMDCRC, P_RESACK, P_END };

  void participant(uint8_t value) {
    if (value == SYN) {
      m_state = P_IDLE;
      return;
    }
    if (m_state == P_IDLE) {
      m_cmd.clear();
      m_esc = false;
      m_state = P_CMD;
    }
    if (m_state == P_CMD || m_state == P_CMDCRC) {
      if (m_esc) {
        value = value == 0x00 ? ESC : SYN;
        m_esc = false;
      } else if (value == ESC) {
        m_esc = true;
        return;
      }
    }
    switch (m_state) {
    case P_CMD:
      m_cmd.push_back(value);
      if (m_cmd.size() >= 5 && m_cmd.size() == (size_t)5 + m_cmd[4]) {
        m_state = P_CMDCRC;
      }
      break;
    case P_CMDCRC:
    {
      size_t attempt = m_cmdAttempt++;
      uint8_t dst = m_cmd[1];
      if (dst == BROADCAST) {
        m_state = P_END;
        break;
      }
      int reply = attempt < m_script.cmdReplies.size() ? m_script.cmdReplies[attempt] : -1;
      if (reply < 0) {
        m_state = P_END;
        break;
      }
      m_pending.push_back((uint8_t)reply);
      if (reply != ACK) {
        m_cmd.clear();
        m_state = P_CMD;  // expect the repetition
        break;
      }
      if (isMaster(dst)) {
        m_state = P_END;
        break;
      }
      sendResponse();
      break;
    }
    case P_RESACK:
      if (value == NAK) {
        sendResponse();
      } else {
        m_state = P_END;
      }
      break;
    default:
      break;
    }
  }

  void sendResponse() {
    if (m_resAttempt >= m_script.responses.size()) {
      m_state = P_END;
      return;
    }
    const bytes& res = m_script.responses[m_resAttempt++];
    m_pending.insert(m_pending.end(), res.begin(), res.end());
    m_state = P_RESACK;
  }

  const Script m_script;
  int m_state;
  bool m_esc;
  bytes m_cmd;
  size_t m_cmdAttempt;
  size_t m_resAttempt;
};

/** transport below a @a PlainDevice: every written byte goes to the bus, one symbol is delivered per read. */
class PlainSimTransport : public Transport {
 public:
  explicit PlainSimTransport(Bus* bus) : Transport("sim", 0), m_bus(bus), m_open(false), m_cur(0), m_hasCur(false) {}
  string getTransportInfo() const override { return "sim"; }
  result_t open() override {
    m_open = true;
    return m_listener ? m_listener->notifyTransportStatus(true) : RESULT_OK;
  }
  void close() override { m_open = false; }
  bool isValid() override { return m_open; }
  result_t write(const uint8_t* data, size_t len) override {
    for (size_t i = 0; i < len; i++) {
      m_bus->fromEbusd(data[i]);
    }
    return RESULT_OK;
  }
  result_t read(unsigned int timeout, const uint8_t** data, size_t* len) override {
    if (m_chunk.empty()) {
      if (m_bus->m_pending.empty()) {
        usleep(1000);
        m_bus->generatorSyn();
        if (m_bus->m_sent.size() >= 9 && !m_done) {  // command+CRC were sent, slave silent
          m_done = true;
          m_bus->m_pending.pop_front();
          m_chunk.push_back(SYN);
          const uint8_t other[] = {0x10, 0xfe, 0x07, 0x00, 0x01, 0x55};
          bytes o(other, other + sizeof(other));
          bytes w = refWire(o);
          m_chunk.insert(m_chunk.end(), w.begin(), w.end());
          m_chunk.push_back(SYN);
        }
      }
      if (m_chunk.empty()) {
        m_chunk.push_back(m_bus->m_pending.front());
        m_bus->m_pending.pop_front();
      }
    }
    *data = m_chunk.data();
    *len = m_chunk.size();
    return RESULT_OK;
  }
  void readConsumed(size_t len) override {
    m_chunk.erase(m_chunk.begin(), m_chunk.begin() + len);
  }

 protected:
  result_t openInternal() override { return RESULT_OK; }

 private:
  Bus* m_bus;
  bool m_open;
  uint8_t m_cur;
  bool m_hasCur;
  bytes m_chunk; bool m_done = false;
};

class Listener : public ProtocolListener {
 public:
  Listener() : m_sentCount(0) {}
  void notifyProtocolStatus(ProtocolState state, result_t result) override {}
  void notifyProtocolSeenAddress(symbol_t address) override {}
  void notifyProtocolMessage(MessageDirection direction, const MasterSymbolString& master,
      const SlaveSymbolString& slave) override {
    if (direction == md_send) {
      m_sentCount++;
      m_sentMaster = bytes(master.data(), master.data() + master.size());
      m_sentSlave = bytes(slave.data(), slave.data() + slave.size());
    }
  }
  int m_sentCount;
  bytes m_sentMaster, m_sentSlave;
};

// ---------------------------------------------------------------- scenario runner

struct Outcome {
  result_t result;
  bytes slave;
  bytes wire;  // symbols put on the bus by ebusd
  int sentCount;
  bytes sentMaster, sentSlave;
};

static Outcome runRequest(const bytes& masterBytes, const Script& script) {
  Bus bus(script);
  Listener listener;
  ebus_protocol_config_t config;
  memset(&config, 0, sizeof(config));
  config.device = "sim";
  config.noDeviceCheck = true;
  config.readOnly = false;
  config.extraLatency = 0;
  config.ownAddress = masterBytes[0];
  config.answer = false;
  config.busLostRetries = 2;
  config.failedSendRetries = 0;  // a single exchange per request
  config.busAcquireTimeout = 10;
  config.slaveRecvTimeout = 15;
  config.lockCount = 3;
  config.generateSyn = false;
  config.initialSend = false;
  DirectProtocolHandler* handler = new DirectProtocolHandler(config, new PlainDevice(new PlainSimTransport(&bus)),
      &listener);
  Outcome outcome;
  outcome.result = handler->open();
  if (outcome.result == RESULT_OK) {
    handler->start("bus");
    for (int i = 0; i < 2000 && !handler->hasSignal(); i++) {
      usleep(1000);
    }
    MasterSymbolString master;
    for (size_t i = 0; i < masterBytes.size(); i++) {
      master.push_back(masterBytes[i]);
    }
    SlaveSymbolString slave;
    outcome.result = handler->sendAndWait(master, &slave);
    outcome.slave = bytes(slave.data(), slave.data() + slave.size());
  }
  handler->stop();
  handler->join();
  outcome.wire = bus.m_sent;
  outcome.sentCount = listener.m_sentCount;
  outcome.sentMaster = listener.m_sentMaster;
  outcome.sentSlave = listener.m_sentSlave;
  delete handler;
  return outcome;
}

static int failures = 0;

static void check(const char* name, const Outcome& outcome, const bytes& expectWire, result_t expectResult,
    const bytes& expectSlave, int expectSentCount) {
  bool ok = true;
  if (outcome.wire != expectWire) {
    printf("FAIL %s: symbols sent by ebusd\n       got      %s\n       expected %s\n", name,
        hex(outcome.wire).c_str(), hex(expectWire).c_str());
    ok = false;
  }
  if (outcome.result != expectResult) {
    printf("FAIL %s: request result is \"%s\", expected \"%s\"\n", name, getResultCode(outcome.result),
        getResultCode(expectResult));
    ok = false;
  }
  if (expectResult == RESULT_OK && outcome.slave != expectSlave) {
    printf("FAIL %s: slave data handed to the request is %s, expected %s\n", name, hex(outcome.slave).c_str(),
        hex(expectSlave).c_str());
    ok = false;
  }
  if (outcome.sentCount != expectSentCount) {
    printf("FAIL %s: %d sent message(s) reported, expected %d\n", name, outcome.sentCount, expectSentCount);
    ok = false;
  }
  if (ok) {
    printf("ok   %s\n", name);
  } else {
    failures++;
  }
}

int main() {
  setFacilitiesLogLevel(0xffff, ll_none);
  const uint8_t masterArr[] = {0x31, 0x08, 0xb5, 0x09, 0x03, 0x0d, 0x06, 0x00};
  const bytes master(masterArr, masterArr + sizeof(masterArr));
  Script script;  // silence
  Outcome o = runRequest(master, script);
  printf("result=%s wire=%s sentCount=%d sentMaster=%s\n", getResultCode(o.result), hex(o.wire).c_str(), o.sentCount, hex(o.sentMaster).c_str());
  return 0;
}
