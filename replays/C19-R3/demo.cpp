// replay (C19): a text with two adjacent quote characters in the middle (a""b) is written unquoted by dumpString; when the
// dump is read again, splitFields takes the doubled quote of an unquoted field as the start of quoted text and swallows
// the following fields
#include <iostream>
#include <sstream>
#include <string>
#include <vector>
#include "lib/ebus/data.h"
#include "lib/ebus/filereader.h"
using namespace ebusd;
using namespace std;

static int check(const string& text) {
  ostringstream out;
  AttributedItem::dumpString(false, "first", &out);
  AttributedItem::dumpString(true, text, &out);
  AttributedItem::dumpString(true, "last", &out);
  string line = out.str();
  istringstream in(line + "\n");
  vector<string> row;
  unsigned int lineNo = 0;
  FileReader::splitFields(&in, &row, &lineNo, nullptr, nullptr);
  bool ok = row.size() == 3 && row[0] == "first" && row[1] == text && row[2] == "last";
  cout << (ok ? "ok  " : "FAIL") << " text >" << text << "< written as >" << line << "< read back as " << row.size() << " field(s)";
  if (!ok && row.size() > 1) cout << ", second >" << row[1] << "<";
  cout << endl;
  return ok ? 0 : 1;
}

int main() {
  int fail = 0;
  fail += check("plain");
  fail += check("5\" pipe");
  fail += check("a,b");
  fail += check("say \"hi\" now");
  fail += check("a\"\"b");
  fail += check("size 12\"\" (inch)");
  cout << (fail ? "FAIL: dumped text is not read back" : "OK") << endl;
  return fail ? 1 : 0;
}
