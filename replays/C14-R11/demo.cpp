// replay of a defect on the unchanged tree (C14.R11), harness taken from the demonstration of a seeded change (C14): the decoded symbol sequence and the diagnostic notifications must not depend
// on the chunking, in particular not when a read chunk consists of nothing but the first byte of a two-byte
// enhanced sequence.
//
// An EnhancedDevice is put on top of a FileTransport backed by a socketpair. The same adapter streams are fed
// unsplit and split, and the symbols returned by recv() plus the status notifications are compared with what
// docs/enhanced_proto.md assigns to the stream. No private members are needed.
#include <unistd.h>
#include <sys/socket.h>
#include <cstdio>
#include <cstdlib>
#include <cstring>
#include <string>
#include <vector>
#include "lib/ebus/device_trans.h"
#include "lib/ebus/transport.h"

using namespace ebusd;
using std::string;
using std::vector;

class PairTransport : public FileTransport {
 public:
  PairTransport() : FileTransport("pair", 0, false), m_peer(-1) {}
  string getTransportInfo() const override { return "pair"; }
  int peer() const { return m_peer; }
 protected:
  result_t openInternal() override {
    int sv[2];
    if (socketpair(AF_UNIX, SOCK_STREAM, 0, sv) != 0) {
      return RESULT_ERR_GENERIC_IO;
    }
    m_fd = sv[0];
    m_peer = sv[1];
    return RESULT_OK;
  }
  void checkDevice() override {}
 private:
  int m_peer;
};

class Listener : public DeviceListener {
 public:
  void notifyDeviceData(const symbol_t* data, size_t len, bool received) override {}
  void notifyDeviceStatus(bool error, const char* message) override {
    m_status.push_back(message);
  }
  vector<string> m_status;
};

typedef vector<uint8_t> Bytes;

static string hexStr(const Bytes& bytes) {
  string ret;
  char buf[4];
  for (size_t i = 0; i < bytes.size(); i++) {
    snprintf(buf, sizeof(buf), "%s%2.2x", i ? " " : "", bytes[i]);
    ret += buf;
  }
  return ret;
}

static string chunkStr(const vector<Bytes>& chunks) {
  string ret;
  for (size_t i = 0; i < chunks.size(); i++) {
    ret += "[" + hexStr(chunks[i]) + "]";
  }
  return ret;
}

/**
 * Feed the chunks one by one and collect all symbols until the device runs dry after each chunk.
 */
static int runCase(const char* title, const vector<Bytes>& chunks, const Bytes& expectSymbols,
    const vector<string>& expectStatus) {
  Listener listener;  // has to outlive the device
  PairTransport* transport = new PairTransport();
  EnhancedDevice device(transport);
  device.setListener(&listener);
  if (device.open() != RESULT_OK) {
    printf("FAIL: cannot open device\n");
    exit(2);
  }
  listener.m_status.clear();  // drop "transport opened"
  Bytes symbols;
  for (size_t i = 0; i < chunks.size(); i++) {
    if (::write(transport->peer(), chunks[i].data(), chunks[i].size()) != (ssize_t)chunks[i].size()) {
      perror("write");
      exit(2);
    }
    unsigned int timeout = 30;  // pick up the new chunk
    for (int cnt = 0; cnt < 64; cnt++) {
      symbol_t value = 0;
      ArbitrationState state = as_none;
      result_t result = device.recv(timeout, &value, &state);
      if (result < RESULT_OK) {
        break;
      }
      symbols.push_back(value);
      if (result != RESULT_CONTINUE) {
        break;
      }
      timeout = 0;  // further buffered data
    }
  }
  vector<string> status = listener.m_status;
  bool ok = symbols == expectSymbols && status == expectStatus;
  printf("%s: %s %s\n", ok ? "ok  " : "FAIL", title, chunkStr(chunks).c_str());
  if (!ok) {
    printf("      symbols: %s, expected: %s\n", hexStr(symbols).c_str(), hexStr(expectSymbols).c_str());
    printf("      status notifications: %zu, expected: %zu\n", status.size(), expectStatus.size());
    for (size_t i = 0; i < status.size(); i++) {
      printf("        \"%s\"\n", status[i].c_str());
    }
  }
  return ok ? 0 : 1;
}

int main() {
  setvbuf(stdout, nullptr, _IONBF, 0);
  int failures = 0;
  const vector<string> noStatus = {"reset"};
  // replay: a symbol that was decoded from the buffer is dropped when the RESETTED answer to the init request (c0 80,
  // features 0) follows it in the same read chunk; split into two chunks the symbol is delivered
  const Bytes symbols = {0x05};
  failures += runCase("symbol, then RESETTED: two chunks", {{0x05}, {0xc0, 0x80}}, symbols, noStatus);
  failures += runCase("symbol, then RESETTED: one chunk ", {{0x05, 0xc0, 0x80}}, symbols, noStatus);
  const Bytes symbols2 = {0x05, 0x06};
  failures += runCase("symbol, RESETTED, symbol: one chunk", {{0x05, 0xc0, 0x80, 0x06}}, symbols2, noStatus);
  printf(failures ? "FAIL: the decoded symbols depend on the chunking\n" : "OK\n");
  return failures ? 1 : 0;
}
