#include <iostream>
#include <sstream>
#include "lib/ebus/data.h"
#include "lib/ebus/datatype.h"
#include "lib/ebus/symbol.h"
using namespace ebusd; using namespace std;
int main(int argc,char**argv){
  const DataType* t = DataTypeList::getInstance()->get("DTM");
  if(!t){cout<<"no DTM"<<endl;return 2;}
  const char* pats[]={"00000000","ffffff7f","00000080","000000ff","feffffff","ffffffff","00e1f505","1f4eda02","204eda02"};
  for(auto p:pats){
    SlaveSymbolString s; string h=string("04")+p; s.parseHex(h);
    ostringstream out; result_t r=t->readSymbols(0,4,s,OF_NONE,&out);
    cout<<p<<" -> "<<getResultCode(r)<<" '"<<out.str()<<"'"<<endl;
    if(r==RESULT_OK){ istringstream in(out.str()); SlaveSymbolString w; w.push_back(4); for(int i=0;i<4;i++)w.push_back(0); size_t used=0; result_t r2=t->writeSymbols(0,4,&in,&w,&used); cout<<"   write back: "<<getResultCode(r2)<<" "<<w.getStr()<<endl;}
  }
}
