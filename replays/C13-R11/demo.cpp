// replay (C13): a condition without circuit in a file whose name gives the default circuit ("15.bbb.csv") must refer to the
// message of that circuit. Condition::create stores the default circuit into the already evaluated variable zz instead
// of circuit, so the condition is resolved by name only and binds to the first message of that name in ANY circuit.
#include <unistd.h>
#include <iostream>
#include <sstream>
#include <string>
#include <map>
#include "lib/ebus/message.h"
using namespace ebusd;
using namespace std;

static DataFieldTemplates* g_templates = new DataFieldTemplates();
class DemoResolver : public Resolver {
 public:
  DataFieldTemplates* getTemplates(const string&) override { return g_templates; }
  result_t loadDefinitionsFromConfigPath(FileReader*, const string&, map<string, string>*, string*,
      bool) override { return RESULT_ERR_NOTFOUND; }
};

static bool load(MessageMap* messages, const char* filename, const char* text) {
  istringstream defs(text);
  string err;
  result_t ret = messages->readFromStream(&defs, filename, 0, false, nullptr, &err);
  if (ret != RESULT_OK) { cout << filename << ": load failed: " << getResultCode(ret) << " " << err << endl; return false; }
  return true;
}

static void store(Message* m, const char* slaveHex) {
  MasterSymbolString master;
  istringstream in("");
  m->prepareMaster(0, 0x31, SYN, UI_FIELD_SEPARATOR, &in, &master);
  SlaveSymbolString slave;
  slave.parseHex(slaveHex);
  m->storeLastData(master, slave);
}

int main() {
  MessageMap* messages = new MessageMap("");
  messages->setResolver(new DemoResolver());
  if (!load(messages, "08.aaa.csv", "#\n*r,,,,,,\nr,,status,,,08,b509,0d01,v,,UCH\n")) return 2;
  if (!load(messages, "15.bbb.csv", "#\n*r,,,,,,\n*[on],,status,,,,1\nr,,status,,,15,b509,0d02,v,,UCH\n[on]r,,extra,,,15,b509,0d03,v,,UCH\n")) return 2;
  string err;
  result_t ret = messages->resolveConditions(false, &err);
  if (ret != RESULT_OK) { cout << "resolve: " << getResultCode(ret) << " " << err << endl; return 2; }
  Message* sa = messages->find("aaa", "status", "", false);
  Message* sb = messages->find("bbb", "status", "", false);
  if (!sa || !sb) { cout << "status messages not found" << endl; return 2; }
  store(sa, "0100");   // aaa/status = 0
  store(sb, "0101");   // bbb/status = 1: the condition of file 15.bbb.csv holds
  Message* avail = messages->find("bbb", "extra", "", false);
  cout << "aaa/status=0, bbb/status=1: bbb/extra is " << (avail ? "available" : "NOT available") << endl;
  int fail = avail ? 0 : 1;
  store(sa, "0101");   // aaa/status = 1
  store(sb, "0100");   // bbb/status = 0: the condition does not hold
  sleep(2);            // the conditions are re-evaluated on a change time of one second granularity
  store(sa, "0101");
  store(sb, "0100");
  avail = messages->find("bbb", "extra", "", false);
  cout << "aaa/status=1, bbb/status=0: bbb/extra is " << (avail ? "available" : "NOT available") << endl;
  fail |= avail ? 1 : 0;
  if (fail) cout << "FAIL: the condition of circuit bbb follows the message of circuit aaa" << endl;
  else cout << "OK" << endl;
  return fail;
}
