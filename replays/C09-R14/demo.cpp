// replay: ChainedMessage::prepareMasterPart(0) resets only the times of part 0 (loop stores to [index] instead of [i]):
// when a chained read is started again, the answer of part 0 of the new round is combined with part 1 of the OLD round
#include <iostream>
#include <sstream>
#include <string>
#include <vector>
#include "lib/ebus/message.h"
using namespace ebusd;
using namespace std;

static DataFieldTemplates* g_templates = new DataFieldTemplates();
class DemoResolver : public Resolver {
 public:
  DataFieldTemplates* getTemplates(const string&) override { return g_templates; }
  result_t loadDefinitionsFromConfigPath(FileReader*, const string&, map<string, string>*, string*,
      bool) override { return RESULT_ERR_NOTFOUND; }
};

int main() {
  MessageMap* messages = new MessageMap("");
  messages->setResolver(new DemoResolver());
  string err;
  istringstream defs("#\n"
                     "r,c,chain,,,08,b509,0300:2;0302:2,a,s,UIN,,,,b,s,UIN\n");
  time_t mtime = 0;
  result_t ret = messages->readFromStream(&defs, "demo.csv", mtime, false, nullptr, &err);
  if (ret != RESULT_OK) { cout << "load failed: " << getResultCode(ret) << " " << err << endl; return 2; }
  Message* m = messages->find("c", "chain", "", false);
  if (!m || m->getCount() != 2) { cout << "no chained message" << endl; return 2; }
  auto round = [&](const char* s0, const char* s1, bool onlyFirst) -> string {
    for (size_t idx = 0; idx < (onlyFirst ? 1u : 2u); idx++) {
      MasterSymbolString master;
      istringstream in("");
      result_t r = m->prepareMaster(idx, 0x31, SYN, UI_FIELD_SEPARATOR, &in, &master);
      if (r != RESULT_OK) { cout << "prepare " << idx << ": " << getResultCode(r) << endl; exit(2); }
      SlaveSymbolString slave;
      slave.parseHex(idx == 0 ? s0 : s1);
      m->storeLastData(master, slave);
    }
    ostringstream out;
    m->decodeLastData(pt_any, false, nullptr, -1, OF_NONE, &out);
    return out.str();
  };
  string v1 = round("021100", "022200", false);   // a=0x0011=17, b=0x0022=34
  cout << "round 1 complete: " << v1 << endl;
  string v2 = round("023300", "", true);           // new round, only part 0 answered so far (a=51)
  cout << "round 2 after part 0 only: " << v2 << endl;
  if (v1 != "17;34") { cout << "unexpected round 1 value" << endl; return 2; }
  if (v2 != v1) {
    cout << "FAIL: the value of the message mixes part 0 of the new round with part 1 of the old round" << endl;
    return 1;
  }
  cout << "OK: the combined value changes only when all parts of the new round have arrived" << endl;
  return 0;
}
