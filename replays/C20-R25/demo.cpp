// Demo for seeded change 1 (C04): a multi-address ScanRequest must be able to restart itself for the next
// address after the first address is done (completion callback returns "restart" with a freshly prepared master).
//
// The demo plays the role of the bus thread: it starts a full scan through BusHandler::startScan(), takes the queued
// ScanRequest out of the protocol handler's queue, lets the stack be reused (as always happens in the daemon between
// the "scan" command and the completion of the first address) and then completes the first address with a timeout,
// exactly as DirectProtocolHandler::setState() does. The request has to answer "restart" and carry the identification
// query for the second address.
//
// exit 0 = property holds, exit != 0 = property broken.

#include <errno.h>
#include <pthread.h>
#include <signal.h>
#include <stdint.h>
#include <sys/wait.h>
#include <unistd.h>
#include <algorithm>
#include <cstdio>
#include <cstdlib>
#include <cstring>
#include <ctime>
#include <deque>
#include <fstream>
#include <functional>
#include <iomanip>
#include <iostream>
#include <list>
#include <map>
#include <memory>
#include <queue>
#include <set>
#include <sstream>
#include <string>
#include <vector>
#include "lib/utils/log.h"
#include "lib/utils/httpclient.h"
#include "lib/utils/queue.h"
#include "lib/utils/thread.h"
#include "lib/ebus/data.h"
#include "lib/ebus/message.h"
#include "lib/ebus/device.h"
// reach the queue of the protocol handler and the members of the scan request
#define private public
#define protected public
#include "lib/ebus/protocol.h"
#include "lib/ebus/protocol_direct.h"
#include "ebusd/bushandler.h"
#undef private
#undef protected

using namespace ebusd;  // NOLINT
using std::string;

/** a device that is never really used (the bus thread is not started). */
class IdleDevice : public Device {
 public:
  const char* getName() const override { return "idle"; }
  void formatInfo(ostringstream* output, bool verbose, bool prefix) override {}
  result_t open() override { return RESULT_OK; }
  bool isValid() override { return true; }
  result_t send(symbol_t value) override { return RESULT_OK; }
  result_t recv(unsigned int timeout, symbol_t* value, ArbitrationState* arbitrationState) override {
    return RESULT_ERR_TIMEOUT;
  }
  result_t startArbitration(symbol_t masterAddress) override { return RESULT_OK; }
  bool isArbitrating() const override { return false; }
  bool cancelRunningArbitration(ArbitrationState* arbitrationState) override { return false; }
};


int main() {
  setFacilitiesLogLevel(-1, ll_none);
  MessageMap messages;
  ScanHelper scanHelper(&messages, "", "", "", "", nullptr, false);
  BusHandler busHandler(&messages, &scanHelper, 0);
  ebus_protocol_config_t config;
  memset(&config, 0, sizeof(config));
  config.device = "idle";
  config.ownAddress = 0x31;
  config.busLostRetries = 3;
  config.failedSendRetries = 2;
  config.busAcquireTimeout = 10;
  config.slaveRecvTimeout = 25;
  DirectProtocolHandler* protocol = new DirectProtocolHandler(config, new IdleDevice(), &busHandler);
  busHandler.setProtocol(protocol);
  int leaked = 0;
  for (int round = 0; round < 3; round++) {
    // "scan full": fire-and-forget, nobody waits for the request ("request is deleted by ProtocolHandler after finish")
    result_t ret = busHandler.startScan(true, "*");
    if (ret != RESULT_OK) { printf("unexpected: startScan returned %s\n", getResultCode(ret)); return 10; }
    BusRequest* request = protocol->m_nextRequests.pop();
    if (!request) { printf("unexpected: no request queued\n"); return 11; }
    printf("round %d: asynchronous scan request %p, deleteOnFinish=%d\n", round, static_cast<void*>(request), request->m_deleteOnFinish);
    // what DirectProtocolHandler::setState does with a finished request: complete every address with a timeout
    SlaveSymbolString noAnswer;
    while (request->notify(RESULT_ERR_TIMEOUT, noAnswer)) {}
    if (request->m_deleteOnFinish) {
      delete request;
    } else {
      protocol->m_finishedRequests.push(request);   // waits for a caller of addRequest(request, true): there is none
      leaked++;
    }
  }
  printf("requests left in m_finishedRequests that nobody will ever take: %d\n", leaked);
  return leaked ? 1 : 0;
}
