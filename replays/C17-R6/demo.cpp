// replay (C17): the global poll order high-water mark survives MessageMap::clear(). After a reload all polled messages
// start again at order 0, but a message that gets its first priority at run time (read -p) is anchored at the old mark
// and is not selected until the others have caught up - a wait that grows with the uptime before the reload.
#include <iostream>
#include <sstream>
#include <string>
#include <map>
#include "lib/ebus/message.h"
using namespace ebusd;
using namespace std;

static DataFieldTemplates* g_templates = new DataFieldTemplates();
class DemoResolver : public Resolver {
 public:
  DataFieldTemplates* getTemplates(const string&) override { return g_templates; }
  result_t loadDefinitionsFromConfigPath(FileReader*, const string&, map<string, string>*, string*,
      bool) override { return RESULT_ERR_NOTFOUND; }
};

static const char* DEFS = "#\n"
  "r1,c,a,,,08,b509,0d01,x,,UCH\n"
  "r1,c,b,,,08,b509,0d02,x,,UCH\n"
  "r,c,z,,,08,b509,0d03,x,,UCH\n";

static bool load(MessageMap* messages) {
  istringstream defs(DEFS);
  string err;
  result_t ret = messages->readFromStream(&defs, "demo.csv", 0, false, nullptr, &err);
  if (ret != RESULT_OK) { cout << "load failed: " << getResultCode(ret) << " " << err << endl; return false; }
  return true;
}

int main() {
  MessageMap* messages = new MessageMap("");
  messages->setResolver(new DemoResolver());
  if (!load(messages)) return 2;
  for (int i = 0; i < 3000; i++) {   // the daemon polls for a while
    messages->getNextPoll();
  }
  messages->clear();                 // "reload"
  if (!load(messages)) return 2;
  Message* z = messages->find("c", "z", "", false);
  if (!z) { cout << "z not found" << endl; return 2; }
  if (z->setPollPriority(1)) {       // read -p 1 z
    messages->addPollMessage(false, z);
  }
  int first = -1;
  map<string, int> cnt;
  for (int i = 0; i < 300; i++) {
    Message* m = messages->getNextPoll();
    cnt[m->getName()]++;
    if (m == z && first < 0) first = i;
  }
  cout << "300 selections after the reload: a=" << cnt["a"] << " b=" << cnt["b"] << " z=" << cnt["z"]
       << ", z first selected at position " << first << endl;
  if (first < 0 || first > 6 || cnt["z"] < 90) {
    cout << "FAIL: a message of the same priority is starved after a reload" << endl;
    return 1;
  }
  cout << "OK" << endl;
  return 0;
}
