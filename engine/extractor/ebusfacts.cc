// ebusfacts: generic fact extractor for john30/ebusd (clang 14 libTooling).
// Emits, per translation unit, a JSON document with every function defined
// under the repository source root: typed AST nodes (resolved callees,
// referenced declarations, evaluated integral constants), the clang CFG built
// with setAllAlwaysAdd(), global constant tables, enums and the class hierarchy.
// No property logic lives here; all rules are in engine/py.
//
// usage: ebusfacts --root=/repo/src --out=<file.json> <tu.cpp> -- <compile flags>

#include "clang/AST/ASTConsumer.h"
#include "clang/AST/ASTContext.h"
#include "clang/AST/RecursiveASTVisitor.h"
#include "clang/AST/ParentMapContext.h"
#include "clang/Analysis/CFG.h"
#include "clang/Frontend/CompilerInstance.h"
#include "clang/Frontend/FrontendAction.h"
#include "clang/Tooling/CommonOptionsParser.h"
#include "clang/Tooling/Tooling.h"
#include "llvm/Support/CommandLine.h"
#include "llvm/Support/FileSystem.h"
#include "llvm/Support/Path.h"
#include "llvm/Support/raw_ostream.h"

#include <map>
#include <set>
#include <string>
#include <vector>

using namespace clang;
using namespace clang::tooling;

static llvm::cl::OptionCategory Cat("ebusfacts options");
static llvm::cl::opt<std::string> Root("root", llvm::cl::desc("source root"), llvm::cl::init("/repo/src"),
                                       llvm::cl::cat(Cat));
static llvm::cl::opt<std::string> OutFile("out", llvm::cl::desc("output json"), llvm::cl::init("-"),
                                          llvm::cl::cat(Cat));
static llvm::cl::opt<bool> AllHeaders("all-headers", llvm::cl::desc("emit header functions even if an owner .cpp exists"),
                                      llvm::cl::init(false), llvm::cl::cat(Cat));

namespace {

std::string jesc(llvm::StringRef s) {
  std::string o;
  o.reserve(s.size() + 2);
  for (unsigned char c : s) {
    switch (c) {
      case '"': o += "\\\""; break;
      case '\\': o += "\\\\"; break;
      case '\n': o += "\\n"; break;
      case '\r': o += "\\r"; break;
      case '\t': o += "\\t"; break;
      default:
        if (c < 0x20 || c >= 0x7f) {
          char buf[8];
          snprintf(buf, sizeof(buf), "\\u%04x", c);
          o += buf;
        } else {
          o += static_cast<char>(c);
        }
    }
  }
  return o;
}

class Emitter {
 public:
  Emitter(ASTContext &C, llvm::raw_ostream &OS) : Ctx(C), SM(C.getSourceManager()), OS(OS) {
    PP = PrintingPolicy(C.getLangOpts());
    PP.SuppressTagKeyword = true;
    PP.Bool = true;
  }

  ASTContext &Ctx;
  SourceManager &SM;
  llvm::raw_ostream &OS;
  PrintingPolicy PP{LangOptions()};
  std::map<const Stmt *, unsigned> Ids;
  std::map<std::string, bool> OwnerCache;

  std::string fileOf(SourceLocation L) {
    if (L.isInvalid()) return "";
    L = SM.getExpansionLoc(L);
    auto F = SM.getFilename(L);
    if (F.empty()) return "";
    llvm::SmallString<256> P(F);
    llvm::sys::fs::make_absolute(P);
    llvm::sys::path::remove_dots(P, true);
    return std::string(P.str());
  }
  unsigned lineOf(SourceLocation L) { return L.isInvalid() ? 0 : SM.getExpansionLineNumber(L); }
  unsigned colOf(SourceLocation L) { return L.isInvalid() ? 0 : SM.getExpansionColumnNumber(L); }
  unsigned offOf(SourceLocation L) { return L.isInvalid() ? 0 : SM.getFileOffset(SM.getExpansionLoc(L)); }
  unsigned endOffOf(SourceLocation L) {
    if (L.isInvalid()) return 0;
    SourceLocation E = SM.getExpansionRange(L).getEnd();
    unsigned len = Lexer::MeasureTokenLength(E, SM, Ctx.getLangOpts());
    return SM.getFileOffset(E) + len;
  }

  bool underRoot(const std::string &F) { return !F.empty() && llvm::StringRef(F).startswith(Root); }

  bool inMainFile(SourceLocation L) { return SM.isInMainFile(SM.getExpansionLoc(L)); }

  // a header is "owned" when a .cpp of the same stem exists next to it and that is not the main file
  bool headerOwnedElsewhere(const std::string &F) {
    auto it = OwnerCache.find(F);
    if (it != OwnerCache.end()) return it->second;
    bool owned = false;
    llvm::SmallString<256> P(F);
    llvm::sys::path::replace_extension(P, ".cpp");
    if (llvm::sys::fs::exists(P)) {
      auto Main = SM.getFileEntryForID(SM.getMainFileID());
      llvm::SmallString<256> M(Main ? Main->getName() : "");
      llvm::sys::fs::make_absolute(M);
      llvm::sys::path::remove_dots(M, true);
      owned = (M.str() != P.str());
    }
    OwnerCache[F] = owned;
    return owned;
  }

  std::string typeStr(QualType T) { return T.isNull() ? "" : T.getAsString(PP); }

  void typeInfo(QualType T, std::string &out) {
    if (T.isNull()) return;
    out += ",\"t\":\"" + jesc(typeStr(T)) + "\"";
    QualType C = T.getCanonicalType().getNonReferenceType();
    if (C->isDependentType()) return;
    if (C->isIntegralOrEnumerationType() && !C->isIncompleteType()) {
      out += ",\"w\":" + std::to_string(Ctx.getTypeSize(C));
      out += std::string(",\"sg\":") + (C->isSignedIntegerOrEnumerationType() ? "1" : "0");
      if (C->isBooleanType()) out += ",\"bool\":1";
      if (C->isEnumeralType()) out += ",\"enum\":1";
    } else if (C->isFloatingType()) {
      out += ",\"fl\":" + std::to_string(Ctx.getTypeSize(C));
    } else if (C->isPointerType()) {
      out += ",\"ptr\":1";
    } else if (const auto *AT = Ctx.getAsConstantArrayType(C)) {
      out += ",\"arr\":" + std::to_string(AT->getSize().getZExtValue());
    }
  }

  std::string declId(const Decl *D) {
    if (!D) return "";
    SourceLocation L = D->getLocation();
    std::string s = fileOf(L);
    auto pos = s.rfind('/');
    if (pos != std::string::npos) s = s.substr(pos + 1);
    s += ":" + std::to_string(lineOf(L)) + ":" + std::to_string(colOf(L));
    if (const auto *ND = dyn_cast<NamedDecl>(D)) {
      if (ND->getDeclName().isIdentifier()) s += ":" + ND->getName().str();
    }
    return s;
  }

  std::string qualName(const NamedDecl *D) {
    if (!D) return "";
    std::string s;
    llvm::raw_string_ostream o(s);
    D->printQualifiedName(o, PP);
    return o.str();
  }

  std::string funcSig(const FunctionDecl *FD) {
    std::string s = qualName(FD) + "(";
    bool first = true;
    for (const ParmVarDecl *P : FD->parameters()) {
      if (!first) s += ",";
      first = false;
      s += typeStr(P->getType());
    }
    if (FD->isVariadic()) s += first ? "..." : ",...";
    s += ")";
    if (const auto *MD = dyn_cast<CXXMethodDecl>(FD)) {
      if (MD->isConst()) s += " const";
    }
    return s;
  }

  void calleeInfo(const FunctionDecl *FD, std::string &out) {
    if (!FD) return;
    out += ",\"callee\":\"" + jesc(qualName(FD)) + "\"";
    out += ",\"sig\":\"" + jesc(funcSig(FD)) + "\"";
    std::string f = fileOf(FD->getLocation());
    if (underRoot(f)) out += ",\"repo\":1";
    if (FD->isVariadic()) out += ",\"variadic\":1";
    if (const auto *MD = dyn_cast<CXXMethodDecl>(FD)) {
      if (MD->isVirtual()) out += ",\"virt\":1";
      out += ",\"cls\":\"" + jesc(qualName(MD->getParent())) + "\"";
    }
    // format attribute
    for (const auto *A : FD->specific_attrs<FormatAttr>()) {
      out += ",\"fmt\":{\"kind\":\"" + jesc(A->getType()->getName()) + "\",\"idx\":" + std::to_string(A->getFormatIdx()) +
             ",\"first\":" + std::to_string(A->getFirstArg()) + "}";
      break;
    }
  }

  void refInfo(const ValueDecl *VD, std::string &out) {
    if (!VD) return;
    std::string kind;
    if (isa<ParmVarDecl>(VD)) kind = "param";
    else if (const auto *V = dyn_cast<VarDecl>(VD)) {
      if (V->isLocalVarDecl()) kind = V->isStaticLocal() ? "staticlocal" : "local";
      else if (V->isStaticDataMember()) kind = "staticmember";
      else kind = "global";
    } else if (isa<EnumConstantDecl>(VD)) kind = "enumerator";
    else if (isa<FunctionDecl>(VD)) kind = "function";
    else if (isa<FieldDecl>(VD)) kind = "field";
    else kind = "other";
    out += ",\"rk\":\"" + kind + "\"";
    if (VD->getDeclName().isIdentifier()) out += ",\"name\":\"" + jesc(VD->getName()) + "\"";
    out += ",\"decl\":\"" + jesc(declId(VD)) + "\"";
    if (kind == "global" || kind == "staticmember" || kind == "function" || kind == "enumerator")
      out += ",\"qn\":\"" + jesc(qualName(VD)) + "\"";
    if (const auto *V = dyn_cast<VarDecl>(VD)) {
      if (V->getType().isConstQualified()) out += ",\"const\":1";
    }
  }

  unsigned idOf(const Stmt *S) {
    auto it = Ids.find(S);
    if (it != Ids.end()) return it->second;
    unsigned id = Ids.size() + 1;
    Ids[S] = id;
    return id;
  }

  // emit all nodes reachable from S (pre-assign ids depth first)
  void emitStmt(const Stmt *S, std::vector<std::string> &nodes) {
    if (!S) return;
    unsigned id = idOf(S);
    std::string o = "\"" + std::to_string(id) + "\":{\"k\":\"" + S->getStmtClassName() + "\"";
    SourceLocation B = S->getBeginLoc(), E = S->getEndLoc();
    o += ",\"l\":" + std::to_string(lineOf(B));
    o += ",\"c\":" + std::to_string(colOf(B));
    o += ",\"b\":" + std::to_string(offOf(B));
    o += ",\"e\":" + std::to_string(endOffOf(E));
    if (B.isMacroID()) {
      o += ",\"mac\":\"" + jesc(Lexer::getImmediateMacroName(B, SM, Ctx.getLangOpts())) + "\"";
    }
    std::vector<const Stmt *> kids;
    if (const auto *Ex = dyn_cast<Expr>(S)) {
      typeInfo(Ex->getType(), o);
      if (Ex->isLValue()) o += ",\"lv\":1";
      if (!Ex->isValueDependent() && !Ex->isTypeDependent() && !Ex->getType().isNull() &&
          Ex->getType()->isIntegralOrEnumerationType() && !isa<InitListExpr>(Ex)) {
        Expr::EvalResult R;
        if (Ex->EvaluateAsInt(R, Ctx, Expr::SE_NoSideEffects)) {
          llvm::SmallString<32> V;
          R.Val.getInt().toString(V, 10);
          o += ",\"v\":" + std::string(V.str());
        }
      }
    }
    if (const auto *DRE = dyn_cast<DeclRefExpr>(S)) {
      refInfo(DRE->getDecl(), o);
    } else if (const auto *ME = dyn_cast<MemberExpr>(S)) {
      const ValueDecl *MD = ME->getMemberDecl();
      if (MD->getDeclName().isIdentifier()) o += ",\"name\":\"" + jesc(MD->getName()) + "\"";
      o += ",\"qn\":\"" + jesc(qualName(MD)) + "\"";
      o += ",\"decl\":\"" + jesc(declId(MD)) + "\"";
      if (ME->isArrow()) o += ",\"arrow\":1";
      if (isa<FieldDecl>(MD)) o += ",\"rk\":\"field\"";
      else if (isa<CXXMethodDecl>(MD)) o += ",\"rk\":\"method\"";
      else o += ",\"rk\":\"othermember\"";
      const Expr *Base = ME->getBase()->IgnoreParenImpCasts();
      if (isa<CXXThisExpr>(Base)) o += ",\"this\":1";
    } else if (const auto *CE = dyn_cast<CallExpr>(S)) {
      const FunctionDecl *FD = CE->getDirectCallee();
      calleeInfo(FD, o);
      if (const auto *MCE = dyn_cast<CXXMemberCallExpr>(CE)) {
        if (const Expr *Obj = MCE->getImplicitObjectArgument()) {
          o += ",\"obj\":" + std::to_string(idOf(Obj));
          QualType OT = Obj->getType();
          if (OT->isPointerType()) OT = OT->getPointeeType();
          o += ",\"objt\":\"" + jesc(typeStr(OT.getUnqualifiedType())) + "\"";
          // virtual dispatch only when not qualified call
          if (const auto *ME2 = dyn_cast<MemberExpr>(MCE->getCallee()->IgnoreParens())) {
            if (ME2->hasQualifier()) o += ",\"qualcall\":1";
          }
        }
      }
      if (isa<CXXOperatorCallExpr>(CE)) {
        o += ",\"op\":\"" + std::string(getOperatorSpelling(cast<CXXOperatorCallExpr>(CE)->getOperator())) + "\"";
      }
      o += ",\"args\":[";
      for (unsigned i = 0; i < CE->getNumArgs(); i++) {
        if (i) o += ",";
        o += std::to_string(idOf(CE->getArg(i)));
      }
      o += "]";
      o += ",\"fn\":" + std::to_string(idOf(CE->getCallee()));
    } else if (const auto *CC = dyn_cast<CXXConstructExpr>(S)) {
      calleeInfo(CC->getConstructor(), o);
      o += ",\"args\":[";
      for (unsigned i = 0; i < CC->getNumArgs(); i++) {
        if (i) o += ",";
        o += std::to_string(idOf(CC->getArg(i)));
      }
      o += "]";
    } else if (const auto *NE = dyn_cast<CXXNewExpr>(S)) {
      o += ",\"newt\":\"" + jesc(typeStr(NE->getAllocatedType())) + "\"";
      if (NE->isArray()) o += ",\"isarr\":1";
      if (const auto *Init = NE->getInitializer()) o += ",\"init\":" + std::to_string(idOf(Init));
    } else if (const auto *DE = dyn_cast<CXXDeleteExpr>(S)) {
      o += ",\"delt\":\"" + jesc(typeStr(DE->getDestroyedType())) + "\"";
      if (DE->isArrayForm()) o += ",\"isarr\":1";
    } else if (const auto *IL = dyn_cast<IntegerLiteral>(S)) {
      (void)IL;
    } else if (const auto *FL = dyn_cast<FloatingLiteral>(S)) {
      llvm::SmallString<32> V;
      FL->getValue().toString(V);
      o += ",\"fv\":\"" + std::string(V.str()) + "\"";
    } else if (const auto *SL = dyn_cast<StringLiteral>(S)) {
      if (SL->isAscii() || SL->isUTF8()) o += ",\"str\":\"" + jesc(SL->getString()) + "\"";
    } else if (const auto *BO = dyn_cast<BinaryOperator>(S)) {
      o += ",\"op\":\"" + BO->getOpcodeStr().str() + "\"";
      o += ",\"lhs\":" + std::to_string(idOf(BO->getLHS())) + ",\"rhs\":" + std::to_string(idOf(BO->getRHS()));
    } else if (const auto *UO = dyn_cast<UnaryOperator>(S)) {
      o += ",\"op\":\"" + UnaryOperator::getOpcodeStr(UO->getOpcode()).str() + "\"";
      if (UO->isPostfix()) o += ",\"post\":1";
    } else if (const auto *CA = dyn_cast<CastExpr>(S)) {
      o += ",\"ck\":\"" + std::string(CA->getCastKindName()) + "\"";
      if (isa<ImplicitCastExpr>(CA)) o += ",\"impl\":1";
      std::string st;
      typeInfo(CA->getSubExpr()->getType(), st);
      // rename keys for the source type
      // (t->st, w->sw, sg->ssg, fl->sfl)
      std::string st2;
      {
        // st looks like ,"t":"..","w":..,"sg":..
        size_t p = 0;
        st2 = st;
        auto repl = [&](const std::string &a, const std::string &b) {
          size_t q = 0;
          while ((q = st2.find(a, q)) != std::string::npos) {
            st2.replace(q, a.size(), b);
            q += b.size();
          }
        };
        (void)p;
        repl(",\"t\":", ",\"st\":");
        repl(",\"w\":", ",\"sw\":");
        repl(",\"sg\":", ",\"ssg\":");
        repl(",\"fl\":", ",\"sfl\":");
        repl(",\"ptr\":", ",\"sptr\":");
        repl(",\"bool\":", ",\"sbool\":");
        repl(",\"enum\":", ",\"senum\":");
        repl(",\"arr\":", ",\"sarr\":");
      }
      o += st2;
    } else if (const auto *CO = dyn_cast<AbstractConditionalOperator>(S)) {
      o += ",\"cond\":" + std::to_string(idOf(CO->getCond())) + ",\"then\":" + std::to_string(idOf(CO->getTrueExpr())) +
           ",\"else\":" + std::to_string(idOf(CO->getFalseExpr()));
    } else if (const auto *AS = dyn_cast<ArraySubscriptExpr>(S)) {
      o += ",\"base\":" + std::to_string(idOf(AS->getBase())) + ",\"idx\":" + std::to_string(idOf(AS->getIdx()));
      QualType BT = AS->getBase()->IgnoreParenImpCasts()->getType();
      if (const auto *AT = Ctx.getAsConstantArrayType(BT)) o += ",\"bound\":" + std::to_string(AT->getSize().getZExtValue());
    } else if (const auto *UE = dyn_cast<UnaryExprOrTypeTraitExpr>(S)) {
      o += std::string(",\"trait\":\"") + (UE->getKind() == UETT_SizeOf ? "sizeof" : "other") + "\"";
    } else if (const auto *IS = dyn_cast<IfStmt>(S)) {
      if (IS->getCond()) o += ",\"cond\":" + std::to_string(idOf(IS->getCond()));
      if (IS->getThen()) o += ",\"then\":" + std::to_string(idOf(IS->getThen()));
      if (IS->getElse()) o += ",\"else\":" + std::to_string(idOf(IS->getElse()));
    } else if (const auto *WS = dyn_cast<WhileStmt>(S)) {
      if (WS->getCond()) o += ",\"cond\":" + std::to_string(idOf(WS->getCond()));
      if (WS->getBody()) o += ",\"body\":" + std::to_string(idOf(WS->getBody()));
    } else if (const auto *DS = dyn_cast<DoStmt>(S)) {
      if (DS->getCond()) o += ",\"cond\":" + std::to_string(idOf(DS->getCond()));
      if (DS->getBody()) o += ",\"body\":" + std::to_string(idOf(DS->getBody()));
    } else if (const auto *FS = dyn_cast<ForStmt>(S)) {
      if (FS->getInit()) o += ",\"init\":" + std::to_string(idOf(FS->getInit()));
      if (FS->getCond()) o += ",\"cond\":" + std::to_string(idOf(FS->getCond()));
      if (FS->getInc()) o += ",\"inc\":" + std::to_string(idOf(FS->getInc()));
      if (FS->getBody()) o += ",\"body\":" + std::to_string(idOf(FS->getBody()));
    } else if (const auto *RF = dyn_cast<CXXForRangeStmt>(S)) {
      if (RF->getBody()) o += ",\"body\":" + std::to_string(idOf(RF->getBody()));
      if (RF->getRangeInit()) o += ",\"range\":" + std::to_string(idOf(RF->getRangeInit()));
      if (const VarDecl *LV = RF->getLoopVariable()) {
        o += ",\"loopvar\":\"" + jesc(declId(LV)) + "\"";
      }
    } else if (const auto *SS = dyn_cast<SwitchStmt>(S)) {
      if (SS->getCond()) o += ",\"cond\":" + std::to_string(idOf(SS->getCond()));
      if (SS->getBody()) o += ",\"body\":" + std::to_string(idOf(SS->getBody()));
    } else if (const auto *CS = dyn_cast<CaseStmt>(S)) {
      o += ",\"lhs\":" + std::to_string(idOf(CS->getLHS()));
      if (CS->getSubStmt()) o += ",\"sub\":" + std::to_string(idOf(CS->getSubStmt()));
    } else if (const auto *DfS = dyn_cast<DefaultStmt>(S)) {
      if (DfS->getSubStmt()) o += ",\"sub\":" + std::to_string(idOf(DfS->getSubStmt()));
    } else if (const auto *RS = dyn_cast<ReturnStmt>(S)) {
      if (RS->getRetValue()) o += ",\"val\":" + std::to_string(idOf(RS->getRetValue()));
    } else if (const auto *DS2 = dyn_cast<DeclStmt>(S)) {
      o += ",\"decls\":[";
      bool first = true;
      for (const Decl *D : DS2->decls()) {
        if (const auto *VD = dyn_cast<VarDecl>(D)) {
          if (!first) o += ",";
          first = false;
          o += "{\"name\":\"" + jesc(VD->getDeclName().isIdentifier() ? VD->getName() : "") + "\",\"decl\":\"" +
               jesc(declId(VD)) + "\"";
          typeInfo(VD->getType(), o);
          if (VD->isStaticLocal()) o += ",\"static\":1";
          if (VD->getInit()) {
            o += ",\"init\":" + std::to_string(idOf(VD->getInit()));
            kids.push_back(VD->getInit());
          }
          o += "}";
        }
      }
      o += "]";
    }
    // generic children
    o += ",\"ch\":[";
    bool first = true;
    if (isa<DeclStmt>(S)) {
      for (const Stmt *K : kids) {
        if (!first) o += ",";
        first = false;
        o += std::to_string(idOf(K));
      }
    } else {
      for (const Stmt *K : S->children()) {
        if (!K) continue;
        kids.push_back(K);
        if (!first) o += ",";
        first = false;
        o += std::to_string(idOf(K));
      }
    }
    o += "]}";
    nodes.push_back(std::move(o));
    for (const Stmt *K : kids) emitStmt(K, nodes);
  }

  bool firstFunc = true;

  void emitFunction(const FunctionDecl *FD) {
    if (!FD->doesThisDeclarationHaveABody() || !FD->getBody()) return;
    if (FD->isDependentContext()) return;
    std::string file = fileOf(FD->getLocation());
    if (!underRoot(file)) return;
    bool isInst = FD->isTemplateInstantiation();
    if (!inMainFile(FD->getLocation()) && !isInst && !AllHeaders && headerOwnedElsewhere(file)) return;
    Ids.clear();
    std::string o;
    o += "{\"name\":\"" + jesc(qualName(FD)) + "\"";
    o += ",\"sig\":\"" + jesc(funcSig(FD)) + "\"";
    o += ",\"decl\":\"" + jesc(declId(FD)) + "\"";
    o += ",\"file\":\"" + jesc(file) + "\"";
    o += ",\"line\":" + std::to_string(lineOf(FD->getBeginLoc()));
    o += ",\"endline\":" + std::to_string(lineOf(FD->getEndLoc()));
    o += ",\"ret\":\"" + jesc(typeStr(FD->getReturnType())) + "\"";
    if (isInst) o += ",\"inst\":1";
    if (FD->isVariadic()) o += ",\"variadic\":1";
    if (const auto *MD = dyn_cast<CXXMethodDecl>(FD)) {
      o += ",\"cls\":\"" + jesc(qualName(MD->getParent())) + "\"";
      if (MD->isVirtual()) o += ",\"virt\":1";
      if (MD->isStatic()) o += ",\"static\":1";
      if (MD->isConst()) o += ",\"constm\":1";
      if (isa<CXXConstructorDecl>(MD)) o += ",\"ctor\":1";
      if (isa<CXXDestructorDecl>(MD)) o += ",\"dtor\":1";
      o += ",\"overrides\":[";
      bool f = true;
      for (const CXXMethodDecl *OM : MD->overridden_methods()) {
        if (!f) o += ",";
        f = false;
        o += "\"" + jesc(funcSig(OM)) + "\"";
      }
      o += "]";
    }
    o += ",\"params\":[";
    bool f = true;
    for (const ParmVarDecl *P : FD->parameters()) {
      if (!f) o += ",";
      f = false;
      o += "{\"name\":\"" + jesc(P->getDeclName().isIdentifier() ? P->getName() : "") + "\",\"decl\":\"" + jesc(declId(P)) + "\"";
      typeInfo(P->getType(), o);
      if (P->hasDefaultArg() && !P->hasUninstantiatedDefaultArg() && !P->hasUnparsedDefaultArg()) {
        const Expr *DA = P->getDefaultArg();
        Expr::EvalResult R;
        if (DA && !DA->isValueDependent() && DA->getType()->isIntegralOrEnumerationType() &&
            DA->EvaluateAsInt(R, Ctx, Expr::SE_NoSideEffects)) {
          llvm::SmallString<32> V;
          R.Val.getInt().toString(V, 10);
          o += ",\"defv\":" + std::string(V.str());
        } else {
          o += ",\"hasdef\":1";
        }
      }
      o += "}";
    }
    o += "]";
    std::vector<std::string> nodes;
    // constructor initialisers
    std::vector<std::pair<std::string, unsigned>> inits;
    if (const auto *CD = dyn_cast<CXXConstructorDecl>(FD)) {
      for (const CXXCtorInitializer *I : CD->inits()) {
        if (!I->getInit()) continue;
        std::string nm;
        if (I->isAnyMemberInitializer() && I->getAnyMember()) nm = I->getAnyMember()->getName().str();
        else if (I->isBaseInitializer()) nm = "<base>" + typeStr(QualType(I->getBaseClass(), 0));
        else nm = "<delegating>";
        unsigned id = idOf(I->getInit());
        inits.push_back({nm, id});
      }
      for (const CXXCtorInitializer *I : CD->inits()) {
        if (I->getInit()) emitStmt(I->getInit(), nodes);
      }
    }
    unsigned body = idOf(FD->getBody());
    emitStmt(FD->getBody(), nodes);
    o += ",\"body\":" + std::to_string(body);
    o += ",\"inits\":[";
    f = true;
    for (auto &p : inits) {
      if (!f) o += ",";
      f = false;
      o += "{\"member\":\"" + jesc(p.first) + "\",\"init\":" + std::to_string(p.second) + "}";
    }
    o += "]";
    // CFG
    CFG::BuildOptions BO;
    BO.setAllAlwaysAdd();
    BO.AddInitializers = true;
    BO.AddImplicitDtors = false;
    BO.AddTemporaryDtors = false;
    BO.AddEHEdges = false;
    std::unique_ptr<CFG> G = CFG::buildCFG(FD, FD->getBody(), &Ctx, BO);
    std::vector<std::string> extra;
    if (G) {
      o += ",\"cfg\":{\"entry\":" + std::to_string(G->getEntry().getBlockID()) +
           ",\"exit\":" + std::to_string(G->getExit().getBlockID()) + ",\"blocks\":[";
      bool fb = true;
      for (const CFGBlock *B : *G) {
        if (!fb) o += ",";
        fb = false;
        o += "{\"id\":" + std::to_string(B->getBlockID()) + ",\"elems\":[";
        bool fe = true;
        for (const CFGElement &E : *B) {
          if (auto CS = E.getAs<CFGStmt>()) {
            const Stmt *S = CS->getStmt();
            if (!Ids.count(S)) emitStmt(S, extra);
            if (!fe) o += ",";
            fe = false;
            o += std::to_string(idOf(S));
          } else if (auto CI = E.getAs<CFGInitializer>()) {
            const Stmt *S = CI->getInitializer()->getInit();
            if (S) {
              if (!Ids.count(S)) emitStmt(S, extra);
              if (!fe) o += ",";
              fe = false;
              o += std::to_string(idOf(S));
            }
          }
        }
        o += "],\"succs\":[";
        bool fs = true;
        for (auto SI = B->succ_begin(); SI != B->succ_end(); ++SI) {
          if (!fs) o += ",";
          fs = false;
          const CFGBlock *SB = SI->getReachableBlock();
          bool unreachable = false;
          if (!SB) {
            SB = SI->getPossiblyUnreachableBlock();
            unreachable = true;
          }
          if (SB) o += unreachable ? ("-" + std::to_string(SB->getBlockID() + 1)) : std::to_string(SB->getBlockID());
          else o += "null";
        }
        o += "]";
        if (const Stmt *T = B->getTerminatorStmt()) {
          if (!Ids.count(T)) emitStmt(T, extra);
          o += ",\"term\":" + std::to_string(idOf(T));
          o += ",\"tk\":\"" + std::string(T->getStmtClassName()) + "\"";
        }
        if (const Stmt *TC = B->getTerminatorCondition(false)) {
          if (!Ids.count(TC)) emitStmt(TC, extra);
          o += ",\"cond\":" + std::to_string(idOf(TC));
        }
        if (const Stmt *L = B->getLabel()) {
          if (const auto *CS = dyn_cast<CaseStmt>(L)) {
            o += ",\"label\":{\"kind\":\"case\"";
            Expr::EvalResult R;
            if (CS->getLHS() && !CS->getLHS()->isValueDependent() && CS->getLHS()->EvaluateAsInt(R, Ctx)) {
              llvm::SmallString<32> V;
              R.Val.getInt().toString(V, 10);
              o += ",\"v\":" + std::string(V.str());
            }
            // enumerator name if any
            if (const auto *DRE = dyn_cast<DeclRefExpr>(CS->getLHS()->IgnoreParenCasts())) {
              if (const auto *CE2 = dyn_cast<ConstantExpr>(CS->getLHS())) (void)CE2;
              o += ",\"name\":\"" + jesc(DRE->getDecl()->getName()) + "\"";
            } else if (const auto *CE3 = dyn_cast<ConstantExpr>(CS->getLHS())) {
              if (const auto *DRE2 = dyn_cast<DeclRefExpr>(CE3->getSubExpr()->IgnoreParenCasts()))
                o += ",\"name\":\"" + jesc(DRE2->getDecl()->getName()) + "\"";
            }
            o += ",\"line\":" + std::to_string(lineOf(CS->getBeginLoc()));
            o += "}";
          } else if (isa<DefaultStmt>(L)) {
            o += ",\"label\":{\"kind\":\"default\",\"line\":" + std::to_string(lineOf(L->getBeginLoc())) + "}";
          } else {
            o += ",\"label\":{\"kind\":\"label\"}";
          }
        }
        o += "}";
      }
      o += "]}";
    }
    o += ",\"nodes\":{";
    bool fn = true;
    for (auto &n : nodes) {
      if (!fn) o += ",";
      fn = false;
      o += n;
    }
    for (auto &n : extra) {
      if (!fn) o += ",";
      fn = false;
      o += n;
    }
    o += "}}";
    if (!firstFunc) OS << ",\n";
    firstFunc = false;
    OS << o;
  }
};

class Visitor : public RecursiveASTVisitor<Visitor> {
 public:
  explicit Visitor(Emitter &E) : E(E) {}
  bool shouldVisitTemplateInstantiations() const { return true; }
  bool shouldVisitImplicitCode() const { return false; }
  bool VisitFunctionDecl(FunctionDecl *FD) {
    if (FD->isThisDeclarationADefinition()) Funcs.push_back(FD);
    return true;
  }
  bool VisitVarDecl(VarDecl *VD) {
    if (VD->hasGlobalStorage() && VD->isThisDeclarationADefinition() && !VD->isLocalVarDecl() &&
        !isa<ParmVarDecl>(VD) && !VD->isStaticLocal())
      Globals.push_back(VD);
    else if (VD->isStaticLocal())
      Globals.push_back(VD);
    return true;
  }
  bool VisitEnumDecl(EnumDecl *ED) {
    if (ED->isThisDeclarationADefinition()) Enums.push_back(ED);
    return true;
  }
  bool VisitCXXRecordDecl(CXXRecordDecl *RD) {
    if (RD->isThisDeclarationADefinition() && !RD->isDependentContext()) Classes.push_back(RD);
    return true;
  }
  Emitter &E;
  std::vector<FunctionDecl *> Funcs;
  std::vector<VarDecl *> Globals;
  std::vector<EnumDecl *> Enums;
  std::vector<CXXRecordDecl *> Classes;
};

void emitInitValue(Emitter &E, const Expr *Init, std::string &o, int depth = 0) {
  if (!Init) {
    o += "null";
    return;
  }
  Init = Init->IgnoreImplicit();
  if (const auto *ILE = dyn_cast<InitListExpr>(Init)) {
    o += "[";
    for (unsigned i = 0; i < ILE->getNumInits(); i++) {
      if (i) o += ",";
      emitInitValue(E, ILE->getInit(i), o, depth + 1);
    }
    o += "]";
    return;
  }
  if (const auto *SL = dyn_cast<StringLiteral>(Init->IgnoreParenImpCasts())) {
    if (SL->isAscii() || SL->isUTF8()) {
      o += "\"" + jesc(SL->getString()) + "\"";
      return;
    }
  }
  if (const auto *DRE = dyn_cast<DeclRefExpr>(Init->IgnoreParenImpCasts())) {
    // a table entry naming another constant (static const char* X = "..."): use that constant's initialiser
    if (const auto *VD = dyn_cast<VarDecl>(DRE->getDecl())) {
      if (depth < 4 && VD->hasInit() && !VD->getType()->isReferenceType() && VD->hasGlobalStorage()) {
        emitInitValue(E, VD->getInit(), o, depth + 1);
        return;
      }
    }
  }
  if (const auto *CC = dyn_cast<CXXConstructExpr>(Init)) {
    if (CC->getNumArgs() >= 1) {
      emitInitValue(E, CC->getArg(0), o, depth + 1);
      return;
    }
  }
  if (const auto *BT = dyn_cast<CXXBindTemporaryExpr>(Init)) {
    emitInitValue(E, BT->getSubExpr(), o, depth + 1);
    return;
  }
  if (const auto *FC = dyn_cast<CXXFunctionalCastExpr>(Init)) {
    emitInitValue(E, FC->getSubExpr(), o, depth + 1);
    return;
  }
  if (const auto *MT = dyn_cast<MaterializeTemporaryExpr>(Init)) {
    emitInitValue(E, MT->getSubExpr(), o, depth + 1);
    return;
  }
  if (!Init->isValueDependent() && Init->getType()->isIntegralOrEnumerationType()) {
    Expr::EvalResult R;
    if (Init->EvaluateAsInt(R, E.Ctx, Expr::SE_NoSideEffects)) {
      llvm::SmallString<32> V;
      R.Val.getInt().toString(V, 10);
      o += std::string(V.str());
      return;
    }
  }
  if (!Init->isValueDependent() && Init->getType()->isFloatingType()) {
    llvm::APFloat F(0.0);
    if (Init->EvaluateAsFloat(F, E.Ctx)) {
      llvm::SmallString<32> V;
      F.toString(V);
      o += "\"f:" + std::string(V.str()) + "\"";
      return;
    }
  }
  o += "null";
}

class Consumer : public ASTConsumer {
 public:
  void HandleTranslationUnit(ASTContext &Ctx) override {
    std::error_code EC;
    std::unique_ptr<llvm::raw_fd_ostream> FOS;
    llvm::raw_ostream *OS = &llvm::outs();
    if (OutFile != "-") {
      FOS.reset(new llvm::raw_fd_ostream(OutFile, EC));
      if (EC) {
        llvm::errs() << "cannot open " << OutFile << "\n";
        return;
      }
      OS = FOS.get();
    }
    Emitter E(Ctx, *OS);
    Visitor V(E);
    V.TraverseDecl(Ctx.getTranslationUnitDecl());
    auto Main = Ctx.getSourceManager().getFileEntryForID(Ctx.getSourceManager().getMainFileID());
    *OS << "{\"tu\":\"" << jesc(Main ? Main->getName() : "") << "\",\n\"functions\":[\n";
    std::set<const FunctionDecl *> seen;
    for (FunctionDecl *FD : V.Funcs) {
      if (!seen.insert(FD).second) continue;
      E.emitFunction(FD);
    }
    *OS << "\n],\n\"globals\":[\n";
    bool first = true;
    std::set<const VarDecl *> seenG;
    for (VarDecl *VD : V.Globals) {
      if (!seenG.insert(VD).second) continue;
      std::string file = E.fileOf(VD->getLocation());
      if (!E.underRoot(file)) continue;
      if (VD->getType()->isDependentType()) continue;
      std::string o = "{\"name\":\"" + jesc(E.qualName(VD)) + "\",\"decl\":\"" + jesc(E.declId(VD)) + "\",\"file\":\"" +
                      jesc(file) + "\",\"line\":" + std::to_string(E.lineOf(VD->getLocation()));
      E.typeInfo(VD->getType(), o);
      if (VD->getType().isConstQualified()) o += ",\"const\":1";
      if (VD->isStaticLocal()) o += ",\"staticlocal\":1";
      if (VD->getInit() && !VD->getInit()->isValueDependent()) {
        o += ",\"init\":";
        emitInitValue(E, VD->getInit(), o);
      }
      o += "}";
      if (!first) *OS << ",\n";
      first = false;
      *OS << o;
    }
    *OS << "\n],\n\"enums\":[\n";
    first = true;
    for (EnumDecl *ED : V.Enums) {
      std::string file = E.fileOf(ED->getLocation());
      if (!E.underRoot(file)) continue;
      std::string o = "{\"name\":\"" + jesc(E.qualName(ED)) + "\",\"file\":\"" + jesc(file) + "\",\"line\":" +
                      std::to_string(E.lineOf(ED->getLocation())) + ",\"enumerators\":[";
      bool f = true;
      for (const EnumConstantDecl *EC2 : ED->enumerators()) {
        if (!f) o += ",";
        f = false;
        llvm::SmallString<32> Vs;
        EC2->getInitVal().toString(Vs, 10);
        o += "{\"name\":\"" + jesc(EC2->getName()) + "\",\"v\":" + std::string(Vs.str()) + "}";
      }
      o += "]}";
      if (!first) *OS << ",\n";
      first = false;
      *OS << o;
    }
    *OS << "\n],\n\"classes\":[\n";
    first = true;
    for (CXXRecordDecl *RD : V.Classes) {
      std::string file = E.fileOf(RD->getLocation());
      if (!E.underRoot(file)) continue;
      std::string o = "{\"name\":\"" + jesc(E.qualName(RD)) + "\",\"file\":\"" + jesc(file) + "\",\"line\":" +
                      std::to_string(E.lineOf(RD->getLocation())) + ",\"bases\":[";
      bool f = true;
      for (const CXXBaseSpecifier &B : RD->bases()) {
        if (!f) o += ",";
        f = false;
        const CXXRecordDecl *BD = B.getType()->getAsCXXRecordDecl();
        o += "\"" + jesc(BD ? E.qualName(BD) : E.typeStr(B.getType())) + "\"";
      }
      o += "],\"fields\":[";
      f = true;
      for (const FieldDecl *FD : RD->fields()) {
        if (!f) o += ",";
        f = false;
        o += "{\"name\":\"" + jesc(FD->getName()) + "\"";
        E.typeInfo(FD->getType(), o);
        o += "}";
      }
      o += "],\"methods\":[";
      f = true;
      for (const CXXMethodDecl *MD : RD->methods()) {
        if (MD->isImplicit()) continue;
        if (!f) o += ",";
        f = false;
        o += "{\"sig\":\"" + jesc(E.funcSig(MD)) + "\"";
        if (MD->isVirtual()) o += ",\"virt\":1";
        if (MD->isPure()) o += ",\"pure\":1";
        o += ",\"overrides\":[";
        bool f2 = true;
        for (const CXXMethodDecl *OM : MD->overridden_methods()) {
          if (!f2) o += ",";
          f2 = false;
          o += "\"" + jesc(E.funcSig(OM)) + "\"";
        }
        o += "]}";
      }
      o += "]}";
      if (!first) *OS << ",\n";
      first = false;
      *OS << o;
    }
    *OS << "\n]}\n";
  }
};

class Action : public ASTFrontendAction {
 public:
  std::unique_ptr<ASTConsumer> CreateASTConsumer(CompilerInstance &, llvm::StringRef) override {
    return std::make_unique<Consumer>();
  }
};

}  // namespace

int main(int argc, const char **argv) {
  auto Exp = CommonOptionsParser::create(argc, argv, Cat);
  if (!Exp) {
    llvm::errs() << llvm::toString(Exp.takeError());
    return 2;
  }
  ClangTool Tool(Exp->getCompilations(), Exp->getSourcePathList());
  return Tool.run(newFrontendActionFactory<Action>().get());
}
