// positive example for rules/common.py loop_counter_param_rule: must be reported on every run
namespace sample {
int make(bool own);
int create(unsigned char slave) {
  int n = 0;
  if (slave == 0xaa) {
    for (slave = 1; slave != 0; slave++) {
      n++;
    }
  }
  return make(slave == 0xaa) + n;   // the argument is gone: after the loop slave is 0
}
}
