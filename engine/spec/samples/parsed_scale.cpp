// positive example for rules/common.py parsed_scale_rule: must be reported on every run
#include <stdlib.h>
namespace sample {
double scale(const char* str, int divisor) {
  char* end = nullptr;
  long scaled = strtol(str, &end, 10);
  scaled *= divisor;   // unchecked 64 bit product: wraps into the valid range for 17..19 digit texts
  return static_cast<double>(scaled);
}
}
