#!/usr/bin/env python3
"""intake of seeded changes produced by a sub-agent in its scratch worktree:

  seed_intake.py <property> <worktree> "<what 1>" "<what 2>"

for n in 1, 2: confirms the change with seed_verify.sh (baseline builds, tests pass, demo passes; with the patch: builds,
tests pass, demo fails) and, if confirmed, copies patch.diff, demo.cpp, build.sh, README.md to /verif/seeded/<property>-<k>
(k = next free number) with a meta.json; then runs the property's quick check against it (seeded_status.py)."""
import json
import os
import shutil
import subprocess
import sys

VERIF = os.path.dirname(os.path.dirname(os.path.abspath(__file__)))
SEEDED = os.path.join(VERIF, 'seeded')


def main():
    prop, wt = sys.argv[1], sys.argv[2]
    whats = sys.argv[3:5]
    new = []
    for n in (1, 2):
        src = os.path.join(wt, '_seed', str(n))
        if not os.path.isfile(os.path.join(src, 'patch.diff')):
            print('%s/%d: no patch' % (prop, n))
            continue
        r = subprocess.run(['sh', os.path.join(VERIF, 'engine', 'seed_verify.sh'), wt, str(n)], stdout=subprocess.PIPE,
                           stderr=subprocess.STDOUT, universal_newlines=True)
        print(r.stdout.strip())
        if 'CONFIRMED' not in r.stdout:
            print('%s/%d: NOT confirmed' % (prop, n))
            continue
        k = 1
        while os.path.isdir(os.path.join(SEEDED, '%s-%d' % (prop, k))):
            k += 1
        sid = '%s-%d' % (prop, k)
        dst = os.path.join(SEEDED, sid)
        os.makedirs(dst)
        files = []
        for f in sorted(os.listdir(src)):
            p = os.path.join(src, f)
            if os.path.isfile(p) and (f.endswith(('.diff', '.cpp', '.sh', '.md', '.h', '.csv', '.txt', '.py')) and os.path.getsize(p) < 200000):
                shutil.copy(p, os.path.join(dst, f))
                files.append(f)
        meta = {
            'id': sid, 'property': prop,
            'what': whats[n - 1] if len(whats) >= n else '',
            'source': 'independent sub-agent (round %s) given only the property text and a scratch worktree' % os.environ.get('SEED_ROUND', '3'),
            'confirmed': 'engine/seed_verify.sh in the agent worktree: ' + r.stdout.strip().splitlines()[-2],
            'files': files,
        }
        json.dump(meta, open(os.path.join(dst, 'meta.json'), 'w'), indent=1)
        new.append(sid)
    if new:
        subprocess.call([sys.executable, os.path.join(VERIF, 'engine', 'seeded_status.py')] + new)


if __name__ == '__main__':
    main()
