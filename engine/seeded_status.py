#!/usr/bin/env python3
"""runs every seeded change in /verif/seeded against the quick check of its property (on a scratch export of /repo HEAD
with the patch applied; /repo itself is not touched) and records which rule reports it in seeded/<id>/meta.json"""
import json
import os
import re
import subprocess
import sys

VERIF = os.path.dirname(os.path.dirname(os.path.abspath(__file__)))
SEEDED = os.path.join(VERIF, 'seeded')


def main():
    only = sys.argv[1:]
    rows = []
    for d in sorted(os.listdir(SEEDED)):
        p = os.path.join(SEEDED, d)
        mp = os.path.join(p, 'meta.json')
        if not os.path.isfile(mp) or (only and d not in only):
            continue
        meta = json.load(open(mp))
        props = meta.get('check_properties') or [meta['property']]
        det = []
        outcome = 'missed'
        for prop in props:
            r = subprocess.run(['sh', os.path.join(VERIF, 'engine', 'on_tree.sh'), 'HEAD', '--patch',
                                os.path.join(p, 'patch.diff'), '--', prop], stdout=subprocess.PIPE,
                               stderr=subprocess.STDOUT, universal_newlines=True)
            if r.returncode == 3 and 'PATCH-DOES-NOT-APPLY' in r.stdout:
                outcome = 'stale (patch does not apply to HEAD)'
                continue
            rules = sorted(set(re.findall(r'violated: (C\d+\.[RH]\d+[a-z]?)', r.stdout)))
            if r.returncode == 1 and rules:
                det += rules
                outcome = 'caught'
            elif r.returncode == 2 and outcome != 'caught':
                outcome = 'analysis-broken'
        meta['detected_by'] = det
        meta['outcome'] = outcome
        json.dump(meta, open(mp, 'w'), indent=1)
        rows.append((d, outcome, ','.join(det)))
        print('%-8s %-16s %s' % (d, outcome, ','.join(det)))
    return 0


if __name__ == '__main__':
    sys.exit(main())
