#!/bin/sh
# setup_cmd: build the fact extractor from files on disk (offline).
set -e
HERE=$(cd "$(dirname "$0")" && pwd)
OUT="$HERE/../.build"
mkdir -p "$OUT"
SRC="$HERE/extractor/ebusfacts.cc"
BIN="$OUT/ebusfacts"
if [ -x "$BIN" ] && [ "$BIN" -nt "$SRC" ]; then
  echo "ebusfacts up to date"
  exit 0
fi
clang++ $(llvm-config-14 --cxxflags) -fno-rtti -O1 "$SRC" -o "$BIN.tmp" \
  /usr/lib/llvm-14/lib/libclang-cpp.so.14 /usr/lib/llvm-14/lib/libLLVM-14.so
mv "$BIN.tmp" "$BIN"
echo "built $BIN"
