#!/bin/sh
# usage: seed_verify.sh <worktree> <seed-subdir-name>
# confirms a seeded change: baseline builds+tests+demo passes; with patch: builds, tests pass, demo fails.
WT=$1; N=$2
S=$WT/_seed/$N
cd "$WT" || exit 2
git checkout -q -- src 2>/dev/null
[ -f _build/build.ninja ] || cmake -G Ninja -B _build -DBUILD_TESTING=ON -DCMAKE_BUILD_TYPE=Release >/dev/null 2>&1
grep -q "BUILD_TESTING:BOOL=ON" _build/CMakeCache.txt || cmake -B _build -DBUILD_TESTING=ON >/dev/null 2>&1
cmake --build _build -j16 >/dev/null 2>&1 || { echo "BASE build failed"; exit 2; }
BT=$(ctest --test-dir _build -j8 --timeout 900 2>&1 | grep "tests passed")
WT=$WT sh "$S/build.sh" >/dev/null 2>&1
DEMO=$(ls "$S"/demo "$S"/demo_* 2>/dev/null | grep -v "\.cpp" | head -1)
"$DEMO" >/dev/null 2>&1; B=$?
git apply "$S/patch.diff" || { echo "patch does not apply"; exit 2; }
cmake --build _build -j16 >/dev/null 2>&1 || { echo "PATCHED build failed"; git checkout -q -- src; exit 2; }
PT=$(ctest --test-dir _build -j8 --timeout 900 2>&1 | grep "tests passed")
WT=$WT sh "$S/build.sh" >/dev/null 2>&1
"$DEMO" >/dev/null 2>&1; P=$?
git checkout -q -- src
cmake --build _build -j16 >/dev/null 2>&1
echo "baseline: [$BT] demo exit=$B | patched: [$PT] demo exit=$P"
[ "$B" = 0 ] && [ "$P" != 0 ] && echo "$BT" | grep -q "100% tests passed" && echo "$PT" | grep -q "100% tests passed" && echo CONFIRMED
