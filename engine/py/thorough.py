"""thorough tier: the quick rules plus a self-test of the checker on the tree it has just judged.

The rules themselves are exact over the functions they look at, so a second, 'deeper' pass over the same code would decide
nothing new. What the thorough tier adds is evidence that the verdict of this run can be trusted on THIS tree:

  mutants  every seeded change of the property (/verif/seeded/<id>/patch.diff: realistic breakages written by independent
           agents, each confirmed with a failing demonstration) is applied to a scratch copy of /repo's current working
           tree and the quick check must report a violation there. A change that no longer applies (the tree moved) is
           skipped and counted as such.
  benign   four families of behaviour-preserving edits (rename all locals/parameters of the analysed functions, mirror
           comparisons against constants, insert no-op statements, respell hexadecimal literals) are applied to scratch
           copies and the quick check must stay silent (exit 0) there.

Nothing is executed but the checker; the scratch copies live under /tmp and are removed. The self-test runs only when the
tree itself passed (a tree that already violates the property needs no second opinion). A failed self-test is reported as
ANALYSIS-BROKEN (exit 2): the rules do not recognise the code any more as they did when they were validated.
"""
import json
import os
import shutil
import subprocess
import sys
import tempfile
from concurrent.futures import ThreadPoolExecutor

import facts

VERIF = facts.VERIF
SEEDED = os.path.join(VERIF, 'seeded')
sys.path.insert(0, os.path.join(VERIF, 'engine'))


def export_worktree():
    """scratch copy of /repo's current working tree sources (src/, docs/ and the config header)"""
    d = tempfile.mkdtemp(prefix='ebv_thorough.', dir='/tmp')
    for sub in ('src', 'docs'):
        s = os.path.join(facts.REPO, sub)
        if os.path.isdir(s):
            shutil.copytree(s, os.path.join(d, sub), symlinks=True)
    os.makedirs(os.path.join(d, '_build'), exist_ok=True)
    import compdb
    shutil.copy(os.path.join(compdb.config_dir(), 'config.h'), os.path.join(d, '_build', 'config.h'))
    return d


def run_check(tree, prop):
    env = dict(os.environ)
    env['EBUSD_REPO'] = tree
    env['VERIF_EVIDENCE_DIR'] = os.path.join(tree, 'evidence')
    env['VERIF_TIER'] = 'quick'
    r = subprocess.run([sys.executable, os.path.join(VERIF, 'engine', 'py', 'check.py'), prop, '--tier', 'quick'],
                       stdout=subprocess.PIPE, stderr=subprocess.STDOUT, universal_newlines=True, env=env, timeout=3000)
    return r.returncode, r.stdout


def one_mutant(prop, sid):
    p = os.path.join(SEEDED, sid, 'patch.diff')
    tree = export_worktree()
    try:
        r = subprocess.run(['patch', '-p1', '-s', '-f', '-i', p], cwd=tree, stdout=subprocess.PIPE, stderr=subprocess.STDOUT,
                           universal_newlines=True)
        if r.returncode != 0:
            return sid, 'skipped (patch does not apply to the current tree)', []
        code, out = run_check(tree, prop)
        rules = sorted(set(l.split()[1] for l in out.splitlines() if l.strip().startswith('violated:')))
        if code == 1:
            return sid, 'killed', rules
        if code == 2:
            return sid, 'analysis-broken', [l for l in out.splitlines() if 'ANALYSIS-BROKEN' in l][:1]
        return sid, 'survived', []
    finally:
        shutil.rmtree(tree, ignore_errors=True)


def one_benign(prop, family, funcs):
    import benign
    tree = export_worktree()
    try:
        n = benign.apply(tree, funcs, family)
        code, out = run_check(tree, prop)
        rep = [l.strip() for l in out.splitlines() if 'violated:' in l or 'ANALYSIS-BROKEN' in l][:4]
        return family, n, code, rep
    finally:
        shutil.rmtree(tree, ignore_errors=True)


EQUIV = os.path.join(VERIF, 'equivalent')


def one_equiv(prop, name):
    p = os.path.join(EQUIV, name, 'patch.diff')
    tree = export_worktree()
    try:
        r = subprocess.run(['patch', '-p1', '-s', '-f', '-i', p], cwd=tree, stdout=subprocess.PIPE, stderr=subprocess.STDOUT,
                           universal_newlines=True)
        if r.returncode != 0:
            return 'rewrite:' + name, -1, 0, ['skipped (patch does not apply to the current tree)']
        code, out = run_check(tree, prop)
        rep = [l.strip() for l in out.splitlines() if 'violated:' in l or 'ANALYSIS-BROKEN' in l][:4]
        return 'rewrite:' + name, 1, code, rep
    finally:
        shutil.rmtree(tree, ignore_errors=True)


def self_test(ctx):
    """returns (ok, messages); fills ctx.mutants / ctx.benign"""
    import benign
    prop = ctx.prop
    seeds = []
    if os.path.isdir(SEEDED):
        for d in sorted(os.listdir(SEEDED)):
            mp = os.path.join(SEEDED, d, 'meta.json')
            if os.path.isfile(mp):
                m = json.load(open(mp))
                if m.get('property') == prop:
                    seeds.append((d, m))
    want = set(ctx.analysed_functions)
    funcs = []
    for fn in ctx.fb.functions:
        ident = '%s@%s:%d' % (fn.name, fn.relfile, fn.line)
        if ident in want:
            funcs.append(benign.function_entry(fn))
    msgs = []
    ok = True
    with ThreadPoolExecutor(max_workers=4) as ex:
        mf = [ex.submit(one_mutant, prop, d) for d, m in seeds]
        bf = [ex.submit(one_benign, prop, fam, funcs) for fam in benign.FAMILIES]
        if os.path.isdir(EQUIV):
            for name in sorted(os.listdir(EQUIV)):
                mp = os.path.join(EQUIV, name, 'meta.json')
                if os.path.isfile(mp) and prop in json.load(open(mp)).get('properties', []):
                    bf.append(ex.submit(one_equiv, prop, name))
        mres = [f.result() for f in mf]
        bres = [f.result() for f in bf]
    expected = {d: m.get('outcome') for d, m in seeds}
    mut = {'total': len(seeds), 'killed': 0, 'survived': 0, 'skipped': 0, 'results': []}
    for sid, outcome, rules in mres:
        mut['results'].append({'id': sid, 'outcome': outcome, 'rules': rules, 'recorded': expected.get(sid)})
        if outcome == 'killed':
            mut['killed'] += 1
        elif outcome.startswith('skipped'):
            mut['skipped'] += 1
        else:
            mut['survived'] += 1
            if expected.get(sid) == 'caught':
                ok = False
                msgs.append('seeded change %s is recorded as caught but the check now says: %s %s' % (sid, outcome, rules))
    ben = {'families': len(bres), 'silent': 0, 'results': []}
    for fam, n, code, rep in bres:
        ben['results'].append({'family': fam, 'edits': n, 'exit': code, 'report': rep})
        if code == 0:
            ben['silent'] += 1
        else:
            ok = False
            msgs.append('behaviour-preserving edit family "%s" (%d edits) makes the check exit %d: %s' % (fam, n, code, ' | '.join(rep)[:400]))
    ctx.mutants = mut
    ctx.benign = ben
    return ok, msgs
