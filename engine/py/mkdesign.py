#!/usr/bin/env python3
"""regenerates the generated blocks of /verif/DESIGN.md (between <!-- BEGIN GENERATED x --> / <!-- END GENERATED x -->)
from the evidence files, the seeded changes and the known-findings file, so that the tables in the design document are
the ones the machinery measured:

  rules     per property: every rule as implemented (id, core flag, instances on the current tree, text)
  seeds     every seeded change with the rule(s) of its own property's check that report it
  findings  the genuine defects found on the unchanged tree and their fix commits
"""
import glob
import json
import os
import re

VERIF = os.path.dirname(os.path.dirname(os.path.dirname(os.path.abspath(__file__))))


def rules_block():
    out = []
    for p in sorted(glob.glob(os.path.join(VERIF, 'evidence', 'C*.json'))):
        ev = json.load(open(p))
        cov = ev['coverage']
        pid = ev['property_id']
        out.append('**%s** - %d obligations, %d function(s) analysed, %.1f s (quick)\n' % (
            pid, cov.get('obligations', 0), len(cov.get('functions_analysed', [])), ev.get('wall_s', 0)))
        for rid, r in sorted(cov.get('rules', {}).items(), key=lambda kv: (int(re.sub(r'\D', '', kv[0].split('.')[1])), kv[0])):
            out.append('* `%s`%s (%d instances, confirmed minimum %d): %s' % (
                rid, ' ★' if r.get('core') else '', r['instances'], r['minimum'], r['text']))
        out.append('')
    return '\n'.join(out)


def seeds_block():
    rows = []
    tot = caught = 0
    by_round = {}
    for mp in sorted(glob.glob(os.path.join(VERIF, 'seeded', '*', 'meta.json'))):
        m = json.load(open(mp))
        tot += 1
        mm = re.search(r'round (\d+)', m.get('source', ''))
        rnd = int(mm.group(1)) if mm else 1
        c = m.get('outcome') == 'caught'
        caught += c
        by_round.setdefault(rnd, [0, 0])
        by_round[rnd][0] += 1
        by_round[rnd][1] += c
        rows.append('| %s | %d | %s | %s | %s |' % (m['id'], rnd, m.get('outcome', '?'), ', '.join(m.get('detected_by', [])) or '-',
                                                    m.get('what', '').replace('|', '/')[:230]))
    head = ['%d seeded changes, %d reported (exit 1 with a VIOLATION naming a rule of the same property) by the quick check of '
            'their own property; per round: %s.\n' % (tot, caught, ', '.join('round %d: %d/%d' % (k, v[1], v[0]) for k, v in sorted(by_round.items()))),
            '| id | round | outcome | reporting rule(s) | change |', '|---|---|---|---|---|']
    return '\n'.join(head + rows) + '\n'


def findings_block():
    k = json.load(open(os.path.join(VERIF, 'known_findings.json')))
    rows = ['| property | rule | fix commit | what failed on the unchanged tree |', '|---|---|---|---|']
    for f in k.get('findings', []):
        rows.append('| %s | %s | %s | %s |' % (f.get('property'), f.get('rule'), f.get('commit', f.get('status')), f.get('what', '').replace('|', '/')))
    opn = [f for f in k.get('findings', []) if f.get('status', 'known') == 'known']
    rows.append('')
    rows.append('%d entries, %d of them open known findings (printed as KNOWN-FINDING by the check), the rest are `fixed:` records '
                'that suppress nothing.' % (len(k.get('findings', [])), len(opn)))
    return '\n'.join(rows) + '\n'


def main():
    p = os.path.join(VERIF, 'DESIGN.md')
    s = open(p).read()
    for name, fn in (('rules', rules_block), ('seeds', seeds_block), ('findings', findings_block)):
        a, b = '<!-- BEGIN GENERATED %s -->' % name, '<!-- END GENERATED %s -->' % name
        if a not in s or b not in s:
            print('marker %s missing' % name)
            continue
        i, j = s.index(a) + len(a), s.index(b)
        s = s[:i] + '\n' + fn() + s[j:]
    open(p, 'w').write(s)
    print('DESIGN.md blocks regenerated')


if __name__ == '__main__':
    main()
