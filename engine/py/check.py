#!/usr/bin/env python3
"""CLI of the static checker.

  check.py <Cxx> [--tier quick|thorough]      decide property Cxx on /repo's current working tree
  check.py --replay <file>                    re-decide the obligation stored in a replay file

exit 0  every obligation discharged (or only listed known findings, each printed as KNOWN-FINDING)
exit 1  a line 'VIOLATION property=<id> replay=<path>' per violated obligation not listed as known
exit 2  analysis broken (anchor vanished, instance count below the confirmed minimum, extractor failure):
        neither a pass nor a violation
"""
import argparse
import importlib
import json
import os
import sys
import time
import traceback

HERE = os.path.dirname(os.path.abspath(__file__))
sys.path.insert(0, HERE)

import facts  # noqa: E402
from facts import AnalysisBroken  # noqa: E402

VERIF = facts.VERIF
EVID = os.environ.get('VERIF_EVIDENCE_DIR') or os.path.join(VERIF, 'evidence')
REPLAY = os.path.join(EVID, 'replay')
KNOWN = os.path.join(VERIF, 'known_findings.json')


class Ctx(object):
    """collects obligations of one property run"""

    def __init__(self, prop, tier, seed):
        self.prop = prop
        self.tier = tier
        self.seed = seed
        self.obligations = []
        self.rules = {}
        self.analysed_functions = set()
        self.analysed_tus = set()
        self.notes = []
        self.mutants = None
        self.benign = None
        self._fb = None
        self.only = None       # replay filter
        self._alias = None     # rule-id map while rules of another property's module are borrowed

    @property
    def fb(self):
        if self._fb is None:
            self._fb = facts.load()
        return self._fb

    def borrow(self, run, mapping, why):
        """run the rules of another property's module and keep the ones named in mapping {their id: id here}: they decide a
        clause that is a necessary condition of this property as well (why). Everything else that module reports is dropped.
        Borrows nest: a rule borrowed by the borrowed module is kept only if its id there is mapped here as well."""
        outer, outer_why = self._alias, getattr(self, '_alias_why', '')
        if outer is None:
            eff = dict(mapping)
        else:
            eff = {k: outer[v] for k, v in mapping.items() if v in outer}
        self._alias = eff
        self._alias_why = why if outer is None else outer_why
        try:
            run(self)
        finally:
            self._alias = outer
            self._alias_why = outer_why

    def rule(self, rid, text, minimum=1, star=False):
        if self._alias is not None:
            if rid not in self._alias:
                return
            text = '%s [shared with %s: %s]' % (text, rid, self._alias_why)
            rid = self._alias[rid]
        if rid in self.rules:
            # a clause that is decided by a shared helper rule is added to an already declared rule: keep its text/minimum
            self.rules[rid]['text'] += ' Clause decided by a shared rule: ' + text
            return
        self.rules[rid] = {'text': text, 'min': minimum, 'star': star, 'count': 0}

    def mark(self, key, rid):
        """a helper rule (engine/py/closure.py) registers that it is evaluated for this property - unless its obligations are
        dropped because the enclosing module is borrowed for other rules only"""
        if self._alias is None or rid in self._alias:
            if not hasattr(self, 'helpers_run'):
                self.helpers_run = set()
            self.helpers_run.add(key)

    def touch(self, fn):
        if self._alias is not None and not getattr(self, '_in_ob', False):
            return      # borrowed module: only functions of the kept rules count (added by ob)
        self.analysed_functions.add('%s@%s:%d' % (fn.name, fn.relfile, fn.line))
        self.analysed_tus.add(fn.tu)

    def ob(self, rid, fn, nid, ok, construct, detail='', nontrivial=True, witness=None, status=None, site=None):
        """register one obligation. construct = normalised, position-independent identity of the instance."""
        if self._alias is not None:
            if rid not in self._alias:
                return None
            rid = self._alias[rid]
        if rid not in self.rules:
            raise AnalysisBroken('rule %s not declared' % rid)
        if fn is not None:
            self._in_ob = True
            self.touch(fn)
            self._in_ob = False
        st = status or ('ok' if ok else 'violated')
        self.rules[rid]['count'] += 1
        o = {
            'rule': rid,
            'file': fn.relfile if fn is not None else (site or ''),
            'function': fn.name if fn is not None else '',
            'line': fn.line_of(nid) if (fn is not None and nid is not None) else (fn.line if fn is not None else 0),
            'construct': construct,
            'status': st,
            'detail': detail,
            'nontrivial': bool(nontrivial),
        }
        if witness:
            o['witness'] = witness
        self.obligations.append(o)
        return o

    def violated(self, rid):
        """has rule rid already reported a violation in this run? (a restructured function may offer fewer instances than
        confirmed; if one of them is violated the verdict is the violation, not 'analysis broken')"""
        rid = (self._alias or {}).get(rid, rid) if self._alias is not None else rid
        return any(o['rule'] == rid and o['status'] == 'violated' for o in self.obligations)

    def note(self, s):
        self.notes.append(s)


def load_known():
    if not os.path.isfile(KNOWN):
        return []
    with open(KNOWN) as fh:
        return json.load(fh).get('findings', [])


def matches_known(o, prop, known):
    for k in known:
        if k.get('status', 'known') != 'known':
            continue
        if k.get('property') != prop:
            continue
        if k.get('rule') == o['rule'] and k.get('file') == o['file'] and k.get('function') == o['function'] and \
                k.get('construct') == o['construct']:
            return k
    return None


def check_anchors(ctx, mod):
    """the rules name data members, functions and enumerators of the repository (in guard keys and in the reference
    tables; engine/spec/anchors.json lists the ones that existed when the rules were written). If one of them no longer
    exists anywhere in the code it was renamed or removed: the rules would look for writes, calls and guards that cannot be
    there and report them as missing. That is a broken analysis, not a violation."""
    import mkanchors
    p = os.path.join(VERIF, 'engine', 'spec', 'anchors.json')
    if not os.path.isfile(p):
        return
    want = json.load(open(p)).get(ctx.prop, {})
    members, funcs, enums = mkanchors.code_names(ctx.fb)
    missing = [('data member', m) for m in want.get('members', []) if m not in members] + \
        [('function', f) for f in want.get('functions', []) if f not in funcs] + \
        [('enumerator', e) for e in want.get('enumerators', []) if e not in enums]
    if missing:
        raise AnalysisBroken('%s named by the rules of %s no longer exist(s) in the repository code (renamed or removed): the '
                             'rules cannot be evaluated' % (', '.join('%s %s' % m for m in missing[:8]), ctx.prop))


def _returns_value(src):
    """does the function itself (not a function nested in it) return a value"""
    import ast
    import textwrap
    try:
        tree = ast.parse(textwrap.dedent(src))
    except SyntaxError:
        return True
    top = tree.body[0]

    def walk(node):
        for ch in ast.iter_child_nodes(node):
            if isinstance(ch, (ast.FunctionDef, ast.Lambda, ast.AsyncFunctionDef)):
                continue
            if isinstance(ch, ast.Return) and ch.value is not None and not (isinstance(ch.value, ast.Constant) and ch.value.value is None):
                return True
            if walk(ch):
                return True
        return False
    return walk(top)


def _defer_broken(ctx):
    """a rule that cannot recognise the code any more (AnalysisBroken) must not keep the other rules of the property from
    being evaluated: a violation that another rule decides stands, whatever the order of the rules in run().  Every rule
    function of the rule modules (r<n>, *_rule; only those that return nothing, the others feed later rules) is wrapped
    so that its AnalysisBroken is recorded and the evaluation goes on; run_property raises the first recorded one
    afterwards unless a violation was found."""
    import inspect
    import re
    import types
    ctx.deferred_broken = []
    for name in sorted(sys.modules):
        if not name.startswith('rules.C'):
            continue
    import glob as _glob
    rdir = os.path.join(os.path.dirname(os.path.abspath(__file__)), 'rules')
    for path in sorted(_glob.glob(os.path.join(rdir, 'C[0-9][0-9].py'))) + [os.path.join(rdir, 'common.py'), os.path.join(rdir, 'options.py')]:
        m = importlib.import_module('rules.' + os.path.basename(path)[:-3])
        for fname, f in list(vars(m).items()):
            if not isinstance(f, types.FunctionType) or f.__module__ != m.__name__ or getattr(f, '_deferring', False):
                continue
            if not (re.match(r'^r\d+$', fname) or fname.endswith('_rule')):
                continue
            try:
                src = inspect.getsource(f)
            except (OSError, TypeError):
                continue
            if _returns_value(src):
                continue

            def make(f_):
                def wrapper(c, *a, **k):
                    try:
                        return f_(c, *a, **k)
                    except AnalysisBroken as e:
                        if getattr(c, 'deferred_broken', None) is None:
                            raise
                        c.deferred_broken.append(str(e))
                        return None
                wrapper._deferring = True
                wrapper.__name__ = f_.__name__
                wrapper.__doc__ = f_.__doc__
                return wrapper
            setattr(m, fname, make(f))


def run_property(prop, tier, seed, only=None, quiet=False):
    t0 = time.time()
    ctx = Ctx(prop, tier, seed)
    ctx.only = only
    mod = importlib.import_module('rules.' + prop)
    out = []

    def say(s):
        out.append(s)
        if not quiet:
            print(s)
            sys.stdout.flush()

    try:
        check_anchors(ctx, mod)
        _defer_broken(ctx)
        try:
            mod.run(ctx)
        except AnalysisBroken as e:
            # the rest of the module's rules could not be evaluated; the helper rules that follow the call graph still are
            ctx.deferred_broken.append(str(e))
        import closure
        try:
            closure.share(ctx)
        except AnalysisBroken as e:
            ctx.deferred_broken.append(str(e))
        if ctx.deferred_broken:
            if not any(o['status'] == 'violated' for o in ctx.obligations):
                raise AnalysisBroken(ctx.deferred_broken[0])
            for d in ctx.deferred_broken:
                ctx.note('not evaluated: %s' % d)
        for rid, r in sorted(ctx.rules.items()):
            if r['count'] < r['min'] and not any(o['rule'] == rid and o['status'] == 'violated' for o in ctx.obligations):
                raise AnalysisBroken('rule %s matched %d instance(s), confirmed minimum is %d - the anchor moved or '
                                     'the rule no longer recognises the code shape' % (rid, r['count'], r['min']))
        if tier == 'thorough' and hasattr(mod, 'thorough'):
            mod.thorough(ctx)
    except AnalysisBroken as e:
        if not any(o['status'] == 'violated' for o in ctx.obligations):
            say('ANALYSIS-BROKEN property=%s: %s' % (prop, e))
            write_evidence(ctx, t0, broken=str(e))
            return 2, ctx
        # obligations that were already decided as violated stand: a named construct breaks a rule. The part of the code
        # that could not be recognised afterwards is reported as a note, the remaining rules were not evaluated.
        ctx.note('analysis stopped early: %s (rules after this point were not evaluated)' % e)
    except Exception:
        say('ANALYSIS-BROKEN property=%s: internal error\n%s' % (prop, traceback.format_exc()))
        write_evidence(ctx, t0, broken='internal error')
        return 2, ctx

    known = load_known()
    viol = []
    kf = []
    uncl = []
    for o in ctx.obligations:
        if o['status'] == 'violated':
            k = matches_known(o, prop, known)
            if k:
                o['status'] = 'known-finding'
                kf.append((o, k))
            else:
                viol.append(o)
        elif o['status'] == 'unclassified':
            uncl.append(o)
    say('property %s tier=%s: %d TU(s), %d function(s) analysed, %d obligation(s) over %d rule(s)' % (
        prop, tier, len(ctx.analysed_tus), len(ctx.analysed_functions), len(ctx.obligations), len(ctx.rules)))
    for rid, r in sorted(ctx.rules.items()):
        obs = [o for o in ctx.obligations if o['rule'] == rid]
        say('  %s%s  instances=%d (min %d) ok=%d violated=%d known=%d unclassified=%d\n      rule: %s' % (
            rid, ' *' if r['star'] else '', len(obs), r['min'],
            sum(1 for o in obs if o['status'] == 'ok'), sum(1 for o in obs if o['status'] == 'violated'),
            sum(1 for o in obs if o['status'] == 'known-finding'),
            sum(1 for o in obs if o['status'] == 'unclassified'), r['text']))
    for n in ctx.notes:
        say('  note: ' + n)
    for o in uncl:
        say('  unclassified: %s %s:%d %s %s -- %s' % (o['rule'], o['file'], o['line'], o['function'], o['construct'], o['detail']))
    for o, k in kf:
        say('KNOWN-FINDING: property=%s %s %s:%d %s: %s [%s]' % (prop, o['rule'], o['file'], o['line'], o['function'],
                                                              k.get('what', o['detail']), o['construct']))
    code = 0
    if viol:
        os.makedirs(REPLAY, exist_ok=True)
        for i, o in enumerate(viol):
            p = os.path.join(REPLAY, '%s_%s_%d.json' % (prop, o['rule'].replace('.', '_'), i))
            with open(p, 'w') as fh:
                json.dump({'property': prop, 'obligation': o, 'rule_text': ctx.rules[o['rule']]['text']}, fh, indent=1)
            say('  violated: %s %s:%d %s\n      instance: %s\n      %s' % (o['rule'], o['file'], o['line'], o['function'],
                                                                       o['construct'], o['detail']))
            if o.get('witness'):
                say('      witness: ' + ' -> '.join(str(w) for w in o['witness']))
            say('VIOLATION property=%s replay=%s' % (prop, p))
        code = 1
    if tier == 'thorough' and code == 0 and only is None:
        import thorough
        try:
            ok, msgs = thorough.self_test(ctx)
        except Exception:
            ok, msgs = False, ['self-test could not run:\n' + traceback.format_exc()]
        m, b = ctx.mutants or {}, ctx.benign or {}
        say('  self-test: seeded changes killed %s/%s (skipped %s, survived %s); behaviour-preserving edit families silent %s/%s' % (
            m.get('killed'), m.get('total'), m.get('skipped'), m.get('survived'), b.get('silent'), b.get('families')))
        for r in m.get('results', []):
            say('    %s: %s %s' % (r['id'], r['outcome'], ','.join(r['rules'])))
        if not ok:
            for x in msgs:
                say('ANALYSIS-BROKEN property=%s: self-test failed: %s' % (prop, x))
            write_evidence(ctx, t0, known=len(kf), broken='self-test failed: ' + '; '.join(msgs))
            return 2, ctx
    write_evidence(ctx, t0, violations=len(viol), known=len(kf))
    return code, ctx


def write_evidence(ctx, t0, violations=0, known=0, broken=None):
    os.makedirs(EVID, exist_ok=True)
    obs = ctx.obligations
    distinct = len(set((o['rule'], o['file'], o['function'], o['construct']) for o in obs if o['nontrivial']))
    ok = sum(1 for o in obs if o['status'] == 'ok')
    import random
    rnd = random.Random(ctx.seed)
    samples = list(obs)
    rnd.shuffle(samples)
    samples = sorted(samples[:12], key=lambda o: (o['rule'], o['file'], o['line']))
    bad = [o for o in obs if o['status'] in ('violated', 'known-finding', 'unclassified')]
    cov = {
        'explanation': 'static analysis of /repo\'s current source (clang AST + CFG facts, no execution): each rule '
                       'instance found in the code is an obligation decided by dominance / dataflow / table comparison; '
                       'see rules below and DESIGN.md section 4 for what is and is not decided',
        'obligations': len(obs),
        'discharged': ok,
        'known_findings': known,
        'unclassified': sum(1 for o in obs if o['status'] == 'unclassified'),
        'evaluations': len(obs),
        'distinct_nontrivial': distinct,
        'rule': 'one obligation per rule instance (call site, cast, edge, table row, ...) discovered in the fact base; '
                'distinct = distinct (rule, file, function, normalised construct); non-trivial = decided by a '
                'dominance/dataflow query or a table comparison rather than by mere presence',
        'checker_cmd': 'python3 engine/py/check.py %s --tier %s' % (ctx.prop, ctx.tier),
        'trusted_base': ['clang 14 front end (AST, CFG, constant evaluator)', 'engine/extractor/ebusfacts.cc',
                         'engine/py/facts.py analyses', 'engine/spec reference tables'],
        'translation_units': sorted(os.path.relpath(t, facts.REPO) for t in ctx.analysed_tus),
        'functions_analysed': sorted(ctx.analysed_functions),
        'rules': {rid: {'text': r['text'], 'instances': r['count'], 'minimum': r['min'], 'core': r['star']}
                  for rid, r in ctx.rules.items()},
        'samples': [{k: o[k] for k in ('rule', 'file', 'line', 'function', 'construct', 'status', 'detail')} for o in samples] or
                   [{'note': 'no obligations'}],
        'not_discharged': [{k: o[k] for k in ('rule', 'file', 'line', 'function', 'construct', 'status', 'detail')} for o in bad],
        'notes': ctx.notes,
    }
    if ctx.mutants is not None:
        cov['mutants'] = ctx.mutants
    if ctx.benign is not None:
        cov['benign'] = ctx.benign
    if broken:
        cov['analysis_broken'] = broken
    ev = {
        'property_id': ctx.prop,
        'tier': ctx.tier,
        'seed': ctx.seed,
        'level': 'other',
        'coverage': cov,
        'assumptions': ['the compile flags of the real build (-std=gnu++11, config.h of /repo/_build) are used',
                        'clang and g++ agree on name resolution and constant evaluation for this code',
                        'rules decide the named structural clauses only, not the full behaviour (see level_note)'],
        'wall_s': round(time.time() - t0, 3),
        'violations': violations,
    }
    with open(os.path.join(EVID, ctx.prop + '.json'), 'w') as fh:
        json.dump(ev, fh, indent=1, sort_keys=True)


def main():
    ap = argparse.ArgumentParser()
    ap.add_argument('prop', nargs='?')
    ap.add_argument('--tier', default=os.environ.get('VERIF_TIER', 'quick'), choices=['quick', 'thorough'])
    ap.add_argument('--replay')
    a = ap.parse_args()
    seed = int(os.environ.get('VERIF_SEED', '0') or 0)
    if a.replay:
        with open(a.replay) as fh:
            r = json.load(fh)
        prop = r['property']
        want = r['obligation']
        code, ctx = run_property(prop, 'quick', seed, quiet=True)
        hit = [o for o in ctx.obligations if (o['rule'], o['file'], o['function'], o['construct']) ==
               (want['rule'], want['file'], want['function'], want['construct'])]
        print('replay of %s %s %s %s' % (prop, want['rule'], want['function'], want['construct']))
        print('rule: ' + r.get('rule_text', ''))
        if code == 2:
            print('analysis broken')
            sys.exit(2)
        if not hit:
            print('instance no longer present in the current tree')
            sys.exit(0)
        bad = False
        for o in hit:
            print('  %s:%d %s -> %s  %s' % (o['file'], o['line'], o['function'], o['status'], o['detail']))
            if o.get('witness'):
                print('  witness: ' + ' -> '.join(str(w) for w in o['witness']))
            bad = bad or o['status'] == 'violated'
        if bad:
            print('VIOLATION property=%s replay=%s' % (prop, a.replay))
        sys.exit(1 if bad else 0)
    if not a.prop:
        ap.error('property id required')
    code, _ = run_property(a.prop, a.tier, seed)
    sys.exit(code)


if __name__ == '__main__':
    main()
