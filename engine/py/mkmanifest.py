#!/usr/bin/env python3
"""writes /verif/MANIFEST.json from the table below (kept in one place so it stays valid while properties are added)"""
import json
import os

VERIF = os.path.dirname(os.path.dirname(os.path.dirname(os.path.abspath(__file__))))

TRUST = 'trusted: clang 14 front end (AST, CFG, constant evaluator), engine/extractor/ebusfacts.cc, engine/py analyses; '

CHECKS = {
    'C01': dict(
        text='the per-symbol state machine is extracted from the clang CFG (65 setState transitions with source state, target, '
             'result class, repetition flag and regional guard atoms) and compared with a reference automaton; every report '
             'site is guarded by CRC validity and the required acknowledge; source/destination validation dominates every '
             'append; CRC over raw symbols in exactly the data states; state-entry resets incl. the SYN re-synchronisation; '
             'one-repetition typestate per part; device symbol delivery. Decides these structural clauses for all inputs; '
             'exactness over all byte streams, ordering and chunking independence are not decided.',
        note=TRUST + 'engine/spec/bus_automaton.json (reference transitions written from the eBUS protocol rules)',
        technique='automaton extraction from the CFG + containment in a reference relation, guard-set dominance, must-pass-through'),
    'C02': dict(
        text='same extracted automaton, active side: send-state transitions contained in the reference, own exchanges end '
             'with SYN, symbol source per send state and escape coverage of every non-SYN symbol, one repetition per part, '
             'restart of a repeated part from CRC 0 / position 0, ACK iff CRC valid, echo check, result hand-over. Byte-exact '
             'wire contents for all telegrams are not decided.',
        note=TRUST + 'engine/spec/bus_automaton.json',
        technique='automaton extraction + containment, must-pass-through and guard dominance on the CFG'),
    'C03': dict(
        text='every bus-write site (3 device sends, arbitration start, plain-device arbitration write, AUTO-SYN) is found '
             'through resolved callees and its guard set must contain the entitlement atoms (not read-only, request/answer '
             'ownership, lock counter 0, lone SYN, generation interval); producers of the request queue; error transitions '
             'never lead to a transmitting state unless flagged as repetition or closing SYN. Timing is not decided.',
        note=TRUST + 'adapter-side arbitration of the enhanced protocol is outside the code base',
        technique='who-may-call + guard-set dominance over the extracted automaton'),
    'C04': dict(
        text='ownership typestate of the current request in setState (notify once, exactly one sink, pointer cleared), take '
             'discipline between queue and current request, who-may-call for notify/delete, unconditional drain on signal '
             'loss, lock pairing and wait-loop exits of Queue<T>. Liveness under faults and thread schedules are not decided.',
        note=TRUST + 'setState(noSignal) is never called with a non-negative result while a request is current (caller invariant)',
        technique='typestate exploration on the CFG, must-pass-through, who-may-call, lock pairing'),
    'C05': dict(
        text='static table conformance: all 80 built-in type rows (every constructor argument, evaluated by clang) equal '
             'the reference table and satisfy per-kind invariants (widths, BCD maxima on the decoded value, replacement '
             'outside the value range, signed ranges); BCD/HCD digit guards dominate every digit conversion; range check '
             'and null handling dominate every numeric formatting path; date/time field guards are present. Numeric '
             'results (fractions, float formatting, calendar arithmetic) are not decided.',
        note=TRUST + 'engine/spec/datatypes.json (reference table written from the inline type documentation); flags from '
             'the macros of datatype.h evaluated through a probe translation unit',
        technique='constant/table extraction and comparison + guard-set dominance on the CFG'),
    'C11': dict(
        text='static table proofs: all 256 CRC table entries equal multiplication by x^8 modulo x^8+x^7+x^4+x^3+x+1 '
             '(computed independently), the update step is TABLE[crc]^value, calcCrc feeds the escaped sequence; the '
             'escape table agrees at its four sites and the parser rejects bare SYN / bad pairs / dangling ESC; the master '
             'nibble table, nibble use, +-5 mapping and address exclusions are as specified, from which 25 masters and a '
             'bijective numbering follow by arithmetic on the extracted tables. Complete for the CRC step and address '
             'classes (the tables are the functions); string-level parsing results are not decided.',
        note=TRUST + 'polynomial and escape codes from the eBUS specification as quoted in the property',
        technique='evaluated-constant table extraction, operand provenance, switch-table extraction, guard dominance'),
    'C06': dict(
        text='necessary structural conditions of the round trip only: decode and encode side of each codec consult the same '
             'layout flags/members (declared one-sided flags excepted), traverse bytes and place values identically, the '
             'TEM_P bit layout is proven inverse by bit provenance, value-list encoding looks up names before raw numbers. '
             'Round-trip equality for value-dependent encodings (rounding, dates, strings) is NOT decided - weak claim.',
        note=TRUST + 'no core rule; the behaviour itself quantifies over runtime values',
        technique='flag-set extraction through resolved hasFlag() calls, bit provenance, dominance'),
    'C08': dict(
        text='bit-field placement tables are extracted from the three key builders and the re-keying loop and must agree '
             '(fields at 61/56/48/40/32, XOR fold 24..0 wrapping, masks); the exact ID check behind the hash compares every '
             'byte (plain and chained) and is applied to every lookup; probe loop order/filters; max-length bookkeeping; '
             'same-key candidates are ordered by ID length. "Longest match" for concrete definition sets is not decided.',
        note=TRUST + 'macros of message.cpp evaluated through a probe translation unit',
        technique='sibling agreement of extracted bit layouts + typestate/dominance on the lookup code'),
    'C09': dict(
        text='necessary structural conditions only: NN placeholder and adjustHeader() on every successful build path, header '
             'byte order, length check before construction, bounded chain indexes, NN of a chained part equals the bytes '
             'pushed. Value agreement of prepare/store/decode is NOT decided - weak claim (identification back is covered by '
             'the C08 rules).',
        note=TRUST + 'no core rule',
        technique='must-pass-through and dominance on the CFG'),
    'C10': dict(
        text='the four offset walkers of DataFieldSet (length, read raw, read text, write) must share one bookkeeping '
             'skeleton (initial values in every slot, guarded step-back, advance by field length, after-bookkeeping); bit '
             'fields are OR-ed only into the first partial byte; number base and float format are defined before every '
             'numeric insertion so that decoding a set equals decoding each field. Value-level independence is not decided.',
        note=TRUST,
        technique='sibling skeleton extraction and comparison + stream typestate'),
    'C14': dict(
        text='codec bit layout proven inverse by bit provenance (encoder macros evaluated by the compiler on a bit basis, '
             'decoder expressions from the AST), symbol tables equal docs/enhanced_proto.md, every response symbol has a '
             'case, buffer consumed exactly once, second byte read only when buffered, RESULT_CONTINUE only for complete '
             'items, one symbol per call, bounded info buffer, transport append/consume expressions. Chunk-partition '
             'independence as such is not decided.',
        note=TRUST + 'docs/enhanced_proto.md is the protocol definition',
        technique='bit provenance, switch exhaustiveness, must-pass-through, typestate exploration'),
    'C16': dict(
        text='taint/typestate of Message pointers in the read/write handlers and data sinks: an unfiltered lookup result '
             'reaches a bus access / decode / poll-priority change only after hasLevel(levels); filtered lookups pass the '
             'caller levels; level provenance (getUserLevels(user), user set only after checkSecret, HTTP user levels only '
             'after a successful check); token-boundary structure of checkLevel. Exact-token semantics for all strings is '
             'value-level and not decided.',
        note=TRUST + 'executeFind with explicit level option is documented as unrestricted and excluded',
        technique='static taint + typestate exploration + provenance of the level argument'),
    'C17': dict(
        text='necessary structural conditions only: the comparator is evaluated on all 27 sign vectors and must be the '
             'lexicographic order; every selection advances virtual time by the priority, maintains the high-water mark and '
             're-inserts; first priorities are anchored at the high-water mark. Frequencies and bounded waiting over '
             'histories are NOT decided - weak claim.',
        note=TRUST + 'no core rule; heap discipline under in-place order changes is not checked',
        technique='sign-domain abstract evaluation of the comparator + must-pass-through'),
    'C19': dict(
        text='writer/reader table agreement: default column map == dump order, field sub-columns, every known column has '
             'a dump branch, chained dump writes every part length; quote doubling; the quote state machine of the line '
             'splitter opens only outside and closes only inside quoted text. Equality of reloaded definitions is not decided.',
        note=TRUST,
        technique='constant table extraction and comparison + guard dominance'),
    'C20': dict(
        text='generic safety rules over the input-processing sources: 367 format call sites literal or provably %-free; 57 '
             'fixed-array subscripts and 26 variable shifts proven in range by type/enum ranges or path-sensitive interval '
             'analysis (aliases, switch refinement, widening); raw memory call sizes; lock pairing for 21 lock users; name '
             'index key schema agreement. General absence of UB, termination bounds and recovery are not decided.',
        note=TRUST + 'library contracts: recv/read return at most the requested size; two very large functions are '
             'unclassified for lock pairing (MainLoop::run, MqttHandler::run)',
        technique='format provenance, interval analysis on the CFG, lock-pairing typestate, sibling agreement'),
    'C07': dict(
        text='static dataflow + path-sensitive dominance over the clang CFG: every narrowing conversion of a '
             'strtol/strtoul/strtod result (or float parameter of a data type method) in the codec sources is bounded on the '
             'wide value on all feasible paths; every writeRawValue on the encode path is preceded by a range/membership '
             'check; errno is reset before each parse. Decides these structural necessary conditions for all inputs, not '
             'the numeric result of encoding.',
        note=TRUST + 'm_bitCount in 1..32 (type table, C05.R1); does not decide rounding/resolution-step accuracy',
        technique='static taint/dataflow + CFG path exploration with correlated branch atoms (custom libTooling extractor)'),
    'C12': dict(
        text='static typestate/effect analysis of the hidden-state channels a codec result could depend on: errno (reset '
             'before every errno-consulting parse), the derived-type memo table (key covers every varying constructor '
             'argument), the number base of a shared output stream (set before every integer insertion on the decode '
             'path), plus a who-writes rule for global/static state in the codec sources.',
        note=TRUST + 'does not decide order independence of template/message loading in general nor other stream state '
             '(fill, width, precision)',
        technique='static typestate on the CFG + key/constructor-argument provenance + who-writes over the codec units'),
    'C13': dict(
        text='static polarity/typestate checks: composite queries delegate with the right polarity (hasField exists, '
             'combined condition all), the cached condition verdict cannot go stale for a second change inside one clock '
             'second, and a condition binds its message only after found+field checks. Structural clauses only; value '
             'comparison over histories is not decided.',
        note=TRUST + 'time() has one second granularity; only the listed idioms are accepted for the staleness guard',
        technique='guard-set dominance + CFG typestate exploration on the condition classes'),
    'C15': dict(
        text='static bounds + bit-layout agreement: every createAnswerKey call passes an ID length <= 4 on all feasible '
             'paths (interval analysis with loop unrolling), the fold shifts stay in [0,24], and the masks used by '
             'getAnswer/hasAnswer address exactly the fields createAnswerKey builds; registration and answering flags are '
             'guarded. Does not decide which answer wins for concrete registrations.',
        note=TRUST + 'getMasterNumber() <= 25 (C11.R4)',
        technique='path-sensitive interval analysis + extracted bit-field placement tables (sibling agreement)'),
    'C18': dict(
        text='static rules on the request path: printf/scanf formats are literals or provably %-free; the percent-decode '
             'loop advances past each decoded byte (decode once); every URI-derived file open is dominated by the '
             'traversal guard, the URI is not written after it and no second decoder exists; HTTP delimiter constants. '
             'Quote splitting and MQTT topic round trips are value-level string algorithms and not decided.',
        note=TRUST + 'string provenance analysis treats std::string operations by name',
        technique='format-argument provenance, must-pass-through on the CFG, guard dominance, who-may-call'),
}

NOT_APPLICABLE = {}


# clauses added after the second and third round of independently seeded changes (appended to the claim text)
EXTRA = {
    'C01': ' Also: no exit between reception and CRC update other than restarts/AUTO-SYN (C01.R12); the enhanced frame decoder '
           'neither drops, duplicates nor splits a buffered symbol (shared C14.R3/R4).',
    'C02': ' Also: the CRC covers every echoed symbol of the escaped sequence (no early exit before the CRC update) and the '
           'echo comparison sees the unmodified sent/received symbols; every send state requires a really sent symbol '
           '(sibling agreement C02.R13, found a genuine defect); a positive receive result is notified as OK (C02.R6, found a '
           'genuine defect); CRC reset at SYN and the enhanced frame decoder clauses are shared (C02.R10-R12).',
    'C03': ' Also: the lock counter is set on the path on which the device reports the lost arbitration (C03.R5, re-anchored '
           'after a genuine defect was found and fixed), the echo comparison precedes the per-symbol processing, and the '
           'remaining receive timeout is recomputed from a fixed deadline (C03.R9).',
    'C05': ' Also: stream format state (number base, float format) is reset before every printed value (shared C12.R3/R5); '
           'January/February adjustment of the day-count formulas; derived-type cache key covers divisor and range (C05.R9).',
    'C06': ' Also: the base used to parse numbers is the one they are printed in (C06.R8, found a genuine octal defect), '
           'shared stream-state rules C12.R3/R5, calendar constants and month adjustment shared with C05.R6; the range tests '
           'accept every value decoding can produce (boundary evaluation C06.R9).',
    'C07': ' Also: floating values converted to signed integers are bounded strictly below 2^(w-1); the derived-type cache '
           'cannot hand a field the range of another definition (shared C12.R2); a text parsed as unsigned contains no minus '
           'sign (C07.R6, found a genuine defect in parseInt); the n-bit range tests reject exactly the values outside the '
           'range (boundary evaluation C07.R7).',
    'C09': ' Also: key agreement and exact ID check shared with C08.R1/R2 (a built telegram is identified back); the slice '
           'bound of a chained write part uses the size actually written (found a genuine defect).',
    'C12': ' Also: a conditionally inserted key part must cover every bit count for which the value can vary.',
    'C13': ' Also: exclusive comparison bounds are converted to the inclusive pairs the matcher uses (four flag combinations, '
           'path-sensitive evaluation); the numeric read used by conditions shares the walker skeleton of C10.R1.',
    'C14': ' Also: a deferred two-byte sequence stays in the buffer as a whole.',
    'C15': ' Also: every key field is widened to 64 bit before it is shifted; a registration replaces an earlier answer.',
    'C16': ' Also: the filtered lookups check every candidate themselves (C16.R4); cached raw data getters count as value uses; '
           'checkSecret compares the whole string (C16.R5).',
    'C17': ' Also: the global poll order high-water mark is written only in getNextPoll and only grows (C17.R4).',
    'C18': ' Also: cursor discipline of the MQTT topic matcher StringReplacer::match incl. shortened topics (C18.R5); quoting '
           'in RequestImpl::split (C18.R6).',
    'C19': ' Also: every entry point of the field definition dump sets the decimal base before any number is written by it or '
           'its callees (interprocedural summaries, C19.R5); quote position in dumpString; base type of derived types (C19.R6).',
    'C20': ' Also: throwing accessors at(k) are guarded by a size test that is not invalidated before the access (C20.R6; the '
           'repository has no catch handler); field containers are not destroyed while their elements are owned elsewhere '
           '(C20.R9); transport memmove/read sizes (shared C14.R7).',
}


# clauses added in the rounds 5 and 6 (appended as well)
EXTRA2 = {
    'C01': ' Rounds 5/6: CRC table and address classes (shared C11.R1/R4); inline SymbolString accessors evaluated on a model of '
           'the telegram layout (C01.R15); the handler starts in the no-signal state (C01.R16).',
    'C02': ' Rounds 5/6: CRC table (C02.R14), telegram layout accessors (C02.R15), initial state (C02.R16).',
    'C03': ' Rounds 5/6: the answer decision is renewed per command (C03.R10); the device is disarmed after every arbitration '
           'result and after the drain of the queue (C03.R11/R12, found a genuine defect); a deferred STARTED/FAILED stays '
           'buffered (C03.R13); the initial master count includes ebusd itself (C03.R14); initial state (C03.R15).',
    'C04': ' Rounds 5/6: a notify() whose answer is discarded finishes the request for that result in every implementation '
           '(C04.R7); named arguments are not passed crosswise (C04.R8).',
    'C06': ' Rounds 5/6: built-in name tables are one-to-one (C06.R10); named arguments not crosswise (C06.R11).',
    'C07': ' Rounds 5/6: value list keys are range-checked at every construction (C07.R8, found a genuine defect); the '
           'divisor is applied before the range texts are parsed for every divisor other than 0 and 1 (C07.R9); inline '
           'helpers of the headers are in scope.',
    'C08': ' Rounds 5/6: the chain prefix is reduced per part (C08.R7); telegram layout accessors (C08.R8).',
    'C09': ' Rounds 5/6: part time stamps (C09.R7), slave part only for slave destinations (C09.R8), telegram layout accessors '
           'evaluated on a model (C09.R9), index of the slave read (C09.R10), limit of an explicit chain length (C09.R11), '
           'named arguments not crosswise (C09.R12).',
    'C10': ' Rounds 5/6: bit bookkeeping of hasFullByteOffset (C10.R5); telegram layout accessors (C10.R6); part decision '
           '(C10.R7); named arguments not crosswise (C10.R8).',
    'C12': ' Rounds 5/6: the probe bounds of the ID lookup do not depend on the load order (shared C08.R3 as C12.R6).',
    'C13': ' Rounds 5/6: isAvailable and combined conditions (C13.R6/R7); derived conditions keep circuit/level/name in their '
           'slots (C13.R8); data size and ID length compared in one unit (C13.R9).',
    'C14': ' Rounds 5/6: behind the device read m_bufLen only grows by the bytes read (C14.R7); the info buffer holds the '
           'longest documented response (C14.R8).',
    'C15': ' Rounds 5/6: automatic answer registration (C15.R11); the destination of the answer command does not depend on '
           'the option order (C15.R12).',
    'C16': ' Rounds 5/6: lookups of the data sinks (C16.R7); sink levels fall back to the default entry only for an unknown '
           'user (C16.R2); the listen path evaluates the levels behind every determination of the user (C16.R8); named '
           'arguments not crosswise (C16.R9).',
    'C18': ' Rounds 5/6: Connection receive size (C18.R7); a searched position is not used on a replaced or shortened string '
           '(C18.R8); hex arguments tested for whole bytes one by one (C18.R9); named arguments not crosswise (C18.R10).',
    'C19': ' Rounds 5/6: writer and reader agree on when a length counts bits for every constructible bit count (C19.R7).',
    'C20': ' Rounds 5/6: sentinel agreement and clamp dominance (C20.R13/R14); heap buffer against the size kept for it '
           '(C20.R15); searched positions on replaced strings (C20.R16).',
}


# round 7 and the dependency closure
EXTRA3 = {
    'C01': ' Round 7: transport overflow threshold between half full and full (C01.R17), termios built from zero without input '
           'translation (C01.R18), CRC 0 at every part (re-)entry (C01.R19), unescape mapping by evaluation (C01.R20).',
    'C02': ' Round 7: overflow threshold (C02.R17), CRC start (C02.R18), unescape mapping (C02.R19); via the call graph: address '
           'classes, transport accounting, raw serial mode (C02.H3/H7/H13).',
    'C03': ' Round 7: master numbering (C03.R16), priority class = low nibble for all master pairs (C03.R17), clock unit '
           '(C03.R18); via the call graph: arbitration disarm on error (C03.H14).',
    'C04': ' Round 7: receive deadline (C04.R9), error returns of startArbitration disarmed (C04.R10), clock unit (C04.R11).',
    'C05': ' Round 7: telegram layout accessors (C05.R10).',
    'C06': ' Round 7: errno discipline of the parse helpers (C06.R12); via the call graph: telegram layout (C06.H1).',
    'C07': ' Round 7: double precision kept until the raw integer (C07.R10); via the call graph: telegram layout (C07.H1).',
    'C09': ' Round 7: master field count for the requested name (C09.R10), per-file loader state (C09.R13); via the call graph: '
           'address classes (C09.H3).',
    'C10': ' Round 7: slave index relative and per name (C10.R9), output index advances per non-ignored field (C10.R10).',
    'C11': ' Round 7: CRC 0 at every part (re-)entry (C11.R6), unescape mapping by evaluation (C11.R7 and the clause of C11.R3).',
    'C12': ' Round 7: per-file loader state (C12.R7).',
    'C13': ' Round 7: case folding of all letters (C13.R10); via the call graph: telegram layout (C13.H1).',
    'C14': ' Round 7: overflow threshold (C14.R9), clock unit (C14.R10); via the call graph: receive deadline, raw serial mode '
           '(C14.H9/H13).',
    'C15': ' Round 7: master numbering (C15.R13); via the call graph: telegram layout, CRC table (C15.H1/H2).',
    'C16': ' Round 7: multi-line ACL fields (C16.R10), the #level marker survives the suffix insertion (C16.R11); via the call '
           'graph: case folding, per-file loader state (C16.H10/H12).',
    'C17': ' Round 7: first priority queues the message and no setPollPriority result is discarded (C17.R5), the anchor is '
           'assigned, not accumulated (C17.R3).',
    'C18': ' Round 7: substr starts within the known length (C18.R11), buffer handed to add() written in the same pass (C18.R12), '
           'escape = two width-1 conversions (C18.R13); via the call graph: case folding (C18.H10).',
    'C19': ' Round 7: multi-line fields (C19.R8), divisor written signed (C19.R9), parseInt prefix contract (C19.R10); via the call '
           'graph: errno, per-file loader state (C19.H4/H12).',
    'C20': ' Round 7: telegram layout incl. the symbol_t wrap of isComplete (C20.R17), substr starts within the known length '
           '(C20.R18).',
}


# round 8
EXTRA4 = {
    'C03': ' Round 8: a wait loop of recv() is left early only with a result (C03.R9), retries strictly below the configured '
           'maximum (C03.R19); via the call graph: arbitration state pair and SYN counter (C03.H19/H20).',
    'C04': ' Round 8: via the call graph: arbitration state pair and SYN counter of an unanswered start (C04.H19/H20).',
    'C05': ' Round 8: one invalid marker of the 16 bit float for decoder and encoder over all patterns (C05.R11); every instance '
           'of the calendar quotients carries its offset (C05.R6).',
    'C06': ' Round 8: one century for the two-digit year (C06.R13); via the call graph: the built-in type table (C06.H17).',
    'C07': ' Round 8: results of checkValueRange compared for (in)equality with RESULT_OK (C07.R11); via the call graph: the '
           'built-in type table (C07.H17).',
    'C02': ' Round 8: via the call graph: state-entry resets of setState (C02.H18).',
    'C09': ' Round 8 / reading: a store in a loop depends on the iteration (C09.R14, found a genuine defect).',
    'C10': ' Round 8: the bookkeeping behind a field is unconditional in all four walkers (C10.R1).',
    'C12': ' Round 8: an out-parameter is assigned before bytes are accumulated into it (C12.R8).',
    'C13': ' Round 8: an optional name is tested on itself (C13.R12); a fetched default is not stored into a dead variable '
           '(C13.R11, found a genuine defect).',
    'C14': ' Round 8: a pending symbol is never cleared or overwritten (C14.R11, found a genuine defect); arbitration state pair '
           '(C14.R12); second byte classification for all 256 values (C14.R13); bounded counter progress (C14.R14).',
    'C15': ' Round 8: via the call graph: state-entry resets of setState (C15.H18).',
    'C16': ' Round 8: the level list of an ACL line is stored unconditionally (C16.R12).',
    'C17': ' Round 8: a message used by a condition is queued (C17.R7); polled messages start at the current high-water mark '
           '(C17.R6, found a genuine defect).',
    'C18': ' Round 8: template part kinds are tested by sign only (C18.R14).',
    'C19': ' Round 8: the priority digit is written exactly for 1..9 (C19.R11).',
    'C20': ' Round 8: close() forgets the buffered bytes (C20.R19); via the call graph: arbitration pair and counter (C20.H19/H20).',
}


# round 9
EXTRA5 = {
    'C01': ' Round 9: the entry actions of setState are followed into an extracted helper and through a switch; the pending escape '
           'is cleared on every path through setState (C01.R6).',
    'C05': ' Round 9: a 32 bit raw value becomes a signed int only where it is negative or the type is narrower (C05.R12).',
    'C06': ' Round 9: key lookup of a parsed number only behind the scan over the names, loop or std::find_if (C06.R4); range tests '
           'of every NumberDataType method, both signednesses where the test is shared (C06.R9).',
    'C07': ' Round 9: checkValueRange evaluated from its AST for all raw values of an 8 bit type and 14 ranges (C07.R12).',
    'C09': ' Round 9: all part arrival times are read before a join (C09.R15); via the call graph: chain ID prefix (C09.H22).',
    'C13': ' Round 9: the verdict returned by a re-evaluation is the cached one (C13.R13); a composite that asks a single child is '
           'reported (C13.R1).',
    'C17': ' Round 9: priority set before the message is queued, also inside a helper (C17.R7).',
    'C18': ' Round 9: length-1 positions and search results used as positions (C18.R15/R16); the percent-decode rules follow a '
           'helper (C18.R2/R13).',
    'C19': ' Round 9: chain part lengths are written in decimal (C19.R12).',
    'C20': ' Round 9: length-1 positions need a non-empty string, search results used as positions need npos excluded '
           '(C20.R20/R21).',
}


EXTRA6 = {
    'C01': ' Round 10: via the call graph, a sequence is deferred behind a pending symbol only if it yields a symbol or result (C01.H24).',
    'C03': ' Round 10: AUTO-SYN generator role only behind the read-back of the own SYN (C03.R20).',
    'C04': ' Round 10: an own AUTO-SYN resets the lock counter on every path to the early return (C04.R12).',
    'C05': ' Round 10: null output decided on the raw pattern, not behind the scaling (C05.R13); value-list lookup precedes every null '
           'output (C05.R14).',
    'C06': ' Round 10: a value-list field prints only through its own operator<< on the unsigned key (C06.R14).',
    'C08': ' Round 10: MessageMap::add is all-or-nothing (C08.R9); replace mode takes a bucket entry only behind checkId(const '
           'Message&) (C08.R10).',
    'C09': ' Round 10: NN set before a telegram with placeholder length is compared or cached (C09.R16); reset of all part arrival '
           'times (C09.R17).',
    'C10': ' Round 10: the result of getline into a token that outlives the call is looked at (C10.R11).',
    'C13': ' Round 10: the change time is copied from an update time taken before the copy (C13.R14).',
    'C14': ' Round 10: deferral only for sequences that touch the pending symbol (C14.R16); computed "more" values count as '
           'deferrals (C14.R4).',
    'C17': ' Round 10: every insertion into the poll queue has a priority above 0 (C17.R8).',
    'C18': ' Round 10: a request is complete only behind the found terminator or with nothing pending (C18.R17).',
    'C19': ' Round 10: via the call graph, replace mode removes only definitions with the same ID (C19.H25).',
    'C20': ' Round 10: request objects are freed behind a refused addRequest or created only when not read-only (C20.R22).',
}


EXTRA7 = {
    'C01': ' Round 11: read-only excludes answer mode for every option order (C01.R21); comparisons in the domain of the operand type '
           '(C01.R22); via the call graph, answer key fields (C01.H26).',
    'C02': ' Round 11: time options evaluated to milliseconds (C02.R20); comparisons in the domain of the operand type (C02.R21).',
    'C03': ' Round 11: start-up AUTO-SYN interval staggered per master, evaluated (C03.R22); comparisons in the operand domain '
           '(C03.R21); via the call graph, answer key fields (C03.H26).',
    'C04': ' Round 11: a request keeps no reference to a local of its creator (C04.R13); a parameter used as loop counter is not read '
           'behind the loop (C04.R14); via the call graph, refused requests are freed (C04.H27).',
    'C05': ' Round 11: accessors return the full member width (C05.R15); bytes scaled in a domain that holds the result (C05.R16); '
           'DTM range (C05.R17).',
    'C06': ' Round 11: calcPrecision evaluated (C06.R15); float to integer conversions bounded (C06.R16); DTM decode range equals '
           'encode range (C06.R17).',
    'C08': ' Round 11: chain prefix only shrinks (C08.R7); 64 bit results and masks (C08.R11/R12).',
    'C09': ' Round 11: a chain part length comes from its own :len (C09.R18).',
    'C10': ' Round 11: cache key carries the values the type object is built with (C10.R12).',
    'C11': ' Round 11: a CRC table filled by code is evaluated (C11.R1); comparisons in the operand domain (C11.R8).',
    'C12': ' Round 11: key parts neither narrowed nor changed before construction (C12.R2).',
    'C13': ' Round 11: 64 bit keys not narrowed (C13.R15); every constructed message is handed the condition (C13.R16).',
    'C14': ' Round 11: comparisons in the operand domain (C14.R17), 64 bit clock results (C14.R18), POSIX results stay signed (C14.R19).',
    'C15': ' Round 11: comparisons in the operand domain (C15.R14), 64 bit keys and masks (C15.R15/R16).',
    'C16': ' Round 11: the level default falls back to the defaults row (C16.R13).',
    'C17': ' Round 11: m_pollOrder and g_lastPollOrder share one type (C17.R9).',
    'C18': ' Round 11: comparisons in the operand domain incl. bool against character (C18.R18); ensureDefault never appends a variable '
           'behind a variable (C18.R19).',
    'C19': ' Round 11: value list keys are streamed unsigned (C19.R13).',
    'C20': ' Round 11: repository-wide type rules (C20.R23, R26, R27, R28), request lifetime (C20.R24), parameter as loop counter '
           '(C20.R25), only close() releases the descriptor (C20.R19).',
}


EXTRA8 = {
    'C10': ' Round 12: hasFullByteOffset evaluated inside the bookkeeping protocol for all pairs of sub-byte fields (C10.R13).',
    'C13': ' Round 12: the operator of an on-the-fly condition reaches the value parser (C13.R17).',
    'C15': ' Round 12: the ID length is part of the answer key (C15.R17).',
    'C16': ' Round 12: nothing that is case-folded reaches a place where a level is kept or asked for (C16.R14).',
    'C18': ' Round 12: a quoted argument ends only at the stored opening character (C18.R20).',
    'C20': ' Round 12: via the call graph, the emptiness test in front of the last character of a multi-line field (C20.H11).',
}


EXTRA9 = {
    'C02': ' Round 13: a SYN ends the exchange of the current request also with further buffered input (C02.R22); via the call graph, '
           'single bytes to an enhanced adapter only below 0x80 (C02.H28).',
    'C03': ' Round 13: a SYN ends the exchange of the current request (C03.R23); a test of the receive result does not count when '
           'the result is assigned again before the loop exit (C03.R9).',
    'C04': ' Round 13: a SYN ends the exchange of the current request (C04.R15); the queue is searched on every pass of a waiting '
           'remove (C04.R6).',
    'C06': ' Round 13: the year handed to the calendar formula is the completed one (C06.R13).',
    'C07': ' Round 13: a parsed integer is scaled in integer arithmetic only behind constant bounds (C07.R13).',
    'C08': ' Round 13: the broadcast maximum is the start length only without the destination wildcard (C08.R13).',
    'C09': ' Round 13: every stored part of a chain attempts the join (C09.R19).',
    'C11': ' Round 13: the CRC functions keep no state (C11.R9).',
    'C13': ' Round 13: a condition decodes into a stream local to the check (C13.R18).',
    'C14': ' Round 13: every write of EnhancedDevice::send is the two-byte sequence or a byte below 0x80 (C14.R20).',
    'C15': ' Round 13: getAnswer writes nothing but the prepared response (C15.R18).',
    'C17': ' Round 13: a priority given by a condition without queueing is reported (C17.R7).',
    'C18': ' Round 13: terminator searched from the beginning (C18.R21); no empty constant part in a topic template (C18.R22).',
    'C19': ' Round 13: the dump walks the whole name index (C19.R14).',
    'C20': ' Round 13: remove walks the whole name index (C20.R30); via the call graph, the entry resets of setState (C20.H18).',
}


EXTRA10 = {
    'C01': ' Round 14: after a NAK the buffer of the repeated part is the one cleared (C01.R23).',
    'C03': ' Round 14: every lock counter value in the lost-arbitration case is positive (C03.R5); setState returns its result '
           'parameter untouched (C03.R24).',
    'C04': ' Round 14: a loop that drains a queue pushes nothing back into it (C04.R16).',
    'C05': ' Round 14: zero-means-missing tied to the REZ flag (C05.R18); divisors combined only for a requested divisor other than 1 '
           '(C05.R19).',
    'C06': ' Round 14: every OK return of checkValueRange stored the sign (C06.R18).',
    'C07': ' Round 14: no OK return of checkValueRange for a value that is not finite (C07.R14).',
    'C09': ' Round 14: maximum ID length bookkeeping of MessageMap::add (C09.R20).',
    'C11': ' Round 14: getMasterNumber evaluated for all 256 addresses (C11.R10).',
    'C14': ' Round 14: the transport hands out the buffered length (C14.R21); as_error only with an arbitration requested (C14.R22).',
    'C16': ' Round 14: getLevels makes a second lookup only for an unknown user (C16.R15).',
    'C18': ' Round 14: a search with something else than the next template constant is reported (C18.R5).',
    'C19': ' Round 14: a searched position is a substr length only for a piece that starts at 0 (C19.R15).',
    'C20': ' Round 14: draining loops end (C20.R31); MessageMap::add is all-or-nothing (C20.R32).',
}
EXTRA11 = {
    'C05': ' Round 15: the weekday byte of the 4 byte dates leaves the iteration without a store that lives across iterations (C05.R20).',
    'C09': ' Round 15: the active read / write lookups of MessageMap::find are reached only with the source bits cleared (C09.R21).',
    'C14': ' Round 15: arming (or else every ending of) an INFO response resets the write position (C14.R23).',
    'C18': ' Round 15: the characters accepted as part of a template variable name, evaluated for all 256 values (C18.R23).',
    'C19': ' Round 15: the searches behind the unquoted dump start at 0 or at the first quote (C19.R3).',
    'C20': ' Round 15: instructions are executed from a local copy of the stored vector (C20.R33).',
}
EXTRA12 = {
    'C17': ' Round 16: a priority that may be non-zero is stored only where the poll order of the same message is anchored (C17.R10).',
}
EXTRA13 = {
    'C05': ' Round 17: decimals of every divisor (C05.R21); the raw value of a value list is printed only for a listed value or one that is not the replacement value (C05.R22).',
    'C13': ' Round 17: compareTo answers "only the master address differs" only behind a comparison of the rest (C13.R19); a stored combination is never extended in place (C13.R20).',
    'C14': ' Round 17: an arbitration is withdrawn in both members, address and check counter (C14.R24).',
    'C18': ' Round 17: addPart stores only what it has taken out of the parse buffer (C18.R24).',
    'C19': ' Round 17: attribute text reaches the dump only through dumpString (C19.R16).',
    'C20': ' Round 17: the pending requests are drained on every no-signal tick (C20.R34).',
}


def main():
    checks = []
    for pid in sorted(CHECKS):
        c = dict(CHECKS[pid])
        c['text'] = c['text'] + EXTRA.get(pid, '') + EXTRA2.get(pid, '') + EXTRA3.get(pid, '') + EXTRA4.get(pid, '') + EXTRA5.get(pid, '') + EXTRA6.get(pid, '') + EXTRA7.get(pid, '') + EXTRA8.get(pid, '') + EXTRA9.get(pid, '') + EXTRA10.get(pid, '') + EXTRA11.get(pid, '') + EXTRA12.get(pid, '') + EXTRA13.get(pid, '')
        if pid in ('C01', 'C02', 'C03', 'C05', 'C06', 'C07', 'C08', 'C09', 'C10', 'C11', 'C13', 'C14', 'C15', 'C19', 'C20'):
            c['technique'] += '; finite evaluation of inline accessors / conditions from the typed AST on enumerated model states'
        checks.append({
            'property_id': pid,
            'quick_cmd': 'python3 engine/py/check.py %s --tier quick' % pid,
            'thorough_cmd': 'python3 engine/py/check.py %s --tier thorough' % pid,
            'evidence_file': 'evidence/%s.json' % pid,
            'replay_cmd_template': 'python3 engine/py/check.py --replay {path}',
            'engine': 'ebusfacts+rules',
            'level_claimed': {'category': 'other', 'text': c['text'], 'design_ref': 'DESIGN.md section 4 ' + pid},
            'level_note': c['note'],
            'technique': c['technique'],
        })
    m = {
        'version': 1,
        'setup_cmd': 'sh engine/build.sh',
        'hooks': {
            'guard': 'EBUSD_VERIF',
            'enable': 'no hooks are needed: the checks read /repo\'s source through clang and never build instrumented code',
            'baseline_off_cmd': 'cmake --build /repo/_build && ctest --test-dir /repo/_build -j8 --timeout 900',
            'source_commits': [],
            'add_only': True,
        },
        'engines': [{
            'name': 'ebusfacts+rules', 'path': 'engine', 'serves_properties': sorted(CHECKS),
            'kind_free_text': 'libTooling fact extractor (typed AST, CFG, evaluated constants) + Python rule engine '
                              '(dominance, path exploration with correlated atoms, typestate, intervals, table comparison, evaluation of '
                              'small accessors and conditions from the typed AST on enumerated model states, helper rules that '
                              'follow the call graph)'}],
        'checks': checks,
        'not_applicable': [{'property_id': k, 'reason': v} for k, v in sorted(NOT_APPLICABLE.items())],
        'notes': 'every check decides named structural clauses of its property from /repo\'s current source (static '
                 'analysis only); what is not decided is listed per property in DESIGN.md section 4. exit 2 = analysis '
                 'broken (anchor moved), never reported as pass or violation.',
    }
    with open(os.path.join(VERIF, 'MANIFEST.json'), 'w') as fh:
        json.dump(m, fh, indent=1)
    print('wrote MANIFEST.json with %d checks' % len(checks))


if __name__ == '__main__':
    main()
