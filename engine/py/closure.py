"""dependency closure: rules about shared helpers follow the call graph.

A property is decided by rules over the functions that implement it.  Those functions call helpers that live elsewhere
(symbol.cpp, filereader.cpp, transport.cpp, the inline accessors of symbol.h, the clock) and a slip in a helper breaks
every property whose code reaches it.  Round 7 of the independently seeded changes was steered to exactly such helpers
and two thirds of them were missed by the properties they broke although a rule about the helper already existed in
another property.

After the rules of a property have run, the functions they analysed are taken as roots and the call graph of the resolved
program (virtual calls include the overriders) is closed over callees.  A helper rule of the table below is run under the
id <property>.H<n> if (a) the property is listed for it - the list says for which properties a slip in that helper breaks
the stated behaviour, decided by reading the property, because bare reachability over-approximates (telegram reception
reaches the name lookup through the listener callbacks, yet C01 does not depend on case folding) -, (b) its anchor
functions are connected to the functions the property's own rules analysed - called from them, calling them (a loader, an
open()), methods of the same class family, or the table that constructs the objects whose methods were analysed - otherwise the listing is stale and a note is written, and (c) the property has not run the rule itself.  The helper rules are the ones written for their home
property; nothing is weakened or specialised here."""
import importlib

# (n, key, module, function, fixed id of the rule inside the module or None if the function takes (ctx, rid),
#  anchor functions, why)
HELPERS = [
    (1, 'layout', 'rules.C09', 'symbol_layout_rule', None,
     ['ebusd::SymbolString::getDataSize', 'ebusd::SymbolString::isComplete', 'ebusd::SymbolString::adjustHeader',
      'ebusd::SymbolString::dataAt', 'ebusd::SymbolString::getDataOffset', 'ebusd::SymbolString::getCalculatedDataSize'],
     'the code of this property reads or builds telegrams through the inline accessors of SymbolString'),
    (2, 'crc-table', 'rules.C11', 'r1', 'C11.R1',
     ['ebusd::SymbolString::calcCrc', 'ebusd::SymbolString::updateCrc'],
     'the code of this property computes or checks a CRC with the table of symbol.cpp'),
    (3, 'address-classes', 'rules.C11', 'r4', 'C11.R4',
     ['ebusd::isMaster', 'ebusd::getMasterNumber', 'ebusd::getMasterPartIndex', 'ebusd::getMasterAddress', 'ebusd::getSlaveAddress',
      'ebusd::isSlaveMaster', 'ebusd::isValidAddress'],
     'the code of this property classifies addresses or numbers masters with the helpers of symbol.cpp'),
    (4, 'errno', 'rules.C12', 'errno_rule', None,
     ['ebusd::parseInt', 'ebusd::parseSignedInt'],
     'the code of this property parses numbers with parseInt/parseSignedInt: a stale errno must not fail a later parse'),
    (5, 'parseint-prefix', 'rules.C19', 'r10', 'C19.R10',
     ['ebusd::parseInt'],
     'the code of this property hands parseInt a text that may continue behind the number'),
    (6, 'overflow-threshold', 'rules.C14', 'overflow_threshold_rule', None,
     ['ebusd::FileTransport::read'],
     'the symbols this property works on arrive through the byte transport: buffered input must not be discarded early'),
    (7, 'transport-accounting', 'rules.C14', 'r7', 'C14.R7',
     ['ebusd::FileTransport::read', 'ebusd::FileTransport::readConsumed'],
     'the symbols this property works on arrive through the byte transport: bytes must be accounted where they were put'),
    (8, 'clock', 'rules.C14', 'clock_rule', None,
     ['ebusd::clockGetMillis'],
     'the code of this property waits on deadlines computed with clockGetMillis()'),
    (9, 'recv-deadline', 'rules.C03', 'r9', 'C03.R9',
     ['ebusd::PlainDevice::recv', 'ebusd::EnhancedDevice::recv'],
     'the code of this property relies on recv() returning after the timeout'),
    (10, 'tolower', 'rules.C13', 'tolower_rule', None,
     ['ebusd::FileReader::tolower'],
     'the code of this property looks names up case-insensitively through FileReader::tolower'),
    (11, 'multiline-field', 'rules.C19', 'multiline_rule', None,
     ['ebusd::FileReader::splitFields'],
     'the definitions or ACL entries this property works on are read with FileReader::splitFields'),
    (12, 'file-state', 'rules.C09', 'file_state_rule', None,
     ['ebusd::MappedFileReader::readFromStream'],
     'the definitions this property works on are loaded file by file through MappedFileReader'),
    (13, 'serial-raw', 'rules.C01', 'serial_raw_rule', None,
     ['ebusd::SerialTransport::openInternal'],
     'the symbols this property works on arrive through the serial line'),
    (14, 'arbitration-disarm', 'rules.C04', 'r10', 'C04.R10',
     ['ebusd::EnhancedDevice::startArbitration', 'ebusd::BaseDevice::startArbitration'],
     'the code of this property starts arbitrations through the device'),
    (15, 'enhanced-decoder', 'rules.C14', 'run', ['C14.R3', 'C14.R4'],
     ['ebusd::EnhancedDevice::handleEnhancedBufferedData'],
     'with an enhanced adapter every symbol this property sees passes the frame decoder'),
    (16, 'minus-sign', 'rules.C07', 'r6', 'C07.R6',
     ['ebusd::parseInt'],
     'the code of this property parses unsigned numbers from text'),
    (17, 'type-table', 'rules.C05', 'r1', 'C05.R1',
     ['ebusd::DataTypeList::DataTypeList'],
     'the code of this property converts with the built-in data types: width, range and replacement value of every type'),
    (18, 'entry-reset', 'rules.C01', 'r6', 'C01.R6',
     ['ebusd::DirectProtocolHandler::setState'],
     'the exchange this property describes starts from the state that setState leaves behind on entering ready/skip'),
    (19, 'arbitration-pair', 'rules.C14', 'r12', 'C14.R12',
     ['ebusd::EnhancedDevice::handleEnhancedBufferedData', 'ebusd::EnhancedDevice::startArbitration', 'ebusd::EnhancedDevice::cancelRunningArbitration'],
     'the code of this property starts arbitrations through the enhanced device: a counter left behind refuses every later start'),
    (20, 'arbitration-counter', 'rules.C14', 'r14', 'C14.R14',
     ['ebusd::EnhancedDevice::handleEnhancedBufferedData'],
     'an unanswered arbitration start has to time out, or the pending request is never completed'),
    (21, 'transport-close', 'rules.C20', 'r19', 'C20.R19',
     ['ebusd::FileTransport::close'],
     'after a reconnect the symbols this property works on must not be preceded by stale buffered bytes'),
    (22, 'chain-prefix', 'rules.C08', 'r7', 'C08.R7',
     ['ebusd::Message::create'],
     'a chained definition is found again (and its parts are stored) under the ID prefix common to all its parts'),
    (23, 'decoder-incomplete', 'rules.C14', 'r15', 'C14.R15',
     ['ebusd::EnhancedDevice::handleEnhancedBufferedData'],
     'with an enhanced adapter the caller comes back at once when the decoder announces more data'),
    (24, 'decoder-deferral', 'rules.C14', 'r16', 'C14.R16',
     ['ebusd::EnhancedDevice::handleEnhancedBufferedData'],
     'with an enhanced adapter a sequence deferred behind a symbol must yield a symbol, or the telegram in progress is given up'),
    (25, 'replace-same-id', 'rules.C08', 'r10', 'C08.R10',
     ['ebusd::MessageMap::add'],
     'definitions loaded in replace mode must not remove other definitions that merely share the hashed key'),
    (26, 'answer-key', 'rules.C15', 'r2', 'C15.R2',
     ['ebusd::DirectProtocolHandler::createAnswerKey', 'ebusd::DirectProtocolHandler::getAnswer'],
     'in answer mode every received command is looked up under the answer key: a key whose fields overlap makes ebusd '
     'answer into (and lose) telegrams that are not addressed to it'),
    (27, 'request-ownership', 'rules.C20', 'r22', 'C20.R22',
     ['ebusd::ProtocolHandler::addRequest'],
     'a request that addRequest refuses must not be lost: it is freed by the creator or not created at all'),
    (28, 'enhanced-send', 'rules.C14', 'r20', 'C14.R20',
     ['ebusd::EnhancedDevice::send'],
     'with an enhanced adapter every symbol this property sends passes EnhancedDevice::send'),
]


# for which further properties a helper matters (besides those whose own module runs it)
RELEVANT = {'layout': ['C06', 'C07', 'C13', 'C15'], 'crc-table': ['C15'], 'address-classes': ['C02', 'C09'], 'errno': ['C19'], 'parseint-prefix': [], 'overflow-threshold': [], 'transport-accounting': ['C01', 'C02'], 'clock': [], 'recv-deadline': ['C14'], 'tolower': ['C16', 'C18'], 'multiline-field': ['C20'], 'file-state': ['C19', 'C16'], 'serial-raw': ['C02', 'C14'], 'arbitration-disarm': ['C03'], 'enhanced-decoder': [], 'minus-sign': [], 'type-table': ['C06', 'C07'], 'entry-reset': ['C02', 'C15', 'C20'], 'arbitration-pair': ['C03', 'C04', 'C20'], 'arbitration-counter': ['C03', 'C04', 'C20'], 'transport-close': ['C14', 'C01'], 'chain-prefix': ['C09'], 'decoder-incomplete': ['C01', 'C02', 'C03', 'C20'], 'decoder-deferral': ['C01', 'C02', 'C03', 'C20'], 'replace-same-id': ['C19'], 'answer-key': ['C01', 'C03'], 'request-ownership': ['C04'], 'enhanced-send': ['C02', 'C03']}


def share(ctx):
    fb = ctx.fb
    roots = set(x.split('@')[0] for x in ctx.analysed_functions)
    reach = fb.reachable_from(roots)
    done = getattr(ctx, 'helpers_run', set())
    shared = []
    for n, key, modname, fname, fixed, anchors, why in HELPERS:
        if key in done or ctx.prop not in RELEVANT.get(key, []):
            continue
        hit = sorted(a for a in anchors if a in reach and a in fb.by_name)
        if not hit:
            # the helper may stand above the analysed code (the loader that feeds it, the open() that prepares the line it
            # reads from) or beside it (another method of the same class family)
            for a in anchors:
                if a not in fb.by_name:
                    continue
                if fb.reachable_from([a]) & roots:
                    hit.append(a)
                    continue
                cls = a.rsplit('::', 1)[0]
                fam = set([cls]) | set(fb.bases(cls)) | set(fb.derived(cls))
                if any(r.rsplit('::', 1)[0] in fam for r in roots):
                    hit.append(a)
                    continue
                # a table: the anchor constructs the objects whose methods the property analysed
                made = set()
                for f in fb.by_name.get(a, []):
                    for x, v in f.nodes.items():
                        if v.get('k') == 'CXXNewExpr' and v.get('newt'):
                            made.add(v['newt'])
                madefam = set(made)
                for c in made:
                    madefam |= set(fb.bases(c))
                if any(r.rsplit('::', 1)[0] in madefam for r in roots):
                    hit.append(a)
        if not hit:
            ctx.note('closure: helper rule %s is listed for %s but none of its functions is reached from the analysed functions' % (key, ctx.prop))
            continue
        mod = importlib.import_module(modname)
        f = getattr(mod, fname)
        ids = fixed if isinstance(fixed, list) else [fixed]
        base = '%s.H%d' % (ctx.prop, n)
        reason = '%s (reached: %s)' % (why, ', '.join(h.replace('ebusd::', '') for h in hit[:3]))
        if fixed is None:
            before = set(ctx.rules)
            f(ctx, base)
            for rid in set(ctx.rules) - before:
                ctx.rules[rid]['text'] += ' [follows the call graph: %s]' % reason
        else:
            mapping = {}
            for i, own in enumerate(ids):
                mapping[own] = base if len(ids) == 1 else '%s%s' % (base, chr(ord('a') + i))
            ctx.borrow(f, mapping, 'follows the call graph: ' + reason)
        shared.append((base, key))
    ctx.closure = shared
    return shared
