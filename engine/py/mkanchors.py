#!/usr/bin/env python3
"""writes engine/spec/anchors.json: for every property the repository names (data members, functions, enumerators) that
its rule modules and reference tables mention and that exist in the repository today. check.py verifies on every run that
they still exist; a renamed or removed name means that the rules would look for code that cannot be there, which is reported
as ANALYSIS-BROKEN (exit 2) instead of a violation. Regenerate after changing rules:  python3 engine/py/mkanchors.py"""
import json
import os
import re
import sys

HERE = os.path.dirname(os.path.abspath(__file__))
sys.path.insert(0, HERE)
import facts  # noqa: E402


def module_text(prop):
    files = [os.path.join(HERE, 'rules', prop + '.py')]
    seen = set()
    text = ''
    while files:
        p = files.pop()
        if p in seen or not os.path.isfile(p):
            continue
        seen.add(p)
        src = open(p).read()
        text += src
        for m in re.findall(r'import rules\.(\w+)|from rules import (\w+)', src):
            for name in m:
                if name:
                    files.append(os.path.join(HERE, 'rules', name + '.py'))
    if 'automaton' in text:
        sp = os.path.join(facts.VERIF, 'engine', 'spec', 'bus_automaton.json')
        if os.path.isfile(sp):
            text += open(sp).read()
    return text


def code_names(fb):
    members, funcs, enums = set(), set(), set()
    for f in fb.functions:
        funcs.add(f.name.split('::')[-1])
        for v in f.nodes.values():
            if v.get('k') == 'MemberExpr' and v.get('name'):
                members.add(v['name'])
            if v.get('callee') and v.get('repo'):
                funcs.add(v['callee'].split('::')[-1])
        for it in getattr(f, 'inits', []) or []:
            if it.get('member'):
                members.add(it['member'])
    for e in fb.enums.values():
        for x in e['enumerators']:
            enums.add(x['name'])
    return members, funcs, enums


def main():
    fb = facts.load()
    members, funcs, enums = code_names(fb)
    out = {}
    for prop in ['C%02d' % i for i in range(1, 21)]:
        toks = set(re.findall(r'[A-Za-z_][A-Za-z0-9_]{3,}', module_text(prop)))
        out[prop] = {
            'members': sorted(t for t in toks if t.startswith('m_') and t in members),
            'functions': sorted(t for t in toks if t in funcs and len(t) >= 6 and re.search(r'[a-z][A-Z]', t)),
            'enumerators': sorted(t for t in toks if t in enums and '_' in t),
        }
    p = os.path.join(facts.VERIF, 'engine', 'spec', 'anchors.json')
    json.dump(out, open(p, 'w'), indent=1, sort_keys=True)
    print('wrote', p, {k: sum(len(x) for x in v.values()) for k, v in out.items()})


if __name__ == '__main__':
    main()
