"""Fact base loader and the shared analyses (DESIGN.md section 3).

Everything here works on the JSON produced by engine/extractor/ebusfacts.cc from
/repo's current working tree; nothing of ebusd is executed.
"""
import hashlib
import json
import os
import shutil
import subprocess
import sys
import time
from concurrent.futures import ThreadPoolExecutor

import compdb

VERIF = compdb.VERIF
REPO = compdb.REPO
CACHE = os.path.join(VERIF, '.cache')
EXTRACTOR = os.path.join(VERIF, '.build', 'ebusfacts')


class AnalysisBroken(Exception):
    """anchor vanished / shape not recognised / extractor failed: exit 2, never a verdict"""


# ---------------------------------------------------------------------------
# extraction with a content-addressed cache

def _tree_hash(extra_files=()):
    h = hashlib.sha256()
    src = os.path.join(REPO, 'src')
    files = []
    for root, dirs, fs in os.walk(src):
        dirs.sort()
        for f in sorted(fs):
            if f.endswith(('.cpp', '.h', '.hpp', '.c', '.inc')):
                files.append(os.path.join(root, f))
    files += list(extra_files)
    for f in files:
        h.update(f.encode())
        try:
            with open(f, 'rb') as fh:
                h.update(fh.read())
        except OSError:
            h.update(b'<missing>')
    try:
        st = os.stat(EXTRACTOR)
        h.update(('%d:%d' % (st.st_size, int(st.st_mtime))).encode())
    except OSError:
        pass
    return h.hexdigest()[:24]


def ensure_extractor():
    src = os.path.join(VERIF, 'engine', 'extractor', 'ebusfacts.cc')
    if os.path.isfile(EXTRACTOR) and os.path.getmtime(EXTRACTOR) >= os.path.getmtime(src):
        return
    r = subprocess.run(['sh', os.path.join(VERIF, 'engine', 'build.sh')], stdout=subprocess.PIPE,
                       stderr=subprocess.STDOUT, universal_newlines=True)
    if r.returncode != 0 or not os.path.isfile(EXTRACTOR):
        raise AnalysisBroken('extractor build failed:\n' + r.stdout[-3000:])


def _extract_one(tu, flags, out, extra_args=(), root=None):
    import threading
    tmp = '%s.%d.%d.tmp' % (out, os.getpid(), threading.get_ident())
    cmd = [EXTRACTOR, '--root=' + (root or os.path.join(REPO, 'src')), '--out=' + tmp] + list(extra_args) + [tu, '--'] + flags
    r = subprocess.run(cmd, stdout=subprocess.PIPE, stderr=subprocess.STDOUT, universal_newlines=True)
    if r.returncode != 0 or not os.path.isfile(tmp):
        try:
            os.remove(tmp)
        except OSError:
            pass
        return tu, False, r.stdout[-4000:]
    os.replace(tmp, out)
    return tu, True, ''


def extract_all(verbose=False):
    """returns (list of (tu, jsonpath), cachekey)"""
    ensure_extractor()
    cfg = compdb.config_dir()
    key = _tree_hash([os.path.join(cfg, 'config.h')])
    cdir = os.path.join(CACHE, key)
    os.makedirs(cdir, exist_ok=True)
    cmds = compdb.all_commands()
    # checks may run concurrently: one process fills a cache generation, the others wait for it
    import fcntl
    lock = open(os.path.join(CACHE, key + '.lock'), 'w')
    fcntl.flock(lock, fcntl.LOCK_EX)
    try:
        os.makedirs(cdir, exist_ok=True)
        return _extract_locked(cmds, cdir, key)
    finally:
        fcntl.flock(lock, fcntl.LOCK_UN)
        lock.close()


def _extract_locked(cmds, cdir, key):
    jobs = []
    result = []
    for tu, flags in cmds:
        name = os.path.relpath(tu, os.path.join(REPO, 'src')).replace(os.sep, '__') + '.json'
        out = os.path.join(cdir, name)
        result.append((tu, out))
        if not os.path.isfile(out):
            jobs.append((tu, flags, out))
    if jobs:
        with ThreadPoolExecutor(max_workers=min(16, os.cpu_count() or 4)) as ex:
            futs = [ex.submit(_extract_one, *j) for j in jobs]
            errs = []
            for f in futs:
                tu, ok, msg = f.result()
                if not ok:
                    errs.append((tu, msg))
        if errs:
            raise AnalysisBroken('extractor failed on %d TU(s): %s\n%s' % (len(errs), errs[0][0], errs[0][1]))
    # prune old cache generations: keep the 3 newest, and never one that was used in the last 30 minutes (it may
    # belong to a check that is running concurrently on another tree)
    try:
        import time
        os.utime(cdir, None)
        gens = sorted((os.path.getmtime(os.path.join(CACHE, d)), d) for d in os.listdir(CACHE)
                      if os.path.isdir(os.path.join(CACHE, d)))
        for mt, d in gens[:-3]:
            if d != key and time.time() - mt > 1800:
                shutil.rmtree(os.path.join(CACHE, d), ignore_errors=True)
                try:
                    os.remove(os.path.join(CACHE, d + '.lock'))
                except OSError:
                    pass
    except OSError:
        pass
    return result, key


def extract_file(path, flags=None, extra_args=(), root=None):
    """extract a single (control / probe) file outside the cache"""
    ensure_extractor()
    cfg = compdb.config_dir()
    flags = flags or compdb.flags_for(path, cfg)
    out = os.path.join(CACHE, 'single_%s_%d.json' % (hashlib.sha256(path.encode()).hexdigest()[:10], os.getpid()))
    os.makedirs(CACHE, exist_ok=True)
    tu, ok, msg = _extract_one(path, flags, out, extra_args, root)
    if not ok:
        raise AnalysisBroken('extractor failed on %s:\n%s' % (path, msg))
    with open(out) as fh:
        d = json.load(fh)
    os.remove(out)
    return d


# ---------------------------------------------------------------------------
# model

STRIP_KINDS = {'ParenExpr', 'ImplicitCastExpr', 'ExprWithCleanups', 'MaterializeTemporaryExpr',
               'CXXBindTemporaryExpr', 'ConstantExpr', 'SubstNonTypeTemplateParmExpr', 'CXXDefaultArgExpr'}
CAST_KINDS = {'CStyleCastExpr', 'CXXStaticCastExpr', 'CXXFunctionalCastExpr', 'CXXReinterpretCastExpr',
              'CXXConstCastExpr', 'ImplicitCastExpr'}
LOGICAL = {'&&', '||'}
CMP_MIRROR = {'<': '>', '>': '<', '<=': '>=', '>=': '<=', '==': '==', '!=': '!='}
CMP_NEG = {'<': '>=', '>': '<=', '<=': '>', '>=': '<', '==': '!=', '!=': '=='}


class Block(object):
    __slots__ = ('id', 'elems', 'succs', 'term', 'tk', 'cond', 'label', 'preds')

    def __init__(self, d):
        self.id = d['id']
        self.elems = d['elems']
        self.succs = [s if (s is not None and s >= 0) else None for s in d['succs']]
        self.term = d.get('term')
        self.tk = d.get('tk')
        self.cond = d.get('cond')
        self.label = d.get('label')
        self.preds = []


_SRC_CACHE = {}


def file_bytes(path):
    b = _SRC_CACHE.get(path)
    if b is None:
        try:
            with open(path, 'rb') as fh:
                b = fh.read()
        except OSError:
            b = b''
        _SRC_CACHE[path] = b
    return b


class Fn(object):
    def __init__(self, d, tu):
        self.d = d
        self.tu = tu
        self.name = d['name']
        self.sig = d['sig']
        self.file = d['file']
        self.line = d['line']
        self.endline = d.get('endline', d['line'])
        self.cls = d.get('cls')
        self.params = d.get('params', [])
        self.nodes = {int(k): v for k, v in d['nodes'].items()}
        self.body = d.get('body')
        self.inits = d.get('inits', [])
        self._parent = None
        self.blocks = {}
        cfg = d.get('cfg')
        self.entry = self.exit = None
        if cfg:
            self.entry = cfg['entry']
            self.exit = cfg['exit']
            for b in cfg['blocks']:
                self.blocks[b['id']] = Block(b)
            for b in self.blocks.values():
                for s in b.succs:
                    if s is not None and s in self.blocks:
                        self.blocks[s].preds.append(b.id)
        self._pos = None
        self._guard_cache = {}

    def __repr__(self):
        return '<Fn %s %s:%d>' % (self.name, os.path.basename(self.file), self.line)

    @property
    def relfile(self):
        return os.path.relpath(self.file, REPO) if self.file.startswith(REPO) else self.file

    # -- AST helpers -------------------------------------------------------
    def n(self, nid):
        return self.nodes[nid]

    def kids(self, nid):
        return self.nodes[nid].get('ch', [])

    def parent(self, nid):
        if self._parent is None:
            p = {}
            for k, v in self.nodes.items():
                for c in v.get('ch', []):
                    p.setdefault(c, k)
            self._parent = p
        return self._parent.get(nid)

    def ancestors(self, nid):
        p = self.parent(nid)
        while p is not None:
            yield p
            p = self.parent(p)

    def walk(self, nid):
        stack = [nid]
        seen = set()
        while stack:
            x = stack.pop()
            if x in seen or x not in self.nodes:
                continue
            seen.add(x)
            yield x
            stack.extend(reversed(self.kids(x)))

    def all(self, *kinds):
        ks = set(kinds)
        return [k for k, v in sorted(self.nodes.items()) if not ks or v['k'] in ks]

    def strip(self, nid, casts=False):
        while nid in self.nodes:
            v = self.nodes[nid]
            k = v['k']
            if k in STRIP_KINDS or (casts and k in CAST_KINDS):
                ch = v.get('ch', [])
                if not ch:
                    return nid
                nid = ch[0]
            else:
                return nid
        return nid

    def text(self, nid):
        v = self.nodes.get(nid)
        if not v:
            return '?'
        b = file_bytes(self._file_of(nid))
        s = b[v.get('b', 0):v.get('e', 0)].decode('utf-8', 'replace')
        return ' '.join(s.split())

    def _file_of(self, nid):
        return self.file

    def loc(self, nid):
        v = self.nodes.get(nid, {})
        return '%s:%d' % (self.relfile, v.get('l', self.line))

    def line_of(self, nid):
        return self.nodes.get(nid, {}).get('l', self.line)

    def val(self, nid):
        """evaluated integral constant, if any"""
        v = self.nodes.get(nid)
        if v is None:
            return None
        if 'v' in v:
            return v['v']
        s = self.strip(nid)
        if s != nid:
            return self.nodes[s].get('v')
        return None

    # -- role helpers: find variables by structure instead of by name ----------------------------------------
    def const_locals(self):
        """{decl: value} of the locals that are defined exactly once, by a constant initialiser (named constants)"""
        if getattr(self, '_const_locals', None) is None:
            defs = {}
            for nid, d, rhs, op, lhs in self.assignments():
                if d and ':' in d:
                    defs.setdefault(d, []).append((op, rhs))
            self._const_locals = {d: self.val(l[0][1]) for d, l in defs.items()
                                  if len(l) == 1 and l[0][0] == 'init' and l[0][1] is not None and self.val(l[0][1]) is not None}
        return self._const_locals

    def cval(self, nid):
        """constant value of an expression, also through a named constant local"""
        v = self.val(nid)
        if v is None and nid is not None:
            v = self.const_locals().get(self.ref_decl(self.strip(nid, casts=True)))
        return v

    def xkey(self, nid, depth=0):
        """key of an expression; a local that is defined exactly once (by its initialiser) stands for that initialiser"""
        x = self.strip(nid, casts=True)
        v = self.nodes.get(x, {})
        if v.get('k') == 'DeclRefExpr' and v.get('rk') == 'local' and depth < 4:
            if getattr(self, '_single_defs', None) is None:
                defs = {}
                for n2, d, rhs, op, lhs in self.assignments():
                    if d and ':' in d:
                        defs.setdefault(d, []).append((op, rhs))
                self._single_defs = {d: l[0][1] for d, l in defs.items() if len(l) == 1 and l[0][0] == 'init' and l[0][1] is not None}
            r = self._single_defs.get(v.get('decl'))
            if r is not None and self.stable_between(r, x):
                return self.xkey(r, depth + 1)
        return self.key(nid)

    def single_defs(self):
        """decl -> initialiser of the locals that are defined exactly once, by their initialiser"""
        if getattr(self, '_single_defs', None) is None:
            defs = {}
            for n2, d, rhs, op, lhs in self.assignments():
                if d and ':' in d:
                    defs.setdefault(d, []).append((op, rhs))
            self._single_defs = {d: l[0][1] for d, l in defs.items() if len(l) == 1 and l[0][0] == 'init' and l[0][1] is not None}
        return self._single_defs

    def def_expr(self, nid, depth=0):
        """the expression a value comes from: for a local that is defined exactly once (and whose operands are not written
        in between) its initialiser, otherwise the expression itself"""
        x = self.strip(nid, casts=True)
        v = self.nodes.get(x, {})
        if v.get('k') == 'DeclRefExpr' and v.get('rk') == 'local' and depth < 4:
            self.xkey(x)    # fills _single_defs
            r = self._single_defs.get(v.get('decl'))
            if r is not None and self.stable_between(r, x):
                return self.def_expr(r, depth + 1)
        return x

    def stable_between(self, expr, use):
        """no variable or this-field read by `expr` is assigned on a path from the evaluation of expr to `use`"""
        pd, pu = self.pos(expr), self.pos(use)
        if pd is None or pu is None:
            return False
        leaves = set()
        for y in self.walk(expr):
            d = self.ref_decl(y) if self.nodes[y]['k'] in ('DeclRefExpr', 'MemberExpr') else None
            if d:
                leaves.add(d)
        for nid, d, rhs, op, lhs in self.assignments():
            if d in leaves and op != 'init':
                pw = self.pos(nid)
                if pw is not None and self.reaches_point(pd[0], pw, set(), start_idx=pd[1] + 1) and \
                        self.reaches_point(pw[0], pu, set(), start_idx=pw[1] + 1):
                    return False
        return True

    def P(self, i):
        """name of the i-th parameter"""
        if i >= len(self.params):
            raise AnalysisBroken('%s: parameter %d no longer exists' % (self.name, i))
        return self.params[i]['name']

    def local_where(self, pred):
        """names of locals whose initialiser / assigned value satisfies pred(key of rhs, rhs node)"""
        out = []
        for nid, d, rhs, op, lhs in self.assignments():
            if d and rhs is not None and not d.startswith('this.') and op in ('init', '='):
                try:
                    if pred(self.key(rhs), rhs):
                        n = d.split(':')[-1]
                        if n not in out:
                            out.append(n)
                except Exception:
                    pass
        return out

    def outarg(self, callee_suffix, idx):
        """name of the variable whose address is passed as argument idx to the first call of callee"""
        for c in self.all('CallExpr', 'CXXMemberCallExpr'):
            v = self.nodes[c]
            if (v.get('callee') or '').endswith(callee_suffix) and len(v.get('args', [])) > idx:
                a = self.nodes.get(self.strip(v['args'][idx]), {})
                if a.get('k') == 'UnaryOperator' and a.get('op') == '&':
                    return self.key(a['ch'][0])
                return self.key(v['args'][idx])
        return None

    def is_this_field(self, nid, name=None):
        nid = self.strip(nid)
        v = self.nodes.get(nid, {})
        if v.get('k') == 'MemberExpr' and v.get('this') and v.get('rk') == 'field':
            return name is None or v.get('name') == name
        return False

    def ref_decl(self, nid):
        """decl id of a (stripped) DeclRefExpr / this-field MemberExpr"""
        nid = self.strip(nid)
        v = self.nodes.get(nid, {})
        if v.get('k') == 'DeclRefExpr':
            return v.get('decl')
        if v.get('k') == 'MemberExpr' and v.get('this'):
            return 'this.' + v.get('name', '?')
        return None

    def key(self, nid, depth=0):
        """canonical, spelling-independent rendering of an expression"""
        nid = self.strip(nid)
        v = self.nodes.get(nid)
        if v is None:
            return '?'
        k = v['k']
        if 'v' in v and k not in ('DeclRefExpr', 'MemberExpr', 'CallExpr', 'CXXMemberCallExpr') or \
                ('v' in v and v.get('rk') == 'enumerator') or \
                ('v' in v and k == 'DeclRefExpr' and v.get('const') and v.get('rk') in ('global', 'staticmember')):
            return '#%d' % v['v']
        if depth > 12:
            return '...'
        if k == 'DeclRefExpr':
            return v.get('name') or v.get('qn') or '?'
        if k == 'MemberExpr':
            if v.get('this'):
                return 'this.' + v.get('name', '?')
            ch = v.get('ch', [])
            return (self.key(ch[0], depth + 1) if ch else '?') + '.' + v.get('name', '?')
        if k == 'CXXThisExpr':
            return 'this'
        if k == 'CXXOperatorCallExpr' and v.get('op') == '[]' and len(v.get('args', [])) == 2:
            return '%s[%s]' % (self.key(v['args'][0], depth + 1), self.key(v['args'][1], depth + 1))
        if k in ('CallExpr', 'CXXMemberCallExpr', 'CXXOperatorCallExpr'):
            args = ','.join(self.key(a, depth + 1) for a in v.get('args', []))
            cal = v.get('callee') or self.key(v.get('fn'), depth + 1)
            if k == 'CXXMemberCallExpr' and 'obj' in v:
                return '%s.%s(%s)' % (self.key(v['obj'], depth + 1), cal.split('::')[-1], args)
            return '%s(%s)' % (cal, args)
        if k == 'CXXConstructExpr' or k == 'CXXTemporaryObjectExpr':
            args = ','.join(self.key(a, depth + 1) for a in v.get('args', []))
            return 'new %s(%s)' % ((v.get('cls') or '?'), args) if False else '%s{%s}' % (v.get('cls', '?'), args)
        if k in ('BinaryOperator', 'CompoundAssignOperator'):
            lk, rk, op = self.key(v['lhs'], depth + 1), self.key(v['rhs'], depth + 1), v['op']
            # canonical operand order: constants to the right of comparisons (`0 == x` reads `x == 0`)
            if op in CMP_MIRROR and lk.startswith('#') and not rk.startswith('#'):
                lk, rk, op = rk, lk, CMP_MIRROR[op]
            return '(%s %s %s)' % (lk, op, rk)
        if k == 'UnaryOperator':
            ch = v.get('ch', [])
            inner = self.key(ch[0], depth + 1) if ch else '?'
            return ('%s%s' % (inner, v['op'])) if v.get('post') else ('%s%s' % (v['op'], inner))
        if k in CAST_KINDS:
            ch = v.get('ch', [])
            return '(%s)%s' % (v.get('t', '?'), self.key(ch[0], depth + 1) if ch else '?')
        if k in ('ConditionalOperator', 'BinaryConditionalOperator'):
            return '(%s ? %s : %s)' % (self.key(v['cond'], depth + 1), self.key(v['then'], depth + 1),
                                       self.key(v['else'], depth + 1))
        if k == 'ArraySubscriptExpr':
            return '%s[%s]' % (self.key(v['base'], depth + 1), self.key(v['idx'], depth + 1))
        if k == 'StringLiteral':
            return json.dumps(v.get('str', ''))
        if k == 'FloatingLiteral':
            return 'f' + v.get('fv', '?')
        if k == 'CXXNullPtrLiteralExpr' or k == 'GNUNullExpr':
            return '#0'
        if k == 'CXXBoolLiteralExpr':
            return '#%d' % v.get('v', 0)
        if k == 'CXXNewExpr':
            return 'new ' + v.get('newt', '?')
        ch = v.get('ch', [])
        return '%s<%s>' % (k, ','.join(self.key(c, depth + 1) for c in ch))

    def calls(self, *names, **kw):
        """call-like nodes whose resolved callee (qualified name) or its last component is in names"""
        res = []
        suffix = kw.get('suffix', True)
        for nid, v in sorted(self.nodes.items()):
            if v['k'] not in ('CallExpr', 'CXXMemberCallExpr', 'CXXOperatorCallExpr', 'CXXConstructExpr',
                              'CXXTemporaryObjectExpr'):
                continue
            cal = v.get('callee')
            if cal is None:
                continue
            if not names:
                res.append(nid)
                continue
            for nm in names:
                if cal == nm or (suffix and (cal.endswith('::' + nm))):
                    res.append(nid)
                    break
        return res

    # -- CFG helpers -------------------------------------------------------
    def _build_pos(self):
        self._pos = {}
        for b in self.blocks.values():
            for i, e in enumerate(b.elems):
                self._pos.setdefault(e, (b.id, i))
            if b.term is not None:
                # terminator statement itself executes at the end of the block
                self._pos.setdefault(('T', b.term), (b.id, len(b.elems)))

    def pos(self, nid):
        """(block id, element index) where nid is evaluated; climbs to the nearest enclosing element"""
        if self._pos is None:
            self._build_pos()
        x = nid
        while x is not None:
            p = self._pos.get(x)
            if p is not None:
                return p
            x = self.parent(x)
        # statements that are only terminators (if/while...) : use the block they terminate
        p = self._pos.get(('T', nid))
        return p

    def block_of(self, nid):
        p = self.pos(nid)
        return p[0] if p else None

    def edges(self):
        for b in self.blocks.values():
            for i, s in enumerate(b.succs):
                if s is not None:
                    yield (b.id, i, s)

    def reach(self, starts, cut_edges=(), cut_blocks=()):
        cut_edges = set(cut_edges)
        cut_blocks = set(cut_blocks)
        seen = set()
        stack = [s for s in starts if s not in cut_blocks]
        while stack:
            b = stack.pop()
            if b in seen:
                continue
            seen.add(b)
            for i, s in enumerate(self.blocks[b].succs):
                if s is None or (b, i) in cut_edges or s in cut_blocks or s in seen:
                    continue
                stack.append(s)
        return seen

    def reaches_point(self, start, target, avoid, start_idx=0, cut_edges=()):
        """is point target=(bid, idx) reachable from (start, start_idx) without executing an element in avoid
        (set of node ids)?  Elements are tested in execution order inside blocks."""
        cut_edges = set(cut_edges)
        tb, ti = target
        seen = set()
        stack = [(start, start_idx)]
        while stack:
            b, i0 = stack.pop()
            if (b, i0 > 0) in seen:
                continue
            seen.add((b, i0 > 0))
            blk = self.blocks[b]
            blocked = False
            n = len(blk.elems)
            for i in range(i0, n + 1):
                if b == tb and i == ti:
                    return True
                if i < n and blk.elems[i] in avoid:
                    blocked = True
                    break
            if blocked:
                continue
            for j, s in enumerate(blk.succs):
                if s is None or (b, j) in cut_edges:
                    continue
                stack.append((s, 0))
        return False

    def effective_cond(self, b):
        """the atom actually tested at the end of block b (right-most operand of a logical condition when the
        terminator is not that logical operator itself)"""
        blk = self.blocks[b]
        c = blk.cond
        if c is None:
            return None
        c = self.strip(c)
        full = c
        while True:
            v = self.nodes.get(c, {})
            if v.get('k') == 'BinaryOperator' and v.get('op') in LOGICAL and blk.term != c and \
                    self.strip(blk.term if blk.term is not None else -1) != c:
                c = self.strip(v['rhs'])
                continue
            break
        if c != full:
            # normally the block of an if/while evaluates only the right-most operand itself (the others have their own
            # blocks and edges). When the condition creates a temporary, clang joins all operand paths first and branches
            # on the value of the whole expression in a block of its own: then the edge stands for the whole condition.
            p = self.pos(c)
            if p is not None and p[0] != b:
                return full
        return c

    def guards(self, nid=None, block=None, frm=None):
        """guard set: list of (cond node id, polarity/label, block id) of the CFG edges every path from the
        entry (or block frm) to the site must take."""
        if block is None:
            block = self.block_of(nid)
        if block is None:
            return []
        start = self.entry if frm is None else frm
        ck = (block, start)
        if ck in self._guard_cache:
            return self._guard_cache[ck]
        res = []
        base = self.reach([start])
        if block not in base:
            self._guard_cache[ck] = res
            return res
        for b in base:
            blk = self.blocks[b]
            live = [(i, s) for i, s in enumerate(blk.succs) if s is not None]
            if len(live) < 2 and not (blk.tk == 'SwitchStmt'):
                # a two-way terminator with one pruned edge still tests its condition
                if blk.cond is None or len(blk.succs) < 2:
                    continue
            # group succ indexes by target: an edge is a guard only if cutting all edges with that polarity works
            for i, s in live:
                r = self.reach([start], cut_edges=[(b, i)])
                if block in r:
                    continue
                if blk.tk == 'SwitchStmt':
                    lab = self.blocks[s].label if s in self.blocks else None
                    res.append((blk.cond, ('case', lab), b))
                else:
                    res.append((self.effective_cond(b), i == 0, b))
        self._guard_cache[ck] = res
        return res

    def atoms(self, nid=None, block=None, frm=None):
        """normalised guard atoms: set of (key, polarity) with negations / mirrored comparisons folded"""
        out = []
        for c, pol, b in self.guards(nid, block, frm):
            if isinstance(pol, tuple):
                lab = pol[1] or {}
                out.append(('switch:' + self.key(c) + '=' + str(lab.get('v', lab.get('kind'))), True, c, b))
                continue
            for a in self.norm_atom(c, pol):
                out.append(a + (c, b))
        return out

    def norm_atom(self, c, pol):
        """returns list of (key, polarity) facts implied by cond c having truth value pol"""
        c = self.strip(c)
        v = self.nodes.get(c, {})
        k = v.get('k')
        if k == 'UnaryOperator' and v.get('op') == '!':
            return self.norm_atom(v['ch'][0], not pol)
        if k == 'BinaryOperator' and v.get('op') in LOGICAL:
            op = v['op']
            # (a && b) true => a true and b true ; (a || b) false => a false and b false
            if (op == '&&' and pol) or (op == '||' and not pol):
                return self.norm_atom(v['lhs'], pol) + self.norm_atom(v['rhs'], pol)
            return [(self.key(c), pol)]
        if (k == 'BinaryOperator' and v.get('op') in CMP_MIRROR) or \
                (k == 'CXXOperatorCallExpr' and v.get('op') in CMP_MIRROR and len(v.get('args', [])) == 2):
            op = v['op']
            if k == 'BinaryOperator':
                l, r = self.key(v['lhs']), self.key(v['rhs'])
            else:
                l, r = self.key(v['args'][0]), self.key(v['args'][1])
            # constants to the right
            if l.startswith('#') and not r.startswith('#'):
                l, r, op = r, l, CMP_MIRROR[op]
            if not pol:
                op = CMP_NEG[op]
            # canonical: express != as negated ==
            if op == '!=':
                return [('(%s == %s)' % (l, r), False)]
            if op == '==':
                return [('(%s == %s)' % (l, r), True)]
            # canonical relational form: only < and <= (x >= y is the negation of x < y, x > y of x <= y)
            if op == '>=':
                return [('(%s < %s)' % (l, r), False)]
            if op == '>':
                return [('(%s <= %s)' % (l, r), False)]
            return [('(%s %s %s)' % (l, op, r), True)]
        return [(self.key(c), pol)]

    def edges_with_atom(self, key, pol=True):
        """CFG edges (block, succ index) taken exactly when the atom `key` has truth value `pol`"""
        out = []
        for b in self.blocks.values():
            if b.cond is None or b.tk == 'SwitchStmt' or len(b.succs) != 2:
                continue
            c = self.effective_cond(b.id)
            for j in (0, 1):
                for a in self.norm_atom(c, j == 0):
                    if a[0] == key and a[1] == pol and b.succs[j] is not None:
                        out.append((b.id, j))
        return out

    def needs_one_of(self, nid, atom_list, frm=None):
        """every path from the entry (or block frm) to nid takes an edge on which one of the atoms
        (key, polarity) holds (a disjunctive guard such as `a || b`)"""
        blk = self.block_of(nid)
        cut = []
        for k, p in atom_list:
            cut += self.edges_with_atom(k, p)
        # an edge that stands for a whole condition (a || b && c evaluated as one value, see effective_cond) is guarded
        # if every alternative under which it is taken contains one of the atoms
        want = set((k, bool(p)) for k, p in atom_list)
        for b in self.blocks.values():
            if b.cond is None or b.tk == 'SwitchStmt' or len(b.succs) != 2:
                continue
            c = self.effective_cond(b.id)
            v = self.nodes.get(c, {})
            if not (v.get('k') == 'BinaryOperator' and v.get('op') in LOGICAL):
                continue
            for j in (0, 1):
                if b.succs[j] is None or (b.id, j) in cut:
                    continue
                dnf = implied(self, c, j == 0)
                if dnf and all(any((atom_key(self, a)[0], bool(atom_key(self, a)[1])) in want for a in conj) for conj in dnf):
                    cut.append((b.id, j))
        if not cut:
            return False
        start = self.entry if frm is None else frm
        return blk not in self.reach([start], cut_edges=cut)

    def has_atom(self, atoms, key, pol=True):
        for a in atoms:
            if a[0] == key and a[1] == pol:
                return True
        return False

    # -- def/use ------------------------------------------------------------
    def assignments(self):
        """yield (node id, target decl key, rhs node id or None, op) for every write to a named variable/field"""
        for nid, v in sorted(self.nodes.items()):
            k = v['k']
            if k in ('BinaryOperator', 'CompoundAssignOperator') and (v['op'] == '=' or v['op'].endswith('=') and
                                                                         v['op'] not in ('==', '!=', '<=', '>=')):
                d = self.ref_decl(v['lhs'])
                yield nid, d, v['rhs'], v['op'], v['lhs']
            elif k == 'UnaryOperator' and v['op'] in ('++', '--'):
                d = self.ref_decl(v['ch'][0])
                yield nid, d, None, v['op'], v['ch'][0]
            elif k == 'DeclStmt':
                for dd in v.get('decls', []):
                    if 'init' in dd:
                        yield nid, dd['decl'], dd['init'], 'init', None
            elif k == 'CXXOperatorCallExpr' and v.get('op') in ('=', '+=', '-=', '|=', '&=', '^=') and v.get('args'):
                d = self.ref_decl(v['args'][0])
                yield nid, d, v['args'][1] if len(v['args']) > 1 else None, v['op'], v['args'][0]

    def taint(self, is_source, through_calls=()):
        """forward may-taint over locals/params (flow-insensitive over the function, which is sound for
        'may depend on'): returns (set of tainted decl keys, function node->bool)"""
        tainted = set()
        memo = {}

        def expr_tainted(nid):
            for x in self.walk(nid):
                v = self.nodes[x]
                if is_source(self, x):
                    return True
                if v['k'] == 'DeclRefExpr' and v.get('decl') in tainted:
                    return True
                if v['k'] == 'MemberExpr' and v.get('this') and ('this.' + v.get('name', '')) in tainted:
                    return True
            return False

        changed = True
        while changed:
            changed = False
            for nid, d, rhs, op, lhs in self.assignments():
                if d is None or d in tainted or rhs is None:
                    continue
                if expr_tainted(rhs):
                    tainted.add(d)
                    changed = True
        return tainted, expr_tainted


class FactBase(object):
    def __init__(self, docs):
        self.functions = []
        self.by_name = {}
        self.globals = {}
        self.enums = {}
        self.classes = {}
        self.tus = []
        seen = set()
        for tu, d in docs:
            self.tus.append(tu)
            for fd in d.get('functions', []):
                ident = (fd['sig'], fd['file'], fd['line'])
                if ident in seen:
                    continue
                seen.add(ident)
                fn = Fn(fd, tu)
                self.functions.append(fn)
                self.by_name.setdefault(fn.name, []).append(fn)
            for g in d.get('globals', []):
                self.globals.setdefault(g['name'], g)
                if 'init' in g and self.globals[g['name']].get('init') is None:
                    self.globals[g['name']] = g
            for e in d.get('enums', []):
                self.enums.setdefault(e['name'], e)
            for c in d.get('classes', []):
                self.classes.setdefault(c['name'], c)
        self._callers = None
        self._derived = None

    def fn(self, name, file_suffix=None, nth=None, required=True):
        """unique function by qualified name (optionally disambiguated)"""
        c = self.by_name.get(name, [])
        if file_suffix:
            c = [f for f in c if f.file.endswith(file_suffix)]
        if nth is not None and len(c) > nth:
            return sorted(c, key=lambda f: (f.file, f.line))[nth]
        if len(c) == 1:
            return c[0]
        if not c and not required:
            return None
        raise AnalysisBroken('anchor function %s: expected exactly one definition, found %d' % (name, len(c)))

    def fns(self, name):
        return sorted(self.by_name.get(name, []), key=lambda f: (f.file, f.line))

    def fn_by_sig(self, sigpart):
        c = [f for f in self.functions if sigpart in f.sig]
        return c

    def enumerator(self, enum, name):
        e = self.enums.get(enum)
        if not e:
            raise AnalysisBroken('enum %s not found' % enum)
        for x in e['enumerators']:
            if x['name'] == name:
                return x['v']
        raise AnalysisBroken('enumerator %s::%s not found' % (enum, name))

    def enum_names(self, enum):
        e = self.enums.get(enum)
        if not e:
            raise AnalysisBroken('enum %s not found' % enum)
        return {x['v']: x['name'] for x in e['enumerators']}

    # class hierarchy
    def derived(self, cls):
        if self._derived is None:
            self._derived = {}
            for c in self.classes.values():
                for b in c.get('bases', []):
                    self._derived.setdefault(b, set()).add(c['name'])
        out = set()
        stack = [cls]
        while stack:
            x = stack.pop()
            for d in self._derived.get(x, ()):
                if d not in out:
                    out.add(d)
                    stack.append(d)
        return out

    def bases(self, cls):
        out = []
        stack = [cls]
        while stack:
            x = stack.pop()
            c = self.classes.get(x)
            if not c:
                continue
            for b in c.get('bases', []):
                if b not in out:
                    out.append(b)
                    stack.append(b)
        return out

    def call_sites(self, *names):
        """all (fn, call node id) whose resolved callee qualified name is in names (exact) across the program"""
        res = []
        ns = set(names)
        for f in self.functions:
            for nid, v in f.nodes.items():
                if v.get('callee') in ns and v['k'] in ('CallExpr', 'CXXMemberCallExpr', 'CXXOperatorCallExpr',
                                                         'CXXConstructExpr', 'CXXTemporaryObjectExpr'):
                    res.append((f, nid))
        res.sort(key=lambda t: (t[0].file, t[0].nodes[t[1]].get('l', 0), t[1]))
        return res

    def callees_of(self, fn):
        """resolved callee names incl. virtual overriders"""
        out = set()
        for nid, v in fn.nodes.items():
            cal = v.get('callee')
            if not cal or v['k'] not in ('CallExpr', 'CXXMemberCallExpr', 'CXXOperatorCallExpr', 'CXXConstructExpr',
                                         'CXXTemporaryObjectExpr'):
                continue
            out.add(cal)
            if v.get('virt') and not v.get('qualcall'):
                m = cal.split('::')[-1]
                cls = v.get('cls')
                if cls:
                    for d in self.derived(cls):
                        out.add(d + '::' + m)
        return out

    def call_graph(self):
        if self._callers is None:
            g = {}
            for f in self.functions:
                g.setdefault(f.name, set()).update(self.callees_of(f))
            self._callers = g
        return self._callers

    def reachable_from(self, roots):
        g = self.call_graph()
        seen = set()
        stack = list(roots)
        while stack:
            x = stack.pop()
            if x in seen:
                continue
            seen.add(x)
            stack.extend(g.get(x, ()))
        return seen


_FB = None


def load(verbose=False):
    global _FB
    if _FB is not None:
        return _FB
    t0 = time.time()
    files, key = extract_all(verbose)
    docs = []
    for tu, p in files:
        with open(p) as fh:
            docs.append((tu, json.load(fh)))
    _FB = FactBase(docs)
    _FB.cache_key = key
    _FB.load_s = time.time() - t0
    return _FB


def load_single(path, flags=None, extra_args=('--all-headers',)):
    d = extract_file(path, flags, extra_args)
    return FactBase([(path, d)])


# ---------------------------------------------------------------------------
# condition semantics: DNF of atomic facts implied by a branch decision

def implied(fn, cond, pol, depth=0):
    """DNF (list of conjunctions) of atoms implied by `cond` evaluating to `pol`.
    atom = ('cmp', lhs_node, op, rhs_node, as_written)  comparison that holds; as_written = the source comparison
                                                         itself evaluated true (False: it is the negation of a false one)
         | ('b', key, polarity, node)       opaque boolean atom"""
    c = fn.strip(cond)
    v = fn.nodes.get(c, {})
    k = v.get('k')
    if k == 'UnaryOperator' and v.get('op') == '!':
        return implied(fn, v['ch'][0], not pol, depth + 1)
    if k == 'BinaryOperator' and v.get('op') in LOGICAL:
        a = implied(fn, v['lhs'], pol, depth + 1)
        b = implied(fn, v['rhs'], pol, depth + 1)
        conj = (v['op'] == '&&') == pol     # && true / || false => conjunction
        if conj:
            return [x + y for x in a for y in b]
        return a + b
    if k in ('ConditionalOperator',):
        ct = implied(fn, v['cond'], True, depth + 1)
        cf = implied(fn, v['cond'], False, depth + 1)
        x = implied(fn, v['then'], pol, depth + 1)
        y = implied(fn, v['else'], pol, depth + 1)
        return [p + q for p in ct for q in x] + [p + q for p in cf for q in y]
    if k == 'BinaryOperator' and v.get('op') in CMP_MIRROR:
        op = v['op'] if pol else CMP_NEG[v['op']]
        return [[('cmp', v['lhs'], op, v['rhs'], pol)]]
    if k == 'CXXOperatorCallExpr' and v.get('op') in CMP_MIRROR and len(v.get('args', [])) == 2:
        op = v['op'] if pol else CMP_NEG[v['op']]
        return [[('cmp', v['args'][0], op, v['args'][1], pol)]]
    if k == 'CXXOperatorCallExpr' and v.get('op') == '!' and len(v.get('args', [])) == 1:
        return [[('b', fn.key(v['args'][0]), not pol, v['args'][0])]]
    if 'v' in v and k not in ('CallExpr', 'CXXMemberCallExpr'):
        # constant condition
        truth = bool(v['v'])
        return [[]] if truth == pol else []
    if k == 'DeclRefExpr' and v.get('rk') == 'local' and depth < 6:
        sub = _flag_expansion(fn, c, pol, depth)
        if sub is not None:
            return sub
    return [[('b', fn.key(c), pol, c)]]


def _flag_expansion(fn, c, pol, depth):
    """a boolean local that is defined once (bool done = a || b;) and tested later stands for its defining condition:
    returns the DNF implied by that condition, restricted to the atoms whose operands are locals/parameters that are not
    written on any path between the definition and the test (dropping an atom only weakens what is implied, which is
    sound for every client that uses these facts to exclude paths); None if the local is not such a flag"""
    v = fn.nodes[c]
    d = v.get('decl')
    if not v.get('bool') and 'bool' not in (v.get('t') or ''):
        return None
    cache = fn.__dict__.setdefault('_flagdefs', {})
    if d not in cache:
        defs = [(nid, rhs, op) for nid, d2, rhs, op, lhs in fn.assignments() if d2 == d]
        addr = any(x.get('k') == 'UnaryOperator' and x.get('op') == '&' and fn.ref_decl(x['ch'][0]) == d for x in fn.nodes.values())
        cache[d] = defs[0] if len(defs) == 1 and defs[0][1] is not None and defs[0][2] in ('init', '=') and not addr else None
    df = cache[d]
    if df is None:
        return None
    dn, rhs, _ = df
    pd, pu = fn.pos(dn), fn.pos(c)
    if pd is None or pu is None:
        return None
    sub = implied(fn, rhs, pol, depth + 1)
    writes = {}
    for nid, d2, r2, op, lhs in fn.assignments():
        if d2 and nid != dn:
            writes.setdefault(d2, []).append(nid)

    def stable(node):
        if isinstance(node, tuple):
            return True
        for x in fn.walk(node):
            xv = fn.nodes[x]
            if xv['k'] in ('MemberExpr', 'CallExpr', 'CXXMemberCallExpr', 'CXXOperatorCallExpr', 'ArraySubscriptExpr', 'UnaryOperator'):
                return False
            if xv['k'] == 'DeclRefExpr' and xv.get('rk') not in ('enumerator',):
                if xv.get('rk') not in ('local', 'param'):
                    return False
                for w in writes.get(xv.get('decl'), []):
                    pw = fn.pos(w)
                    if pw is not None and fn.reaches_point(pd[0], pw, set(), start_idx=pd[1] + 1) and \
                            fn.reaches_point(pw[0], pu, set(), start_idx=pw[1] + 1):
                        return False
        return True
    out = []
    for conj in sub:
        out.append([a for a in conj if (stable(a[1]) and stable(a[3])) if a[0] == 'cmp'] +
                   [a for a in conj if a[0] == 'b' and stable(a[3])])
    return out


def atom_key(fn, a):
    """(key, polarity) of an atom, comparisons canonicalised (constants right, != as negated ==, > as mirrored <)"""
    if a[0] == 'b':
        return a[1], a[2]
    l, op, r = a[1], a[2], a[3]
    lk = fn.key(l)
    rk = ('#%d' % r[1]) if isinstance(r, tuple) else fn.key(r)
    if lk.startswith('#') and not rk.startswith('#'):
        lk, rk, op = rk, lk, CMP_MIRROR[op]
    if op == '!=':
        return '(%s == %s)' % (lk, rk), False
    if op == '>=':
        return '(%s < %s)' % (lk, rk), False
    if op == '>':
        return '(%s <= %s)' % (lk, rk), False
    return '(%s %s %s)' % (lk, op, rk), True


class Explorer(object):
    """Path exploration of one function's CFG with a small finite abstract state (DESIGN A1(iii)/A3).

    The state is (valuation, user) where valuation is a frozenset of (atom key, polarity) for *correlated* pure
    atoms (atoms tested in more than one block whose operands are not written in between - writes kill them) and
    user is a hashable client state updated by on_edge / on_elem callbacks.  A path that would need an atom to be
    both true and false is not followed."""

    def __init__(self, fn, on_elem=None, on_edge=None, correlate=True):
        self.fn = fn
        self.on_elem = on_elem
        self.on_edge = on_edge
        self.corr = self._correlated() if correlate else set()
        self._writes = None

    def _correlated(self):
        fn = self.fn
        cnt = {}
        for b in fn.blocks.values():
            if b.cond is None or b.tk == 'SwitchStmt':
                continue
            c = fn.effective_cond(b.id)
            for pol in (True,):
                for conj in implied(fn, c, pol):
                    for a in conj:
                        if not self._pure(a):
                            continue
                        k = atom_key(fn, a)[0]
                        cnt.setdefault(k, set()).add(b.id)
        for b in fn.blocks.values():
            if b.tk == 'SwitchStmt' and b.cond is not None:
                sk = fn.key(b.cond)
                for s2 in b.succs:
                    l2 = fn.blocks[s2].label if s2 is not None else None
                    if l2 and l2.get('kind') == 'case' and 'v' in l2:
                        k = '(%s == #%d)' % (sk, l2['v'])
                        if k in cnt:
                            cnt[k].add(('sw', b.id))
        return set(k for k, bs in cnt.items() if len(bs) >= 2)

    def _pure(self, a):
        """an atom may be correlated only if it contains no call other than const member calls"""
        fn = self.fn
        roots = [a[3]] if a[0] == 'b' else [a[1], a[3]]
        for r in roots:
            for x in fn.walk(r):
                v = fn.nodes[x]
                if v['k'] in ('CallExpr', 'CXXOperatorCallExpr', 'CXXConstructExpr', 'CXXNewExpr'):
                    return False
                if v['k'] == 'CXXMemberCallExpr' and not v.get('sig', '').endswith(' const'):
                    return False
                if v['k'] == 'UnaryOperator' and v.get('op') in ('++', '--'):
                    return False
                if v['k'] in ('BinaryOperator', 'CompoundAssignOperator') and v.get('op', '').endswith('=') and \
                        v['op'] not in ('==', '!=', '<=', '>='):
                    return False
        return True

    def _elem_kills(self, nid):
        """names written by element nid"""
        fn = self.fn
        v = fn.nodes[nid]
        k = v['k']
        out = []
        if k in ('BinaryOperator', 'CompoundAssignOperator') and v.get('op', '').endswith('=') and \
                v['op'] not in ('==', '!=', '<=', '>='):
            out.append(fn.key(v['lhs']))
        elif k == 'UnaryOperator' and v.get('op') in ('++', '--'):
            out.append(fn.key(v['ch'][0]))
        elif k == 'DeclStmt':
            for d in v.get('decls', []):
                out.append(d['name'])
        elif k == 'CXXMemberCallExpr':
            sig = v.get('sig', '')
            obj = v.get('obj')
            if not sig.endswith(' const') and obj is not None:
                ok = fn.key(obj)
                out.append(ok)
        elif k == 'CXXOperatorCallExpr' and v.get('op') in ('=', '+=', '-=', '|=', '&=', '<<=', '>>=', '++', '--') \
                and v.get('args'):
            out.append(fn.key(v['args'][0]))
        elif k == 'CallExpr':
            # out-parameters passed by address
            for a in v.get('args', []):
                s = fn.strip(a)
                sv = fn.nodes.get(s, {})
                if sv.get('k') == 'UnaryOperator' and sv.get('op') == '&':
                    out.append(fn.key(sv['ch'][0]))
        return out

    @staticmethod
    def _mentions(key, name):
        if not name:
            return False
        i = key.find(name)
        while i >= 0:
            before = key[i - 1] if i > 0 else ' '
            after = key[i + len(name)] if i + len(name) < len(key) else ' '
            if not (before.isalnum() or before == '_') and not (after.isalnum() or after == '_'):
                return True
            i = key.find(name, i + 1)
        return False

    def edge_facts(self, b, idx, val):
        """DNF of the decision (b, idx) pruned by valuation; None if infeasible"""
        fn = self.fn
        blk = fn.blocks[b]
        if blk.tk == 'SwitchStmt' and blk.cond is not None:
            # a case edge fixes the switch operand to the label value; the default edge excludes all labels
            tgt = blk.succs[idx]
            lab = fn.blocks[tgt].label if tgt is not None else None
            sk = fn.key(blk.cond)
            vd = dict(val)
            if lab and lab.get('kind') == 'case' and 'v' in lab:
                k = '(%s == #%d)' % (sk, lab['v'])
                if vd.get(k) is False:
                    return None
                for kk, pp in vd.items():
                    if pp and kk.startswith('(%s == #' % sk) and kk != k:
                        return None
                return [[('cmp', blk.cond, '==', ('const', lab['v']), True)]]
            # default label or no label at all (switch without default falls through to the statement after it):
            # the operand differs from every case value
            labels = []
            for s2 in blk.succs:
                l2 = fn.blocks[s2].label if s2 is not None else None
                if l2 and l2.get('kind') == 'case' and 'v' in l2:
                    if vd.get('(%s == #%d)' % (sk, l2['v'])) is True:
                        return None
                    labels.append(l2['v'])
            labels = sorted(set(labels))
            conj = [('cmp', blk.cond, '!=', ('const', v), True) for v in labels + labels[::-1]]
            return [conj]
        if blk.cond is None or len(blk.succs) != 2:
            return [[]]
        c = fn.effective_cond(b)
        dnf = implied(fn, c, idx == 0)
        vd = dict(val)
        out = []
        for conj in dnf:
            okc = True
            for a in conj:
                k, p = atom_key(fn, a)
                if k in vd and vd[k] != p:
                    okc = False
                    break
            if okc:
                out.append(conj)
        if not out:
            return None
        return out

    def run(self, start, start_idx, init_user, stop=None, max_states=200000):
        """explore from point (start, start_idx). Calls on_elem(user, nid)->user for each element in order and
        on_edge(user, b, idx, dnf)->user|None for each taken edge. `stop(nid, user)` may return True to end a path at
        an element (after on_elem).  Yields nothing; results are collected by the callbacks (closure state).
        Returns number of abstract states visited."""
        fn = self.fn
        seen = set()
        stack = [(start, start_idx, frozenset(), init_user, ((start, None),))]
        n = 0
        while stack:
            b, i0, val, user, path = stack.pop()
            st = (b, i0, val, user)
            if st in seen:
                continue
            seen.add(st)
            n += 1
            if n > max_states:
                raise AnalysisBroken('state explosion in %s' % fn.name)
            blk = fn.blocks[b]
            ended = False
            for i in range(i0, len(blk.elems)):
                e = blk.elems[i]
                kills = self._elem_kills(e)
                if kills and val:
                    val = frozenset((k, p) for (k, p) in val if not any(self._mentions(k, nm) for nm in kills))
                if self.on_elem:
                    user = self.on_elem(user, e, path)
                    if user is None:
                        ended = True
                        break
                if stop and stop(e, user):
                    ended = True
                    break
            if ended:
                continue
            for j, s in enumerate(blk.succs):
                if s is None:
                    continue
                dnf = self.edge_facts(b, j, val)
                if dnf is None:
                    continue
                nval = val
                if len(dnf) == 1:
                    add = []
                    for a in dnf[0]:
                        k, p = atom_key(fn, a)
                        if k in self.corr:
                            add.append((k, p))
                    if add:
                        nval = frozenset(set(val) | set(add))
                nuser = user
                if self.on_edge:
                    nuser = self.on_edge(user, b, j, dnf)
                    if nuser is None:
                        continue
                stack.append((s, 0, nval, nuser, path + ((s, j),)))
        return n

    def describe_path(self, path):
        fn = self.fn
        out = []
        prev = None
        for (b, j) in path:
            if prev is not None and j is not None:
                blk = fn.blocks[prev]
                if blk.cond is not None and len([s for s in blk.succs]) >= 2:
                    c = fn.effective_cond(prev)
                    if blk.tk == 'SwitchStmt':
                        lab = fn.blocks[b].label or {}
                        out.append('L%d: switch -> %s' % (fn.line_of(c), lab.get('name', lab.get('kind', '?'))))
                    else:
                        out.append('L%d: [%s] is %s' % (fn.line_of(c), fn.text(c), 'true' if j == 0 else 'false'))
            prev = b
        return out


_MACRO_CACHE = {}


def macro_values(headers, names):
    """evaluate preprocessor macros of repository headers to integers through a generated probe translation unit
    (static const unsigned long long P_<name> = (<name>);) run through the same extractor"""
    key = (tuple(headers), tuple(names), _tree_hash())
    if key in _MACRO_CACHE:
        return _MACRO_CACHE[key]
    os.makedirs(CACHE, exist_ok=True)
    pdir = os.path.join(CACHE, 'probe_%d' % os.getpid())
    os.makedirs(pdir, exist_ok=True)
    path = os.path.join(pdir, 'probe.cpp')
    with open(path, 'w') as fh:
        for h in headers:
            fh.write('#include "%s"\n' % h)
        fh.write('namespace ebusd_probe {\n')
        for n in names:
            fh.write('#ifdef %s\nstatic const unsigned long long P_%s = (unsigned long long)(%s);\n#endif\n' % (n, n, n))
        fh.write('}\n')
    try:
        d = extract_file(path, root=pdir)
    finally:
        shutil.rmtree(pdir, ignore_errors=True)
    res = {}
    for g in d.get('globals', []):
        nm = g['name'].split('::')[-1]
        if nm.startswith('P_') and isinstance(g.get('init'), int):
            res[nm[2:]] = g['init']
    _MACRO_CACHE[key] = res
    return res
