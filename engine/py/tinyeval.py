"""evaluation of small, loop-free (or shortly looping) accessor functions from their typed AST facts on an enumerated
abstract object state.  It is used for inline accessors whose whole meaning is an arithmetic relation between a few
fields (SymbolString::getDataSize, isComplete, ...): instead of comparing the source with a frozen expression text, the
rule evaluates the function body - with the integer widths and signedness the compiler assigned to each expression node
- on every state of a small model (vector contents up to a few elements, both flag values) and compares the result
with the stated relation.  Nothing of the program is executed: the interpreter only understands literals, locals,
member fields of `this`, integer arithmetic/comparison/casts, ?:, if/return, and size()/[]/at()/resize()/push_back() of
a std::vector member.  Anything else raises Unknown, which a rule reports as analysis-broken, never as a verdict."""


class Unknown(Exception):
    pass


class OutOfBounds(Exception):
    pass


class _Return(Exception):
    def __init__(self, v):
        self.v = v


class _Break(Exception):
    pass


class _Continue(Exception):
    pass


class Ref(object):
    """an lvalue: element of a list, a local, or a field of the model"""
    def __init__(self, box, key):
        self.box, self.key = box, key

    def get(self):
        if isinstance(self.box, list) and not (0 <= self.key < len(self.box)):
            raise OutOfBounds('index %s of %d' % (self.key, len(self.box)))
        return self.box[self.key]

    def set(self, v):
        if isinstance(self.box, list) and not (0 <= self.key < len(self.box)):
            raise OutOfBounds('index %s of %d' % (self.key, len(self.box)))
        self.box[self.key] = v


def trunc(v, node):
    """value of v in the integer type of the AST node (width w, signedness sg); bool -> 0/1"""
    if isinstance(v, (Ref, list)) or v is None:
        return v
    if node.get('bool'):
        return 1 if v else 0
    w = node.get('w')
    if not w or node.get('ptr'):
        return v
    v = int(v) & ((1 << w) - 1)
    if node.get('sg') and v >> (w - 1):
        v -= 1 << w
    return v


class Machine(object):
    def __init__(self, fn, fields, args=None, max_steps=40000):
        self.fn = fn
        self.fields = fields          # name -> value (int) or list (vector member)
        self.locals = {}
        self.steps = max_steps
        for p, a in zip(fn.params, args or []):
            if p.get('decl'):
                self.locals[p['decl']] = a

    # ---- expressions
    def rv(self, x):
        v = self.ev(x)
        if isinstance(v, Ref):
            v = v.get()
        return v

    def ev(self, x):
        fn = self.fn
        n = fn.nodes[x]
        k = n['k']
        self.steps -= 1
        if self.steps < 0:
            raise Unknown('step limit')
        if k in ('IntegerLiteral', 'CXXBoolLiteralExpr', 'CharacterLiteral'):
            return n['v']
        if k in ('ParenExpr', 'ExprWithCleanups', 'MaterializeTemporaryExpr', 'CXXBindTemporaryExpr', 'ConstantExpr'):
            return self.ev(n['ch'][0])
        if k in ('ImplicitCastExpr', 'CStyleCastExpr', 'CXXStaticCastExpr', 'CXXFunctionalCastExpr', 'CXXReinterpretCastExpr', 'CXXConstCastExpr'):
            ck = n.get('ck')
            if ck in ('BitCast', 'DerivedToBase', 'BaseToDerived') or k in ('CXXReinterpretCastExpr', 'CXXConstCastExpr'):
                return self.ev(n['ch'][0])
            if ck == 'LValueToRValue':
                return self.rv(n['ch'][0])
            if ck in ('PointerToBoolean', 'NullToPointer'):
                v = self.rv(n['ch'][0]) if ck == 'PointerToBoolean' else 0
                return 1 if v else 0
            if ck == 'ToVoid':
                self.ev(n['ch'][0])
                return None
            if ck == 'ArrayToPointerDecay':
                return self.ev(n['ch'][0])
            if ck in ('NoOp', 'IntegralCast', 'IntegralToBoolean', None):
                v = self.ev(n['ch'][0])
                if ck == 'NoOp' and isinstance(v, (Ref, list)):
                    return v
                if isinstance(v, Ref):
                    v = v.get()
                if isinstance(v, list):
                    return v
                return trunc(v, n)
            raise Unknown('cast %s' % ck)
        if k == 'DeclRefExpr':
            d = n.get('decl')
            if d in self.locals:
                if isinstance(self.locals[d], (Ref, list)):
                    return self.locals[d]       # a reference local / a container passed by pointer or reference
                return Ref(self.locals, d)
            if 'v' in n:
                return n['v']
            if n.get('rk') == 'global' and n.get('qn') in self.fields:
                g = self.fields[n['qn']]
                return g if isinstance(g, list) else Ref(self.fields, n['qn'])
            if n.get('rk') == 'local':
                # a local of the enclosing function that is defined once, by an initialiser whose operands are unchanged
                src = fn.def_expr(x)
                if src != fn.strip(x, casts=True):
                    return self.ev(src)
            raise Unknown('reference to %s' % n.get('name'))
        if k == 'MemberExpr':
            if n.get('this') and n.get('name') in self.fields:
                return Ref(self.fields, n['name']) if not isinstance(self.fields[n['name']], list) else self.fields[n['name']]
            k2 = fn.key(x)
            if k2 in self.fields:
                return Ref(self.fields, k2)
            raise Unknown('member %s' % n.get('name'))
        if k == 'ArraySubscriptExpr' and n.get('base') is not None and n.get('idx') is not None:
            base = self.ev(n['base'])
            if isinstance(base, Ref):
                base = base.get()
            if not isinstance(base, list):
                raise Unknown('subscripted object')
            return Ref(base, self.rv(n['idx']))
        if k == 'ConditionalOperator':
            return self.ev(n['then'] if self.rv(n['cond']) else n['else'])
        if k == 'UnaryOperator':
            op = n.get('op')
            if op in ('++', '--'):
                r = self.ev(n['ch'][0])
                old = r.get()
                r.set(trunc(old + (1 if op == '++' else -1), n))
                return old if n.get('post') else r
            if op == '*':
                a = self.rv(n['ch'][0])
                if isinstance(a, (list, Ref)):
                    return a
                raise Unknown('dereference')
            if op == '&':
                return self.ev(n['ch'][0])
            a = self.rv(n['ch'][0])
            if op == '-':
                return trunc(-a, n)
            if op == '!':
                return 0 if a else 1
            if op == '~':
                return trunc(~a, n)
            if op == '+':
                return trunc(a, n)
            raise Unknown('unary %s' % op)
        if k in ('BinaryOperator', 'CompoundAssignOperator'):
            op = n['op']
            if op == '=':
                r = self.ev(n['lhs'])
                v = self.rv(n['rhs'])
                if not isinstance(r, Ref):
                    raise Unknown('assignment target')
                r.set(trunc(v, n))
                return r
            if op in ('+=', '-=', '*=', '|=', '&=', '<<=', '>>=', '/=', '%=', '^='):
                r = self.ev(n['lhs'])
                v = self.arith(op[:-1], r.get(), self.rv(n['rhs']))
                r.set(trunc(v, n))
                return r
            if op == '&&':
                return 1 if (self.rv(n['lhs']) and self.rv(n['rhs'])) else 0
            if op == '||':
                return 1 if (self.rv(n['lhs']) or self.rv(n['rhs'])) else 0
            if op == ',':
                self.rv(n['lhs'])
                return self.ev(n['rhs'])
            a, b = self.rv(n['lhs']), self.rv(n['rhs'])
            return trunc(self.arith(op, a, b), n)
        if k == 'CXXMemberCallExpr':
            cal = (n.get('callee') or '').split('::')[-1]
            if n.get('cls') == 'std::vector':
                vec = self.ev(n['obj'])
                if not isinstance(vec, list):
                    raise Unknown('vector object')
                args = [self.rv(a) for a in n.get('args', [])]
                if cal == 'size':
                    return len(vec)
                if cal == 'empty':
                    return 1 if not vec else 0
                if cal == 'resize':
                    fill = args[1] if len(args) > 1 else 0
                    if args[0] > 100000:
                        raise OutOfBounds('resize(%d)' % args[0])
                    del vec[args[0]:]
                    vec.extend([fill] * (args[0] - len(vec)))
                    return None
                if cal == 'push_back':
                    vec.append(args[0])
                    return None
                if cal == 'clear':
                    del vec[:]
                    return None
                if cal == 'at':
                    return Ref(vec, args[0])
                if cal in ('back', 'front'):
                    return Ref(vec, len(vec) - 1 if cal == 'back' else 0)
            objn = fn.nodes[fn.strip(n['obj'], casts=True)] if n.get('obj') is not None else {}
            if objn.get('k') == 'CXXThisExpr' and self.resolve is not None and self.depth < 4:
                callee = self.resolve(n.get('callee'), n.get('sig'))
                if callee is not None:
                    sub = Machine(callee, self.fields, [self.rv(a) for a in n.get('args', [])], self.steps)
                    sub.resolve, sub.depth = self.resolve, self.depth + 1
                    return sub.call()
            if getattr(self, 'methods', None) and n.get('callee') in self.methods:
                # a method of another object the rule supplies a model for (the object itself is not modelled)
                return trunc(self.methods[n['callee']](*[self.rv(a) for a in n.get('args', [])]), n)
            raise Unknown('call %s' % n.get('callee'))
        if k == 'CallExpr' and getattr(self, 'free', None) and n.get('callee') in self.free:
            # a free function the rule supplies a model for (justified by the rule that decides that function)
            vals = []
            for a in n.get('args', []):
                try:
                    vals.append(self.rv(a))
                except Unknown:
                    vals.append(None)      # the model decides whether it needs this argument
            return trunc(self.free[n['callee']](*vals), n)
        if k == 'CallExpr' and (n.get('callee') or '').split('<')[0] in ('std::min', 'std::max') and len(n.get('args', [])) == 2:
            a, b = self.rv(n['args'][0]), self.rv(n['args'][1])
            return min(a, b) if 'min' in n['callee'].split('<')[0] else max(a, b)
        if k == 'CXXOperatorCallExpr' and n.get('op') == '[]' and n.get('cls') == 'std::vector':
            vec = self.ev(n['args'][0])
            if not isinstance(vec, list):
                raise Unknown('vector object')
            return Ref(vec, self.rv(n['args'][1]))
        if 'v' in n and isinstance(n['v'], int):
            return n['v']
        raise Unknown('expression %s at line %s' % (k, n.get('l')))

    @staticmethod
    def arith(op, a, b):
        if isinstance(a, list) or isinstance(b, list) or a is None or b is None:
            raise Unknown('operand')
        if op == '+':
            return a + b
        if op == '-':
            return a - b
        if op == '*':
            return a * b
        if op in ('/', '%'):
            if b == 0:
                raise OutOfBounds('division by zero')
            q = abs(a) // abs(b) * (1 if (a < 0) == (b < 0) else -1)
            return q if op == '/' else a - q * b
        if op == '<<':
            return a << b
        if op == '>>':
            return a >> b
        if op == '&':
            return a & b
        if op == '|':
            return a | b
        if op == '^':
            return a ^ b
        if op == '<':
            return 1 if a < b else 0
        if op == '<=':
            return 1 if a <= b else 0
        if op == '>':
            return 1 if a > b else 0
        if op == '>=':
            return 1 if a >= b else 0
        if op == '==':
            return 1 if a == b else 0
        if op == '!=':
            return 1 if a != b else 0
        raise Unknown('operator %s' % op)

    # ---- statements
    def st(self, x):
        fn = self.fn
        n = fn.nodes[x]
        k = n['k']
        self.steps -= 1
        if self.steps < 0:
            raise Unknown('step limit')
        if k == 'CompoundStmt':
            for c in n.get('ch', []):
                self.st(c)
        elif k == 'DeclStmt':
            for d in n.get('decls', []):
                v = None
                if d.get('init') is not None:
                    v = self.ev(d['init'])
                    if isinstance(v, Ref) and not (d.get('t') or '').rstrip().endswith('&'):
                        v = v.get()
                    if not isinstance(v, Ref):
                        v = trunc(v, d)
                self.locals[d['decl']] = v
        elif k == 'IfStmt':
            if self.rv(n['cond']):
                self.st(n['then'])
            elif n.get('else') is not None:
                self.st(n['else'])
        elif k == 'ReturnStmt':
            v = None
            if n.get('val') is not None:
                v = self.ev(n['val'])
                if isinstance(v, Ref) and not self.fn.sig.split('(')[0].rstrip().endswith('&') and not self.returns_ref:
                    v = v.get()
            raise _Return(v)
        elif k == 'WhileStmt':
            while self.rv(n['cond']):
                try:
                    self.st(n['body'])
                except _Break:
                    break
                except _Continue:
                    pass
        elif k == 'ForStmt':
            if n.get('init') is not None:
                self.st(n['init'])
            while n.get('cond') is None or self.rv(n['cond']):
                try:
                    if n.get('body') is not None:
                        self.st(n['body'])
                except _Break:
                    break
                except _Continue:
                    pass
                if n.get('inc') is not None:
                    self.ev(n['inc'])
                self.steps -= 1
                if self.steps < 0:
                    raise Unknown('step limit')
        elif k == 'DoStmt':
            while True:
                try:
                    self.st(n['body'])
                except _Break:
                    break
                except _Continue:
                    pass
                if not self.rv(n['cond']):
                    break
                self.steps -= 1
                if self.steps < 0:
                    raise Unknown('step limit')
        elif k == 'BreakStmt':
            raise _Break()
        elif k == 'ContinueStmt':
            raise _Continue()
        elif k == 'CXXForRangeStmt':
            rng = self.ev(n['range'])
            if not isinstance(rng, list):
                raise Unknown('range of a range-based for')
            byref = False
            for c in n.get('ch', []):
                cv = fn.nodes[c]
                if cv['k'] == 'DeclStmt':
                    for d in cv.get('decls', []):
                        if d.get('decl') == n.get('loopvar'):
                            byref = (d.get('t') or '').rstrip().endswith('&')
            i = 0
            while i < len(rng):
                self.locals[n['loopvar']] = Ref(rng, i) if byref else rng[i]
                try:
                    self.st(n['body'])
                except _Break:
                    break
                except _Continue:
                    pass
                i += 1
                self.steps -= 1
                if self.steps < 0:
                    raise Unknown('step limit')
        elif k == 'NullStmt':
            pass
        elif k == 'SwitchStmt':
            val = self.rv(n['cond'])
            body = fn.nodes[n['body']]
            if body['k'] != 'CompoundStmt':
                raise Unknown('switch body')
            items = []      # (labels, statement)
            for c in body.get('ch', []):
                labels = []
                x = c
                while fn.nodes[x]['k'] in ('CaseStmt', 'DefaultStmt'):
                    xv = fn.nodes[x]
                    labels.append('default' if xv['k'] == 'DefaultStmt' else fn.val(xv['lhs']))
                    x = xv['sub']
                items.append((labels, x))
            start = None
            for i, (labels, st_) in enumerate(items):
                if val in labels:
                    start = i
                    break
            if start is None:
                for i, (labels, st_) in enumerate(items):
                    if 'default' in labels:
                        start = i
                        break
            if start is not None:
                try:
                    for labels, st_ in items[start:]:
                        self.st(st_)
                except _Break:
                    pass
        elif k in ('CXXTryStmt', 'GotoStmt'):
            raise Unknown('statement %s' % k)
        else:
            self.ev(x)

    returns_ref = False
    resolve = None
    depth = 0

    def call(self):
        try:
            self.st(self.fn.body)
        except _Return as r:
            return r.v
        return None


def run(fn, fields, args=None, returns_ref=False, resolve=None):
    """evaluates fn on the model `fields` (modified in place); returns its value (a Ref when returns_ref); resolve maps
    (qualified name, signature) of a method called on `this` to its Fn (or None)"""
    m = Machine(fn, fields, args)
    m.returns_ref = returns_ref
    m.resolve = resolve
    return m.call()
