"""C11 - CRC, escaping and address classes follow the eBUS specification (tables and their use).

C11.R1 (core) CRC_LOOKUP_TABLE equals the multiplication-by-x^8 table of generator x^8+x^7+x^4+x^3+x+1 (all 256 rows)
C11.R2 (core) updateCrc is *crc = TABLE[*crc] ^ value; calcCrc starts at 0 and feeds ESC,00 / ESC,01 / the byte
C11.R3 (core) escape table {ESC<->00, SYN<->01} agrees in calcCrc, parseHexEscaped, handleSend, handleReceive;
              parseHexEscaped rejects bare SYN, other pairs and a dangling ESC
C11.R4 (core) address tables: master nibbles {0,1,3,7,F}, isMaster/getMasterNumber nibble use, +-5 mapping,
              isValidAddress exclusions; derived: 25 masters, number is a bijection onto 1..25
"""
import facts
from facts import AnalysisBroken

POLY = 0x9B
ESC, SYN, BROADCAST = 0xA9, 0xAA, 0xFE


def crc_table():
    t = []
    for c in range(256):
        v = c
        for _ in range(8):
            v = ((v << 1) ^ POLY) & 0xFF if v & 0x80 else (v << 1) & 0xFF
        t.append(v)
    return t


def check_constants(ctx):
    fb = ctx.fb
    # ESC / SYN / BROADCAST as the repository defines them (evaluated in isValidAddress)
    return


def r1(ctx):
    ctx.mark('crc-table', 'C11.R1')
    ctx.rule('C11.R1', 'every entry of CRC_LOOKUP_TABLE equals c*x^8 mod (x^8+x^7+x^4+x^3+x+1), computed independently by '
             'bitwise polynomial division (256 rows); the table is the whole CRC step function', minimum=256, star=True)
    g = ctx.fb.globals.get('ebusd::CRC_LOOKUP_TABLE')
    if not g:
        raise AnalysisBroken('C11.R1: CRC_LOOKUP_TABLE not found')
    if isinstance(g.get('init'), list):
        init = g['init']
    else:
        # no literal table: it is filled by code (at static initialisation).  The function(s) that store into it are
        # evaluated from their typed AST on a zeroed table; what is not written stays 0
        import tinyeval
        fillers = []
        for f in ctx.fb.functions:
            if f.relfile.startswith('src/lib/ebus/symbol.') and any(
                    lhs is not None and f.key(lhs).split('[')[0].endswith('CRC_LOOKUP_TABLE') and '[' in f.key(lhs)
                    for nid, d, rhs, op, lhs in f.assignments()):
                fillers.append(f)
        if not fillers or not g.get('arr'):
            raise AnalysisBroken('C11.R1: CRC_LOOKUP_TABLE has no initialiser and no function fills it')
        init = [0] * g['arr']
        try:
            for f in fillers:
                ctx.touch(f)
                if f.params:
                    raise tinyeval.Unknown('filler %s takes parameters' % f.name)
                tinyeval.Machine(f, {'ebusd::CRC_LOOKUP_TABLE': init}, [], max_steps=3000000).call()
        except (tinyeval.Unknown, tinyeval.OutOfBounds) as e:
            raise AnalysisBroken('C11.R1: the code that fills CRC_LOOKUP_TABLE is not evaluable (%s)' % e)
    exp = crc_table()
    if len(init) != 256:
        raise AnalysisBroken('C11.R1: CRC_LOOKUP_TABLE has %d entries' % len(init))
    fn = ctx.fb.fn('ebusd::SymbolString::updateCrc')
    for i in range(256):
        ctx.ob('C11.R1', fn, None, init[i] == exp[i], 'CRC_LOOKUP_TABLE[%d]' % i,
               'is %s, polynomial 0x9B gives %#04x' % (hex(init[i]) if isinstance(init[i], int) else init[i], exp[i]),
               nontrivial=(i < 2 or init[i] != exp[i]) or True)


def r2(ctx):
    ctx.rule('C11.R2', 'updateCrc computes *crc = CRC_LOOKUP_TABLE[*crc] ^ value (table indexed by the old CRC, new symbol '
             'xor-ed in); calcCrc starts from 0 and feeds ESC,0x00 for ESC, ESC,0x01 for SYN and the symbol itself '
             'otherwise, i.e. the CRC runs over the escaped sequence', minimum=5, star=True)
    fb = ctx.fb
    fn = fb.fn('ebusd::SymbolString::updateCrc')
    ctx.touch(fn)
    asg = [(nid, rhs, lhs) for nid, d, rhs, op, lhs in fn.assignments() if op == '=' and lhs is not None]
    ok = False
    detail = 'no assignment to *crc'
    pv, pc = fn.P(0), fn.P(1)
    for nid, rhs, lhs in asg:
        if fn.key(lhs) != '*' + pc:
            continue
        k = fn.key(rhs)
        detail = k
        ok = False
        r = fn.nodes.get(fn.strip(rhs, casts=True), {})
        if r.get('k') == 'BinaryOperator' and r.get('op') == '^':
            ops = sorted([fn.key(fn.strip(r['lhs'], casts=True)), fn.key(fn.strip(r['rhs'], casts=True))])
            ok = ops in (sorted(['ebusd::CRC_LOOKUP_TABLE[*%s]' % pc, pv]), sorted(['CRC_LOOKUP_TABLE[*%s]' % pc, pv]))
        ctx.ob('C11.R2', fn, nid, ok, 'updateCrc step', 'step is %s' % detail)
    if not asg:
        raise AnalysisBroken('C11.R2: updateCrc body not recognised')
    cc = fb.fn('ebusd::SymbolString::calcCrc')
    ctx.touch(cc)
    crcv = cc.outarg('::updateCrc', 1)
    vals = cc.local_where(lambda k, r: k.startswith('this.m_data['))
    if crcv is None or len(vals) != 1:
        raise AnalysisBroken('C11.R2: calcCrc accumulator / symbol variable not recognised')
    value = vals[0]
    init = [rhs for nid, d, rhs, op, lhs in cc.assignments() if op == 'init' and d and d.endswith(':' + crcv)]
    ctx.ob('C11.R2', cc, cc.body, bool(init) and cc.val(init[0]) == 0, 'calcCrc initial value',
           'initial CRC %s' % (cc.val(init[0]) if init else None), nontrivial=False)
    calls = cc.calls('ebusd::SymbolString::updateCrc', suffix=False)
    if len(calls) < 3:
        raise AnalysisBroken('C11.R2: calcCrc no longer calls updateCrc on three arms')
    arms = {}
    for c in sorted(calls, key=lambda c: cc.pos(c)):
        atoms = dict((a[0], a[1]) for a in cc.atoms(c))
        e = atoms.get('(%s == #%d)' % (value, ESC))
        s = atoms.get('(%s == #%d)' % (value, SYN))
        arm = 'esc' if e else ('syn' if (e is False and s) else ('plain' if (e is False and s is False) else 'other'))
        arms.setdefault(arm, []).append(cc.key(cc.nodes[c]['args'][0]))
    want = {'esc': ['#%d' % ESC, '#0'], 'syn': ['#%d' % ESC, '#1'], 'plain': [value]}
    for arm in ('esc', 'syn', 'plain'):
        got = arms.get(arm)
        ctx.ob('C11.R2', cc, cc.body, got == want[arm], 'calcCrc arm %s' % arm, 'feeds %s, expected %s' % (got, want[arm]))
    if 'other' in arms:
        ctx.ob('C11.R2', cc, cc.body, False, 'calcCrc extra arm', 'updateCrc call under unrecognised guard: %s' % arms['other'])
    return want


def r3(ctx):
    ctx.rule('C11.R3', 'the escape table {ESC <-> ESC 00, SYN <-> ESC 01} is the same in calcCrc, parseHexEscaped, the send '
             'path (handleSend) and the receive path (handleReceive); parseHexEscaped rejects a bare SYN, any other byte '
             'after ESC and a trailing ESC; the receive path rejects any byte > 01 after ESC', minimum=8, star=True)
    fb = ctx.fb
    # --- parseHexEscaped
    fn = fb.fn('ebusd::SymbolString::parseHexEscaped')
    ctx.touch(fn)
    pushes = [c for c in fn.all('CXXMemberCallExpr') if (fn.nodes[c].get('callee') or '').endswith('::push_back')]
    vals = fn.local_where(lambda k, r: 'parseInt(' in k)
    flags = fn.local_where(lambda k, r: fn.nodes.get(fn.strip(r), {}).get('k') == 'CXXBoolLiteralExpr')
    if len(vals) != 1 or len(flags) != 1:
        raise AnalysisBroken('C11.R3: parsed byte / escape flag of parseHexEscaped not recognised (%s, %s)' % (vals, flags))
    value, inEscape = vals[0], flags[0]
    table = {}
    for c in pushes:
        atoms = dict((a[0], a[1]) for a in fn.atoms(c))
        arg = fn.key(fn.nodes[c]['args'][0])
        if atoms.get(inEscape):
            for code in (0, 1):
                if atoms.get('(%s == #%d)' % (value, code)):
                    table[code] = arg
        elif atoms.get(inEscape) is False:
            ok = atoms.get('(%s == #%d)' % (value, ESC)) is False and atoms.get('(%s == #%d)' % (value, SYN)) is False and arg == value
            ctx.ob('C11.R3', fn, c, ok, 'parseHexEscaped plain byte', 'plain byte stored only if it is neither ESC nor SYN: %s' % ok)
    ctx.ob('C11.R3', fn, fn.body, table == {0: '#%d' % ESC, 1: '#%d' % SYN}, 'parseHexEscaped escape table',
           'after ESC: %s (expected 00->ESC, 01->SYN)' % table)
    # error returns
    err_esc = fb.enumerator('ebusd::result_e', 'RESULT_ERR_ESC') if 'ebusd::result_e' in fb.enums else None
    if err_esc is None:
        for en, e in fb.enums.items():
            for x in e['enumerators']:
                if x['name'] == 'RESULT_ERR_ESC':
                    err_esc = x['v']
    rets = fn.all('ReturnStmt')
    bare_syn = other_pair = dangling = False
    for r in rets:
        rv = fn.nodes[r].get('val')
        atoms = dict((a[0], a[1]) for a in fn.atoms(r))
        k = fn.key(rv) if rv is not None else ''
        if fn.val(rv) == err_esc:
            if atoms.get(inEscape) is False and atoms.get('(%s == #%d)' % (value, SYN)):
                bare_syn = True
            if atoms.get(inEscape) and atoms.get('(%s == #0)' % value) is False and atoms.get('(%s == #1)' % value) is False:
                other_pair = True
        if k.startswith('(%s ? #%d' % (inEscape, err_esc)):
            dangling = True
    ctx.ob('C11.R3', fn, fn.body, bare_syn, 'parseHexEscaped rejects bare SYN', 'found=%s' % bare_syn)
    ctx.ob('C11.R3', fn, fn.body, other_pair, 'parseHexEscaped rejects invalid pair', 'found=%s' % other_pair)
    ctx.ob('C11.R3', fn, fn.body, dangling, 'parseHexEscaped rejects trailing ESC', 'final return tests inEscape: %s' % dangling)
    # --- handleSend
    hs = fb.fn('ebusd::DirectProtocolHandler::handleSend')
    ctx.touch(hs)
    first = second = None
    sends = [c for c in hs.all('CXXMemberCallExpr') if (hs.nodes[c].get('callee') or '').endswith('Device::send')]
    if not sends:
        raise AnalysisBroken('C11.R3: Device::send call in handleSend not found')
    sendSymbol = hs.key(hs.nodes[sends[0]]['args'][0])
    for nid, d, rhs, op, lhs in hs.assignments():
        if d and d.endswith(':' + sendSymbol) and op == '=' and rhs is not None:
            atoms = dict((a[0], a[1]) for a in hs.atoms(nid))
            if atoms.get('this.m_escape') is False and ('this.m_escape' in atoms):
                first = (nid, hs.key(rhs), atoms)
            elif atoms.get('this.m_escape'):
                second = (nid, hs.key(rhs), atoms)
    if not first or not second:
        raise AnalysisBroken('C11.R3: escape block of handleSend not recognised')
    ctx.ob('C11.R3', hs, first[0], first[1] == '#%d' % ESC, 'handleSend first escape byte', 'sends %s first' % first[1])
    want2 = ('(ebusd::symbol_t)((%s == #%d) ? #0 : #1)' % (sendSymbol, ESC), '((%s == #%d) ? #0 : #1)' % (sendSymbol, ESC),
             '(ebusd::symbol_t)((%s == #%d) ? #1 : #0)' % (sendSymbol, SYN), '((%s == #%d) ? #1 : #0)' % (sendSymbol, SYN))
    ctx.ob('C11.R3', hs, second[0], second[1] in want2, 'handleSend second escape byte', 'sends %s second' % second[1])
    alts = [('(%s == #%d)' % (sendSymbol, ESC), True), ('(%s == #%d)' % (sendSymbol, SYN), True)]
    okg = hs.needs_one_of(second[0], alts) and hs.needs_one_of(first[0], alts)
    # and conversely: a symbol that is ESC or SYN cannot reach the send call without passing one of the two assignments
    conv = True
    for sc in sends:
        for k, p in alts:
            for (b, j) in hs.edges_with_atom(k, p):
                tgt = hs.blocks[b].succs[j]
                if hs.reaches_point(tgt, hs.pos(sc), {first[0], second[0]}):
                    conv = False
    ctx.ob('C11.R3', hs, second[0], okg and conv, 'handleSend escape condition',
           'escape assignments only for ESC/SYN: %s; ESC/SYN never reach send() unescaped: %s' % (okg, conv))
    # the pending symbol must be remembered
    rem = [hs.key(rhs) for nid, d, rhs, op, lhs in hs.assignments() if d == 'this.m_escape' and rhs is not None]
    ctx.ob('C11.R3', hs, first[0], sendSymbol in rem, 'handleSend remembers escaped symbol', 'm_escape := %s' % rem)
    # --- handleReceive
    hr = fb.fn('ebusd::DirectProtocolHandler::handleReceive')
    ctx.touch(hr)
    # the mapping 00 -> A9, 01 -> AA is decided by evaluating the unescape assignment(s), whatever form they take
    import rules.C01 as _c01
    _c01.unescape_rule(ctx, 'C11.R3')


def nibble(fn, nid):
    """(mask, shift) of an expression (addr & M) >> S, or None"""
    s = fn.strip(nid, casts=True)
    v = fn.nodes.get(s, {})
    sh = 0
    if v.get('k') == 'BinaryOperator' and v.get('op') == '>>':
        sh = fn.val(v['rhs'])
        s = fn.strip(v['lhs'], casts=True)
        v = fn.nodes.get(s, {})
    if v.get('k') == 'BinaryOperator' and v.get('op') == '&':
        m = fn.val(v['rhs'])
        other = v['lhs']
        if m is None:
            m = fn.val(v['lhs'])
            other = v['rhs']
        if m is not None and fn.key(fn.strip(other, casts=True)) == fn.P(0):
            return (m, sh)
    return None


def r4(ctx):
    ctx.mark('address-classes', 'C11.R4')
    ctx.rule('C11.R4', 'getMasterPartIndex maps exactly {0:1, 1:2, 3:3, 7:4, F:5} (everything else 0); isMaster requires both '
             'nibbles (addr&0x0F and (addr&0xF0)>>4) to be master parts; getMasterNumber = 5*(part(low)-1)+part(high); the '
             'slave address is master+5 and getMasterAddress/isSlaveMaster subtract 5; isValidAddress excludes SYN and ESC '
             '(and BROADCAST unless allowed). Derived from the extracted tables: 25 masters, numbers form a bijection '
             'onto 1..25, no master+5 is SYN/ESC', minimum=8, star=True)
    fb = ctx.fb
    fn = fb.fn('ebusd::getMasterPartIndex')
    ctx.touch(fn)
    table = {}
    default = None
    for b in fn.blocks.values():
        if not b.label:
            continue
        # the return reached from this label
        r = None
        for e in b.elems:
            if fn.nodes[e]['k'] == 'ReturnStmt':
                r = e
        if r is None:
            continue
        val = fn.val(fn.nodes[r].get('val'))
        if b.label['kind'] == 'case':
            table[b.label.get('v')] = val
        elif b.label['kind'] == 'default':
            default = val
    want = {0: 1, 1: 2, 3: 3, 7: 4, 15: 5}
    ctx.ob('C11.R4', fn, fn.body, table == want and default == 0, 'getMasterPartIndex table',
           'table %s default %s' % (sorted(table.items()), default))
    # isMaster
    im = fb.fn('ebusd::isMaster')
    ctx.touch(im)
    calls = im.calls('ebusd::getMasterPartIndex', suffix=False)
    nibs = sorted(n for n in (nibble(im, im.nodes[c]['args'][0]) for c in calls) if n)
    if len(calls) != 2 or len(nibs) != 2:
        raise AnalysisBroken('C11.R4: isMaster shape not recognised')
    ctx.ob('C11.R4', im, im.body, nibs == [(15, 0), (240, 4)], 'isMaster nibbles', 'nibble extraction %s' % nibs)
    rets = im.all('ReturnStmt')
    rk = im.key(im.nodes[rets[0]]['val']) if rets else ''
    conj = '&&' in rk and '||' not in rk and rk.count('> #0') + rk.count('!= #0') == 2
    ctx.ob('C11.R4', im, rets[0] if rets else im.body, conj, 'isMaster conjunction', 'both nibbles must be master parts: %s' % rk)
    # getMasterNumber
    mn = fb.fn('ebusd::getMasterNumber')
    ctx.touch(mn)
    defs = {}
    for nid, d, rhs, op, lhs in mn.assignments():
        if op == 'init' and rhs is not None:
            c = mn.nodes.get(mn.strip(rhs, casts=True), {})
            if (c.get('callee') or '') == 'ebusd::getMasterPartIndex':
                defs[d.split(':')[-1]] = nibble(mn, c['args'][0])
    final = [r for r in mn.all('ReturnStmt') if mn.val(mn.nodes[r].get('val')) is None]
    fk = mn.key(mn.nodes[final[0]]['val']) if final else ''
    lo = [k for k, v in defs.items() if v == (15, 0)]
    hi = [k for k, v in defs.items() if v == (240, 4)]
    okn = bool(lo and hi) and fk in ('((#5 * (%s - #1)) + %s)' % (lo[0], hi[0]), '(%s + (#5 * (%s - #1)))' % (hi[0], lo[0]))
    ctx.ob('C11.R4', mn, final[0] if final else mn.body, okn, 'getMasterNumber formula', 'number = %s with %s' % (fk, defs))
    # 0 for an address with a nibble that is no master part: decided by evaluating the function (however its tests are grouped)
    import tinyeval as _te
    part_fn = fb.fn('ebusd::getMasterPartIndex')
    nz = []
    try:
        for a_ in range(256):
            m_ = _te.Machine(mn, {}, [a_])
            m_.free = {'ebusd::getMasterPartIndex': lambda x_: _te.run(part_fn, {}, [x_ & 0xff])}
            got_ = m_.call()
            is_m = (a_ & 0x0f) in (0, 1, 3, 7, 15) and ((a_ & 0xf0) >> 4) in (0, 1, 3, 7, 15)
            if not is_m and got_ != 0:
                nz.append('%02x' % a_)
    except (_te.Unknown, _te.OutOfBounds) as e_:
        raise AnalysisBroken('C11.R4: getMasterNumber not evaluable (%s)' % e_)
    ctx.ob('C11.R4', mn, mn.body, not nz, 'getMasterNumber non-master', 'evaluates to 0 for all 231 non-master addresses: %s%s' % (not nz, '' if not nz else ' (not for %s)' % ', '.join(nz[:5])),
           nontrivial=False)
    # +-5
    def offset_of(fname, expect, what):
        f = fb.fn(fname)
        ctx.touch(f)
        offs = set()
        addr = f.P(0)
        for nid, v in f.nodes.items():
            if v['k'] == 'BinaryOperator' and v.get('op') in ('+', '-') and addr in f.key(nid):
                full = nid
                # climb to the largest arithmetic expression
                p = f.parent(full)
                while p is not None and f.nodes[p]['k'] in ('BinaryOperator', 'ParenExpr', 'ImplicitCastExpr') and \
                        f.nodes[p].get('op', '+') in ('+', '-'):
                    full = p
                    p = f.parent(p)
                k = f.key(full)
                tot = 0
                ok = True
                import re
                terms = re.findall(r'([+-]) #(\d+)', k)
                if terms:
                    tot = sum(int(n) if s == '+' else -int(n) for s, n in terms) % 256
                    offs.add(tot)
        ctx.ob('C11.R4', f, f.body, offs == {expect % 256}, what, 'address offset(s) mod 256: %s, expected %d' % (sorted(offs), expect % 256))
        # the +-5 mapping is total modulo 256 (master FF <-> slave 04 wraps around): no magnitude test on the address
        rel = []
        for nid, v in sorted(f.nodes.items()):
            if v['k'] == 'BinaryOperator' and v.get('op') in ('<', '>', '<=', '>='):
                if addr in (f.key(f.strip(v['lhs'], casts=True)), f.key(f.strip(v['rhs'], casts=True))):
                    rel.append(f.text(nid))
        ctx.ob('C11.R4', f, f.body, not rel, what + ' is total (wraps modulo 256)',
               'magnitude test(s) on the address exclude the wrapping pair FF/04: %s' % rel if rel else 'no magnitude test on the address')
    offset_of('ebusd::getSlaveAddress', 5, 'slave = master + 5')
    offset_of('ebusd::getMasterAddress', -5, 'master = slave - 5')
    offset_of('ebusd::isSlaveMaster', -5, 'isSlaveMaster tests addr - 5')
    # isValidAddress
    iv = fb.fn('ebusd::isValidAddress')
    ctx.touch(iv)
    rets = iv.all('ReturnStmt')
    rk = iv.key(iv.nodes[rets[0]]['val']) if rets else ''
    dnf = facts.implied(iv, iv.nodes[rets[0]]['val'], True) if rets else []
    excl = set()
    okb = False
    for conj in dnf:
        ks = set(facts.atom_key(iv, a) for a in conj)
        e = set(k for k, p in ks if not p)
        excl = e if not excl else (excl & e)
    addr, allowB = iv.P(0), iv.P(1)
    okv = ('(%s == #%d)' % (addr, SYN)) in excl and ('(%s == #%d)' % (addr, ESC)) in excl
    # broadcast handling: one disjunct with allowBroadcast true, one with addr != BROADCAST
    okb = any((allowB, True) in set(facts.atom_key(iv, a) for a in c) for c in dnf) and \
        any(('(%s == #%d)' % (addr, BROADCAST), False) in set(facts.atom_key(iv, a) for a in c) for c in dnf) and len(dnf) == 2
    ctx.ob('C11.R4', iv, rets[0] if rets else iv.body, okv and okb, 'isValidAddress exclusions',
           'always excluded: %s; broadcast only when allowed: %s' % (sorted(excl), okb))
    # derived facts from the extracted tables (pure arithmetic on the tables, no ebusd code is run)
    parts = {k: v for k, v in table.items() if v}
    masters = [a for a in range(256) if (a & 15) in parts and (a >> 4) in parts]
    nums = sorted(5 * (parts[a & 15] - 1) + parts[a >> 4] for a in masters)
    ctx.ob('C11.R4', fn, fn.body, len(masters) == 25 and nums == list(range(1, 26)), 'derived: 25 masters, bijective numbering',
           '%d masters, numbers %s..%s distinct=%s' % (len(masters), nums[:1], nums[-1:], len(set(nums)) == len(nums)))
    bad = [a for a in masters if (a + 5) % 256 in (SYN, ESC) or ((a + 5) % 256) in masters]
    ctx.ob('C11.R4', fn, fn.body, not bad, 'derived: master+5 is a plain slave address', 'conflicts: %s' % bad)


def crc_start_rule(ctx, rid):
    ctx.rule(rid, 'the CRC of every message part starts from 0: each transition of handleReceive that (re-)enters a part from '
             'another state than ready (the command again after a NAK, the response after the command, the response again '
             'after a NAK) either passes an explicit m_crc = 0 on every path from its case label, or setState() clears the '
             'CRC on every path for that target state; in ready the CRC already holds the first symbol', minimum=6)
    import rules.automaton as A
    fb = ctx.fb
    fn, sw, regs, edges, rmap = A.extracted_edges(fb)
    states, _ = A.bus_states(fb)
    inv = {v: k for k, v in states.items()}
    ss = fb.fn(A.SS)
    ctx.touch(fn)
    ctx.touch(ss)
    sets = [nid for nid, d, rhs, op, lhs in ss.assignments() if d == 'this.m_state']
    crc0s = set(nid for nid, d, rhs, op, lhs in ss.assignments() if d == 'this.m_crc' and rhs is not None and ss.val(rhs) == 0)
    if len(sets) != 1:
        raise AnalysisBroken('%s: expected one assignment to m_state in setState' % rid)
    sp = ss.pos(sets[0])

    def setstate_clears(target):
        cut = ss.edges_with_atom('(%s == #%d)' % (ss.P(0), inv[target]), False)
        return bool(crc0s) and not ss.reaches_point(sp[0], (ss.exit, 0), crc0s, start_idx=sp[1] + 1, cut_edges=cut)
    z = set(nid for nid, d, rhs, op, lhs in fn.assignments() if d == 'this.m_crc' and rhs is not None and fn.val(rhs) == 0)
    n = 0
    for e in edges:
        tgt = [t for t in e['to'] if t in ('bs_recvCmd', 'bs_sendCmd', 'bs_recvRes', 'bs_sendRes')]
        if not tgt or len(e['from']) != 1 or e['from'][0] == 'bs_ready':
            continue
        n += 1
        lab = sw['labels'][inv[e['from'][0]]]
        explicit = not fn.reaches_point(lab, fn.pos(e['node']), z)
        by_ss = all(setstate_clears(t) for t in e['to'])
        ctx.ob(rid, fn, e['node'], explicit or by_ss, '%s -> %s [%s]' % (e['from'][0].replace('bs_', ''), '|'.join(t.replace('bs_', '') for t in e['to']), e['result']),
               'explicit m_crc = 0 on every path: %s; cleared by setState for the target: %s' % (explicit, by_ss))
    if n < 6:
        raise AnalysisBroken('%s: only %d part (re-)entries found' % (rid, n))


def r9(ctx):
    ctx.rule('C11.R9', 'the CRC of a symbol string is a function of its symbols: SymbolString::calcCrc and updateCrc write nothing '
             'but their own locals and the CRC they are handed - no data member (a memoised CRC is stale as soon as one of the '
             'places that change the symbols forgets to invalidate it; adjustHeader writes the length byte directly)', minimum=2)
    fb = ctx.fb
    n = 0
    for name in ('ebusd::SymbolString::calcCrc', 'ebusd::SymbolString::updateCrc'):
        fn = fb.fn(name)
        ctx.touch(fn)
        n += 1
        w = sorted(set(fn.key(lhs) for nid, d, rhs, op, lhs in fn.assignments() if lhs is not None and fn.key(lhs).startswith('this.')))
        early = [r for r in fn.all('ReturnStmt') if fn.nodes[r].get('val') is not None and fn.key(fn.nodes[r]['val']).startswith('this.m_')]
        ok = not w and not early
        ctx.ob('C11.R9', fn, fn.body, ok, '%s keeps no state' % name.split('::')[-1],
               'writes no data member and returns no stored value: %s%s' % (ok, '' if ok else ' (%s)' % ', '.join(w + [fn.key(fn.nodes[r]['val']) for r in early])))


def r10(ctx):
    ctx.rule('C11.R10', 'only masters have a master number: getMasterNumber, evaluated from its typed AST for all 256 addresses (with '
             'getMasterPartIndex evaluated the same way), is 0 for every address that is not one of the 25 masters and numbers '
             'the masters 1..25 without repetition - a number handed to a non-master collides with that of a real master in the '
             'message keys and the AUTO-SYN interval', minimum=1)
    import tinyeval
    fb = ctx.fb
    fn = fb.fn('ebusd::getMasterNumber')
    part = fb.fn('ebusd::getMasterPartIndex')
    ctx.touch(fn)
    ctx.touch(part)
    parts = {0x0: 1, 0x1: 2, 0x3: 3, 0x7: 4, 0xF: 5}
    bad = []
    seen = {}
    try:
        def pidx(x):
            return tinyeval.run(part, {}, [x & 0xff])
        for a in range(256):
            m = tinyeval.Machine(fn, {}, [a])
            m.free = {'ebusd::getMasterPartIndex': pidx}
            got = m.call()
            master = (a & 0x0f) in parts and ((a & 0xf0) >> 4) in parts
            if master:
                if not (1 <= got <= 25) or got in seen:
                    bad.append('master %02x has number %s%s' % (a, got, ' like %02x' % seen[got] if got in seen else ''))
                seen[got] = a
            elif got != 0 and len(bad) < 4:
                bad.append('%02x is no master but has number %s' % (a, got))
    except (tinyeval.Unknown, tinyeval.OutOfBounds) as e:
        raise AnalysisBroken('C11.R10: getMasterNumber not evaluable (%s)' % e)
    ctx.ob('C11.R10', fn, fn.body, not bad, 'master numbers of all 256 addresses', '0 for non-masters, 1..25 once each for masters: %s%s' % (
        not bad, '' if not bad else ' - ' + '; '.join(bad[:4])))


def run(ctx):
    r10(ctx)
    r9(ctx)
    import rules.common as _cm
    ctx.rule('C11.R8', "a value is compared with a constant in the domain of its own type: in the sources of this property every comparison of a variable, member, element or call result with an integer constant (==, !=) has the constant inside the value range of the operand's own integer type before promotion - a symbol held in a signed char never equals 0xA9/0xAA/0xFE, so the escape, SYN or broadcast test behind it is dead for exactly the symbols it exists for", minimum=10)
    _cm.compare_domain_rule(ctx, 'C11.R8', lambda f: f.relfile.startswith(('src/lib/ebus/symbol.',)), 10)
    crc_start_rule(ctx, 'C11.R6')
    r1(ctx)
    r2(ctx)
    r3(ctx)
    r4(ctx)
    import rules.C01 as c01
    ctx.borrow(c01.r4, {'C01.R4': 'C11.R5'},
               'the CRC is defined over the escaped sequence: in the protocol handler the received symbol enters the CRC '
               'before it is unescaped, and in exactly the data states')
    import rules.C01 as _c01
    _c01.unescape_rule(ctx, 'C11.R7')
