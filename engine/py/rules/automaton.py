"""extraction of the bus state machine of DirectProtocolHandler from the clang CFG (no execution):
per-state regions of the main `switch (m_state)` in handleReceive / handleSend and every setState() call with its
source states, target, result class, repetition flag and the guard atoms it sits under."""
import facts
from facts import AnalysisBroken

HR = 'ebusd::DirectProtocolHandler::handleReceive'
HS = 'ebusd::DirectProtocolHandler::handleSend'
SS = 'ebusd::DirectProtocolHandler::setState'


def bus_states(fb):
    for name, e in fb.enums.items():
        names = [x['name'] for x in e['enumerators']]
        if 'bs_noSignal' in names and 'bs_sendSyn' in names:
            return {x['v']: x['name'] for x in e['enumerators']}, name
    raise AnalysisBroken('enum BusState not found')


def result_names(fb):
    for name, e in fb.enums.items():
        names = [x['name'] for x in e['enumerators']]
        if 'RESULT_OK' in names and 'RESULT_ERR_CRC' in names:
            return {x['v']: x['name'] for x in e['enumerators']}
    raise AnalysisBroken('enum result_t not found')


def state_switches(fn):
    """switch statements on this.m_state: list of (switch node, terminator block id, {state value: label block id})"""
    out = []
    for b in fn.blocks.values():
        if b.tk != 'SwitchStmt' or b.cond is None:
            continue
        if fn.key(b.cond) not in ('this.m_state', '(int)this.m_state'):
            continue
        labels = {}
        default = None
        # labels can sit on blocks deeper than the direct successors (case A: case B:)
        for x in [s for s in b.succs if s is not None]:
            lb = fn.blocks[x].label
            if lb and lb.get('kind') == 'case' and 'v' in lb:
                labels[lb['v']] = x
            elif lb and lb.get('kind') == 'default':
                default = x
        out.append({'term': b.term, 'block': b.id, 'labels': labels, 'default': default})
    return out


def main_switch(fn, min_labels=10):
    sw = [s for s in state_switches(fn) if len(s['labels']) >= min_labels]
    if len(sw) != 1:
        raise AnalysisBroken('%s: expected exactly one full switch (m_state), found %d' % (fn.name, len(sw)))
    return sw[0]


def regions(fn, sw):
    """state value -> set of blocks reachable from its case label without entering another label of the same switch
    through the switch head (fall-through into following labels is followed)"""
    res = {}
    # blocks of the switch statement body only: everything reachable from the labels but not through the switch exit
    # (cases `break` to the statement after the switch; that join block is shared and not part of a region)
    exits = set()
    # join block: first block reachable from every label region that is outside the switch body; approximate by the
    # blocks whose statements are not descendants of the switch node
    body_nodes = set(fn.walk(sw['term'])) if sw['term'] is not None else set()
    def in_body(bid):
        blk = fn.blocks[bid]
        if blk.label:
            return True
        for e in blk.elems:
            if e in body_nodes:
                return True
            return False
        # empty block: belongs if its terminator is in body
        return blk.term in body_nodes if blk.term is not None else False
    for val, lb in sw['labels'].items():
        seen = set()
        stack = [lb]
        while stack:
            x = stack.pop()
            if x in seen:
                continue
            if not in_body(x) and x != lb:
                continue
            seen.add(x)
            for s in fn.blocks[x].succs:
                if s is not None and s not in seen:
                    stack.append(s)
        res[val] = seen
    return res


def setstate_calls(fb, fn, sw=None, regs=None):
    """every setState(...) call of fn with source states, target, result, repetition flag, guards"""
    states, _ = bus_states(fb)
    rn = result_names(fb)
    out = []
    for c in fn.calls(SS, suffix=False):
        v = fn.nodes[c]
        args = v.get('args', [])
        blk = fn.block_of(c)
        src = []
        if sw and regs:
            for val, reg in regs.items():
                if blk in reg:
                    src.append(val)
        # target
        t = fn.nodes.get(fn.strip(args[0], casts=True), {})
        if t.get('k') == 'ConditionalOperator':
            targets = [fn.val(t['then']), fn.val(t['else'])]
            tcond = fn.key(t['cond'])
        elif fn.val(args[0]) is not None:
            targets = [fn.val(args[0])]
            tcond = None
        else:
            targets = [fn.key(args[0])]
            tcond = None
        # result
        rv = fn.val(args[1]) if len(args) > 1 else None
        r = fn.nodes.get(fn.strip(args[1], casts=True), {}) if len(args) > 1 else {}
        if rv is not None:
            res = rn.get(rv, str(rv))
        elif r.get('k') == 'ConditionalOperator':
            res = 'cond(%s,%s)' % (rn.get(fn.val(r['then']), fn.key(r['then'])), rn.get(fn.val(r['else']), fn.key(r['else'])))
        else:
            res = fn.key(args[1]) if len(args) > 1 else '?'
        first = False
        if len(args) > 2:
            a2 = fn.nodes.get(fn.strip(args[2]), {})
            first = bool(fn.val(args[2])) if a2.get('k') != 'CXXDefaultArgExpr' else False
        # guards: relative to the case label for calls inside a single-state region, else global
        guards = []
        if len(src) == 1 and sw:
            guards = [(a[0], a[1]) for a in fn.atoms(c, frm=sw['labels'][src[0]])]
        elif src and sw:
            # several source states (shared code of fall-through labels): guards from the first label reaching it
            common = None
            for sv in src:
                g = set((a[0], a[1]) for a in fn.atoms(c, frm=sw['labels'][sv]))
                common = g if common is None else (common & g)
            guards = sorted(common or [])
        else:
            guards = [(a[0], a[1]) for a in fn.atoms(c)]
        out.append({'node': c, 'line': fn.line_of(c), 'src': sorted(src), 'targets': targets, 'tcond': tcond,
                    'result': res, 'first': first, 'guards': guards,
                    'returned': fn.nodes.get(fn.parent(c), {}).get('k') == 'ReturnStmt' or
                    any(fn.nodes[a]['k'] == 'ReturnStmt' for a in list(fn.ancestors(c))[:3])})
    return out


def describe(fb, calls):
    states, _ = bus_states(fb)
    lines = []
    for e in calls:
        src = ','.join(states.get(s, str(s)).replace('bs_', '') for s in e['src']) or 'prelude'
        tg = '|'.join(states.get(t, str(t)).replace('bs_', '') if isinstance(t, int) else str(t) for t in e['targets'])
        lines.append('L%d %s -> %s [%s%s] %s' % (e['line'], src, tg, e['result'], ',1st' if e['first'] else '',
                                                ' & '.join(('' if p else '!') + k for k, p in e['guards'])))
    return lines


# ---------------------------------------------------------------------------
import json
import os
import re

SPEC = os.path.join(facts.VERIF, 'engine', 'spec', 'bus_automaton.json')
CONST_NAMES = [('#170', 'SYN'), ('#169', 'ESC'), ('#254', 'BROADCAST'), ('#255', 'NAK')]


def role_map(fn):
    """actual local/parameter names of handleReceive -> role names used by the reference automaton, so that a
    rename of a local does not change the comparison"""
    m = {}
    if len(fn.params) >= 3:
        m[fn.params[1]['name']] = 'sending'
        m[fn.params[2]['name']] = 'sentSymbol'
        m[fn.params[0]['name']] = 'timeout'
    for c in fn.all('CXXMemberCallExpr'):
        v = fn.nodes[c]
        if (v.get('callee') or '').endswith('Device::recv') and len(v.get('args', [])) >= 2:
            a = fn.nodes.get(fn.strip(v['args'][1]), {})
            if a.get('k') == 'UnaryOperator' and a.get('op') == '&':
                nm = fn.key(a['ch'][0])
                m.setdefault(nm, 'recvSymbol')
            # result variable
            for nid, d, rhs, op, lhs in fn.assignments():
                if rhs is not None and fn.strip(rhs) == c and d:
                    m.setdefault(d.split(':')[-1], 'result')
    return m


def canon(key, rmap):
    for a, b in rmap.items():
        if a != b:
            key = re.sub(r'(?<![\w.])%s(?![\w(])' % re.escape(a), b, key)
    for a, b in CONST_NAMES:
        key = key.replace(a, b)
    key = key.replace('(recvSymbol == #0)', '(recvSymbol == ACK)')
    return key


def extracted_edges(fb):
    fn = fb.fn(HR)
    sw = main_switch(fn)
    regs = regions(fn, sw)
    calls = setstate_calls(fb, fn, sw, regs)
    states, _ = bus_states(fb)
    rmap = role_map(fn)
    out = []
    for e in calls:
        e = dict(e)
        e['from'] = [states[s] for s in e['src']]
        e['to'] = [states.get(t, t) if isinstance(t, int) else canon(t, rmap) for t in e['targets']]
        e['result'] = canon(e['result'], rmap)
        e['guards'] = [(canon(k, rmap), p) for k, p in e['guards']]
        out.append(e)
    return fn, sw, regs, out, rmap


def compare(ctx, rid, from_states, fb=None):
    """containment of the extracted edges whose source state is in from_states in the reference relation, and
    existence of every reference edge of those states"""
    fb = fb or ctx.fb
    fn, sw, regs, edges, rmap = extracted_edges(fb)
    ctx.touch(fn)
    with open(SPEC) as fh:
        spec = json.load(fh)['edges']
    spec = [s for s in spec if set(s['from']) & set(from_states)]
    used = set()
    n = 0
    for e in edges:
        if not e['from'] or not (set(e['from']) & set(from_states)):
            continue
        n += 1
        cands = [i for i, s in enumerate(spec) if s['from'] == e['from'] and s['to'] == e['to'] and
                 s['result'] == e['result'] and bool(s['first']) == bool(e['first'])]
        construct = '%s -> %s [%s%s]' % ('+'.join(x.replace('bs_', '') for x in e['from']),
                                         '|'.join(str(x).replace('bs_', '') for x in e['to']), e['result'],
                                         ',first repetition' if e['first'] else '')
        g = set(e['guards'])
        best = None
        for i in cands:
            missing = [tuple(r) for r in spec[i]['require'] if tuple(r) not in g]
            if best is None or len(missing) < len(best[1]):
                best = (i, missing)
        if best is None:
            ctx.ob(rid, fn, e['node'], False, 'transition ' + construct,
                   'this transition (under %s) is not part of the reference automaton' %
                   (' & '.join(('' if p else '!') + k for k, p in e['guards']) or 'no guard'))
            continue
        # an edge may match several reference rows with the same signature: prefer an unused full match
        full = [i for i in cands if all(tuple(r) in g for r in spec[i]['require'])]
        pick = None
        for i in full:
            if i not in used:
                pick = i
                break
        if pick is None and full:
            pick = full[0]
        if pick is not None:
            used.add(pick)
            ctx.ob(rid, fn, e['node'], True, 'transition ' + construct, 'allowed; guards %s' %
                   (' & '.join(('' if p else '!') + k for k, p in spec[pick]['require']) or '-'))
        else:
            used.add(best[0])
            ctx.ob(rid, fn, e['node'], False, 'transition ' + construct,
                   'guard(s) missing: %s' % ' & '.join(('' if p else '!') + k for k, p in best[1]))
    for i, s in enumerate(spec):
        if i not in used:
            ctx.ob(rid, fn, fn.body, False, 'required transition %s -> %s [%s]' % (
                '+'.join(x.replace('bs_', '') for x in s['from']), '|'.join(str(x).replace('bs_', '') for x in s['to']), s['result']),
                'the reference automaton requires this transition (guards %s) but the code no longer has it' %
                (' & '.join(('' if p else '!') + k for k, p in s['require']) or '-'))
    return n
