"""C05 - decoding yields the specified value (tables and guards).

C05.R1 (core) built-in type table == reference table, plus internal invariants of every row
C05.R2 (core) BCD/HCD digit guards dominate every digit conversion / accumulation
C05.R3        range check before formatting
C05.R4        replacement value is formatted as null, never as a number
C05.R5        date/time field guards
"""
import json
import os

import facts
from facts import AnalysisBroken
import rules.typetable as T

SPEC = os.path.join(facts.VERIF, 'engine', 'spec', 'datatypes.json')


def r1(ctx):
    ctx.mark('type-table', 'C05.R1')
    ctx.rule('C05.R1', 'every built-in data type row (id, bit count, flags, replacement, min, max / first bit, divisor, '
             'date/time shape, hex) equals the reference table engine/spec/datatypes.json, no row is missing or added, and '
             'each row satisfies the invariants of its kind: widths 1..32 (strings/dates by length), bit types fit one '
             'byte, min/max/replacement fit the width, replacement outside [min,max] unless REQ, BCD maximum = '
             '10^(2*bytes)-1 on the decoded decimal value, signed ranges symmetric around the sign bit', minimum=80, star=True)
    fb = ctx.fb
    fl = T.flags(fb)
    fn, rows = T.extract(fb)
    ctx.touch(fn)
    with open(SPEC) as fh:
        spec = {t['id']: t for t in json.load(fh)['types']}
    seen = set()
    for r in rows:
        rid = r.get('id')
        seen.add(rid)
        got = {k: r[k] for k in r if k not in ('line', 'node', 'sig')}
        got['flags'] = sorted(n for n, v in fl.items() if n in T.FLAG_NAMES and r.get('flags', 0) & v)
        want = spec.get(rid)
        if want is None:
            ctx.ob('C05.R1', fn, r['node'], False, 'type row %s' % rid, 'type %s is not in the reference table' % rid,
                   status='unclassified')
            continue
        diff = {k: (got.get(k), want.get(k)) for k in set(got) | set(want) if got.get(k) != want.get(k)}
        ctx.ob('C05.R1', fn, r['node'], not diff, 'type row %s' % rid,
               'differs from the reference: %s' % ', '.join('%s is %s, specified %s' % (k, a, b) for k, (a, b) in sorted(diff.items()))
               if diff else 'equals reference')
        # invariants
        problems = invariants(got, fl)
        ctx.ob('C05.R1', fn, r['node'], not problems, 'type row %s invariants' % rid, '; '.join(problems) or 'ok')
    for rid in spec:
        if rid not in seen:
            ctx.ob('C05.R1', fn, fn.body, False, 'type row %s' % rid, 'specified type %s is no longer registered' % rid)
    # contributed type
    tem = [c for f, c in fb.call_sites('ebusd::DataTypeList::add') if f.relfile.startswith('src/lib/ebus/contrib/')]
    ctx.ob('C05.R1', None, None, len(tem) >= 1, 'contrib TEM_P registration', 'contrib registration call sites: %d' % len(tem),
           site='src/lib/ebus/contrib/tem.cpp', nontrivial=False)


def invariants(t, fl):
    p = []
    bits = t.get('bits') or 0
    flags = set(t.get('flags', []))
    cls = t['class']
    if cls == 'NumberDataType':
        if not (1 <= bits <= 32):
            p.append('bit count %s outside 1..32' % bits)
        if bits >= 8 and bits % 8:
            p.append('bit count %s is not a multiple of 8' % bits)
        if 'firstBit' in t:
            if bits >= 8 or t['firstBit'] + bits > 8 or t['firstBit'] < 0:
                p.append('bit type does not fit one byte: first bit %s + %s bits' % (t['firstBit'], bits))
            return p
        mn, mx, rp = t.get('min', 0), t.get('max', 0), t.get('replacement', 0)
        lim = (1 << bits) - 1
        nbytes = bits // 8
        if 'BCD' in flags:
            dec_max = 10 ** (2 * nbytes) - 1
            if mx != dec_max:
                p.append('BCD/HCD maximum is %s, the largest %d-digit decimal is %s' % (mx, 2 * nbytes, dec_max))
            if mn != 0:
                p.append('BCD minimum %s' % mn)
            if 'REQ' not in flags and rp != lim:
                p.append('BCD replacement %#x is a valid digit pattern' % rp)
            return p
        if mx > lim or mn > lim or rp > lim:
            p.append('min/max/replacement exceed %d bits' % bits)
        if 'EXP' in flags:
            return p
        if 'SIG' in flags:
            neg = 1 << (bits - 1)
            if mx != neg - 1:
                p.append('signed maximum %#x is not %#x' % (mx, neg - 1))
            if 'REQ' in flags:
                if mn != neg:
                    p.append('signed minimum %#x is not %#x' % (mn, neg))
            else:
                if rp != neg or mn != neg + 1:
                    p.append('signed replacement/minimum %#x/%#x are not %#x/%#x' % (rp, mn, neg, neg + 1))
        else:
            if mn > mx:
                p.append('min > max')
            if 'REQ' not in flags and mn <= rp <= mx:
                p.append('replacement %#x lies inside the value range [%#x, %#x]' % (rp, mn, mx))
    elif cls == 'DateTimeDataType':
        if bits > 32 or bits < 1:
            p.append('bit count %s' % bits)
        if not (t.get('hasDate') or t.get('hasTime')):
            p.append('neither date nor time')
        if t.get('resolution') and (60 % t['resolution'] or not t.get('hasTime')):
            p.append('resolution %s does not divide an hour' % t.get('resolution'))
        if t.get('resolution') and bits >= 8 and 24 * (60 // t['resolution']) > 255:
            p.append('truncated time does not fit')
        if t.get('resolution') and bits < 8 and 24 * (60 // t['resolution']) >= (1 << bits):
            p.append('truncated time with %d bits cannot hold 24:00 at resolution %d' % (bits, t['resolution']))
    elif cls == 'StringDataType':
        if bits % 8 or bits < 8:
            p.append('string bit count %s' % bits)
    return p


def r2(ctx):
    ctx.rule('C05.R2', 'every BCD digit-pair conversion (x>>4)*10 + (x&0x0f) is dominated by the rejections of a high nibble '
             '> 9 and a low nibble > 9, and every accumulation of a BCD/HCD digit pair into the raw value passes either those '
             'digit guards or the HCD guard x > 0x63 (or stores the replacement)', minimum=3, star=True)
    fb = ctx.fb
    n = 0
    for fn in fb.functions:
        if fn.relfile not in ('src/lib/ebus/datatype.cpp', 'src/lib/ebus/data.cpp', 'src/lib/ebus/contrib/tem.cpp'):
            continue
        for nid, v in sorted(fn.nodes.items()):
            if v['k'] != 'BinaryOperator' or v.get('op') != '+':
                continue
            l = fn.nodes.get(fn.strip(v['lhs'], casts=True), {})
            r = fn.nodes.get(fn.strip(v['rhs'], casts=True), {})
            if l.get('k') == 'BinaryOperator' and l.get('op') == '*' and fn.val(l['rhs']) == 10 and \
                    r.get('k') == 'BinaryOperator' and r.get('op') == '&' and fn.val(r['rhs']) == 15:
                ll = fn.nodes.get(fn.strip(l['lhs'], casts=True), {})
                if not (ll.get('k') == 'BinaryOperator' and ll.get('op') == '>>' and fn.val(ll['rhs']) == 4):
                    continue
                x = fn.key(fn.strip(ll['lhs'], casts=True))
                if fn.key(fn.strip(r['lhs'], casts=True)) != x:
                    continue
                n += 1
                ctx.touch(fn)
                atoms = set((a[0], a[1]) for a in fn.atoms(nid))
                hi = ('((%s & #240) <= #144)' % x, True) in atoms
                lo = ('((%s & #15) <= #9)' % x, True) in atoms
                ctx.ob('C05.R2', fn, nid, hi and lo, 'BCD conversion of %s' % x,
                       'high nibble checked: %s, low nibble checked: %s' % (hi, lo))
    # accumulation in NumberDataType::readRawValue
    fn = fb.fn('ebusd::NumberDataType::readRawValue')
    ctx.touch(fn)
    outp = fn.P(3)
    accs = [nid for nid, d, rhs, op, lhs in fn.assignments() if op == '+=' and lhs is not None and fn.key(lhs) == '*' + outp]
    if not accs:
        raise AnalysisBroken('C05.R2: decimal accumulation in NumberDataType::readRawValue not found')
    sym_defs = [(nid, d.split(':')[-1]) for nid, d, rhs, op, lhs in fn.assignments() if d and rhs is not None and
                'dataAt' in fn.key(rhs)]
    if not sym_defs:
        raise AnalysisBroken('C05.R2: symbol read in NumberDataType::readRawValue not found')
    sym = sym_defs[0][1]
    for a in accs:
        frm = fn.block_of(sym_defs[0][0])
        ok = fn.needs_one_of(a, [('((%s & #15) <= #9)' % sym, True), ('(%s <= #99)' % sym, True)], frm=frm)
        n += 1
        ctx.ob('C05.R2', fn, a, ok, 'digit pair accumulation', 'every path from reading the symbol to the accumulation passes a '
               'digit guard: %s' % ok)
    if n < 3 and not ctx.violated('C05.R2'):
        raise AnalysisBroken('C05.R2: only %d digit conversion sites recognised' % n)


def numeric_insertions(fn, stream=None):
    import rules.C12 as c12
    if stream is None:
        sp = [p['name'] for p in fn.params if 'ostream' in p.get('t', '')]
        stream = sp[0] if sp else 'output'
    out = []
    for nid, v in sorted(fn.nodes.items()):
        if v['k'] == 'CXXOperatorCallExpr' and v.get('op') == '<<' and len(v.get('args', [])) == 2 and \
                (v.get('cls') or '').startswith('std::basic_ostream'):
            root = c12.stream_root(fn, nid)
            if fn.key(root) not in (stream, '*' + stream):
                continue
            a = fn.nodes[fn.strip(v['args'][1])]
            sig = v.get('sig', '')
            par = sig[sig.find('(') + 1:sig.rfind(')')]
            if par in ('int', 'unsigned int', 'long', 'unsigned long', 'float', 'double', 'short', 'unsigned short'):
                if 'v' in a:
                    continue
                out.append(nid)
    return out


def r3(ctx):
    ctx.rule('C05.R3', 'in readFromRawValue every insertion of a number into the output, and in getFloatFromRawValue every '
             'store to *output, is reached only after checkValueRange(value) returned OK (or with the explicit '
             'skipRangeCheck used for printing the configured min/max/step); every caller of readFromRawValue from a '
             'decode path leaves skipRangeCheck false', minimum=6)
    fb = ctx.fb
    fn = fb.fn('ebusd::NumberDataType::readFromRawValue')
    ctx.touch(fn)
    ret_defs = [d for nid, d, rhs, op, lhs in fn.assignments() if rhs is not None and 'checkValueRange(' in fn.key(rhs)]
    if not ret_defs:
        raise AnalysisBroken('C05.R3: checkValueRange call not found in readFromRawValue')
    rname = ret_defs[0].split(':')[-1]
    for i in numeric_insertions(fn):
        ok = fn.needs_one_of(i, [(fn.P(3), True), ('(%s == #0)' % rname, True)])
        ctx.ob('C05.R3', fn, i, ok, 'numeric insertion %s' % fn.key(fn.nodes[i]['args'][1]),
               'reached only after range check OK or explicit skip: %s' % ok)
    g = fb.fn('ebusd::NumberDataType::getFloatFromRawValue')
    ctx.touch(g)
    gret = [d for nid, d, rhs, op, lhs in g.assignments() if rhs is not None and 'checkValueRange(' in g.key(rhs)]
    gname = gret[0].split(':')[-1] if gret else 'ret'
    for nid, d, rhs, op, lhs in g.assignments():
        if lhs is not None and g.key(lhs) == '*' + g.P(1):
            atoms = set((a[0], a[1]) for a in g.atoms(nid))
            ok = ('(%s == #0)' % gname, True) in atoms
            ctx.ob('C05.R3', g, nid, ok, 'float result store', 'dominated by range check OK: %s' % ok)
    # callers
    for f, c in fb.call_sites('ebusd::NumberDataType::readFromRawValue'):
        v = f.nodes[c]
        args = v.get('args', [])
        skip = f.val(args[3]) if len(args) > 3 else 0
        skipnode = f.nodes.get(f.strip(args[3]), {}) if len(args) > 3 else {}
        if skipnode.get('k') == 'CXXDefaultArgExpr':
            skip = 0
        okc = (skip == 0) or f.name in ('ebusd::NumberDataType::getMinMax', 'ebusd::NumberDataType::getStep')
        ctx.ob('C05.R3', f, c, okc, 'readFromRawValue call from %s' % f.name.split('::')[-1], 'skipRangeCheck=%s' % skip,
               nontrivial=False)


def r4(ctx):
    ctx.rule('C05.R4', 'when the raw value equals the type\'s replacement (and the type is not REQ) readFromRawValue prints '
             'null / "-" and returns: no numeric insertion is reachable from that branch; getFloatFromRawValue returns '
             'RESULT_EMPTY there', minimum=2)
    fb = ctx.fb
    for name in ('ebusd::NumberDataType::readFromRawValue', 'ebusd::NumberDataType::getFloatFromRawValue'):
        fn = fb.fn(name)
        ctx.touch(fn)
        edges = fn.edges_with_atom('(%s == this.m_replacement)' % fn.P(0), True)
        if not edges:
            raise AnalysisBroken('C05.R4: replacement test not found in %s' % name)
        okall = True
        why = []
        for (b, j) in edges:
            # the REQ test must precede
            atoms = set((a[0], a[1]) for a in fn.atoms(block=b))
            if ('this.hasFlag(#64)', False) not in atoms:
                okall = False
                why.append('replacement test not restricted to non-REQ types')
            tgt = fn.blocks[b].succs[j]
            region = fn.reach([tgt])
            if name.endswith('readFromRawValue'):
                for i in numeric_insertions(fn):
                    if fn.block_of(i) in region:
                        okall = False
                        why.append('numeric insertion at line %d reachable for the replacement value' % fn.line_of(i))
            else:
                for nid, d, rhs, op, lhs in fn.assignments():
                    if lhs is not None and fn.key(lhs) == '*' + fn.P(1) and fn.block_of(nid) in region:
                        okall = False
                        why.append('value stored for the replacement pattern')
        ctx.ob('C05.R4', fn, fn.body, okall, 'replacement handling in %s' % name.split('::')[-1], '; '.join(why) or 'null branch returns before any number is produced')


def r5(ctx):
    ctx.rule('C05.R5', 'DateTimeDataType::readSymbols rejects (RESULT_ERR_OUT_OF_RANGE) day > 31, month > 12, hour > 24, '
             'minute/second > 59, minutes since midnight > 24*60 and invalid BCD digits before formatting them', minimum=5)
    fb = ctx.fb
    fn = fb.fn('ebusd::DateTimeDataType::readSymbols')
    ctx.touch(fn)
    oor = None
    for e in fb.enums.values():
        for x in e['enumerators']:
            if x['name'] == 'RESULT_ERR_OUT_OF_RANGE':
                oor = x['v']
    have = set()
    for r in fn.all('ReturnStmt'):
        if fn.val(fn.nodes[r].get('val')) != oor:
            continue
        # all comparison atoms that can lead to this return (not only dominating ones): collect comparisons in the
        # condition of the enclosing if
        for a in fn.ancestors(r):
            av = fn.nodes[a]
            if av['k'] == 'IfStmt' and 'cond' in av:
                for x in fn.walk(av['cond']):
                    xv = fn.nodes[x]
                    if xv['k'] == 'BinaryOperator' and xv.get('op') in ('>', '<', '>=', '<='):
                        have.add((fn.key(xv['lhs']), xv['op'], fn.key(xv['rhs'])))
                break
    syms = fn.local_where(lambda k, r: 'dataAt(' in k)
    sym = syms[0] if syms else 'symbol'
    mins = [l for (l, o, r) in have if r == '#1440']
    mn = mins[0] if mins else 'minutes'
    want = [(sym, '>', '#31'), (sym, '>', '#12'), (sym, '>', '#24'), (sym, '>', '#59'),
            (mn, '>', '#1440'), ('(%s & #240)' % sym, '>', '#144'), ('(%s & #15)' % sym, '>', '#9'), (sym, '<', '#1')]
    for w in want:
        ctx.ob('C05.R5', fn, fn.body, w in have, 'rejects %s %s %s' % w, 'present among out-of-range guards: %s' % (w in have),
               nontrivial=False)


MJD_FLOATS = {'ebusd::DateTimeDataType::readSymbols': {15078.2: 2, 365.25: 6, 14956.1: 2, 30.6001: 4},
              'ebusd::DateTimeDataType::writeSymbols': {365.25: 2, 30.6001: 2}}
MJD_INTS = {'ebusd::DateTimeDataType::readSymbols': {14956, 15020, 54832, 1900, 2000},
            'ebusd::DateTimeDataType::writeSymbols': {14956, 15020, 54832, 1900, 2000}}


def r6(ctx):
    ctx.rule('C05.R6', 'the modified-julian-day conversions use the constants of the standard algorithm (ETSI EN 300 468 annex '
             'C): 15078.2, 365.25, 14956.1, 30.6001, 14956, and the epoch offsets 15020 (01.01.1900) and 54832 (01.01.2009); '
             'each constant is the calendar rule itself, any deviation shifts dates; the January/February adjustment applies to exactly these two months in both directions', minimum=12)
    fb = ctx.fb
    for name, want in MJD_FLOATS.items():
        fn = fb.fn(name)
        ctx.touch(fn)
        got = {}
        for x in fn.all('FloatingLiteral'):
            try:
                v = round(float(fn.nodes[x].get('fv')), 6)
            except (TypeError, ValueError):
                continue
            got[v] = got.get(v, 0) + 1
        for c, cnt in sorted(want.items()):
            ok = got.get(c, 0) >= 1
            ctx.ob('C05.R6', fn, fn.body, ok, 'constant %s in %s' % (c, name.split('::')[-1]),
                   'present %d time(s)' % got.get(c, 0), nontrivial=False)
        extra = sorted(v for v in got if v not in want and v not in (0.0, 1.0))
        ctx.ob('C05.R6', fn, fn.body, not extra, 'no other floating constant in %s' % name.split('::')[-1],
               'unexpected floating constants: %s' % extra if extra else 'none')
        ints = set(fn.nodes[x]['v'] for x in fn.all('IntegerLiteral') if fn.nodes[x].get('v', 0) > 1000)
        missing = sorted(MJD_INTS[name] - ints)
        ctx.ob('C05.R6', fn, fn.body, not missing, 'epoch constants in %s' % name.split('::')[-1],
               'missing %s' % missing if missing else 'all present')
    # every instance of the two quotients of the algorithm carries its own offset: (mjd - 15078.2) / 365.25 and
    # (mjd - 14956.1 - int(y' * 365.25)) / 30.6001 (a copy of the formula with the fraction dropped is wrong on 29 February)
    def _lits(f, x):
        out = []
        for y in f.walk(x):
            v = f.nodes[y]
            if v['k'] == 'FloatingLiteral':
                try:
                    out.append(round(float(v.get('fv')), 6))
                except (TypeError, ValueError):
                    pass
            elif v['k'] == 'IntegerLiteral' and v.get('v', 0) > 1000:
                out.append(float(v['v']))
        return out
    for name in MJD_FLOATS:
        fn = fb.fn(name)
        for x, v in sorted(fn.nodes.items()):
            if v['k'] != 'BinaryOperator' or v.get('op') != '/':
                continue
            r = fn.nodes[fn.strip(v['rhs'], casts=True)]
            if r.get('k') != 'FloatingLiteral':
                continue
            try:
                d = round(float(r.get('fv')), 6)
            except (TypeError, ValueError):
                continue
            if d == 365.25:
                offs = [c for c in _lits(fn, v['lhs']) if 15000 <= c <= 15100]
                ctx.ob('C05.R6', fn, x, offs == [15078.2], 'year quotient in %s' % name.split('::')[-1], 'offset %s, the algorithm uses 15078.2' % offs)
            elif d == 30.6001:
                offs = [c for c in _lits(fn, v['lhs']) if 14900 <= c <= 15000]
                ctx.ob('C05.R6', fn, x, offs == [14956.1], 'month quotient in %s' % name.split('::')[-1], 'offset %s, the algorithm uses 14956.1' % offs)
    # the January/February adjustment of the algorithm: encoding subtracts a year and adds 12 months exactly for months
    # 1 and 2; decoding (month index m' - 1 in 3..14) carries 13 and 14 into the next year
    import re
    cands = [f for f in fb.functions if f.relfile.endswith('lib/ebus/datatype.cpp') and f.blocks and
             any(str(f.nodes[x].get('fv')) in ('30.6001', '365.25') for x in f.all('FloatingLiteral'))]
    n = 0
    for wf in cands:
        for nid, d, rhs, op, lhs in wf.assignments():
            if op != 'init' or rhs is None or not d:
                continue
            c = wf.nodes.get(wf.strip(rhs), {})
            if c.get('k') != 'ConditionalOperator' or wf.val(c.get('then')) != 1 or wf.val(c.get('else')) != 0:
                continue
            name = d.split(':')[-1]
            used = any(re.search(r'(?<!\w)%s(?!\w)' % re.escape(name), wf.key(r2)) and '365.25' in wf.key(r2)
                       for n2, d2, r2, o2, l2 in wf.assignments() if r2 is not None)
            cv = wf.nodes.get(wf.strip(c['cond']), {})
            if not used or cv.get('k') != 'BinaryOperator' or wf.val(cv.get('rhs')) is None:
                continue
            n += 1
            k = wf.val(cv['rhs'])
            months = [m for m in range(1, 13) if {'<': m < k, '<=': m <= k, '>': m > k, '>=': m >= k, '==': m == k, '!=': m != k}[cv['op']]]
            ctx.ob('C05.R6', wf, nid, months == [1, 2], 'January/February adjustment when encoding a date',
                   'adjusts months %s (condition %s), the algorithm adjusts 1 and 2' % (months, wf.key(c['cond'])))
    m = 0
    for rf in cands:
        for nid, d, rhs, op, lhs in rf.assignments():
            if op != '-=' or rhs is None or rf.val(rhs) != 12 or not d:
                continue
            name = d.split(':')[-1]
            init = [rf.key(r2) for n2, d2, r2, o2, l2 in rf.assignments() if d2 == d and o2 == 'init' and r2 is not None]
            if not init or '30.6001' not in init[0]:
                continue
            m += 1
            carried = []
            for mm in range(3, 15):
                ok = True
                for a in rf.atoms(nid):
                    mt = re.match(r'^\(%s (<|<=|==) #(\d+)\)$' % re.escape(name), a[0])
                    if mt:
                        kk = int(mt.group(2))
                        holds = {'<': mm < kk, '<=': mm <= kk, '==': mm == kk}[mt.group(1)]
                        ok = ok and (holds == a[1])
                if ok:
                    carried.append(mm)
            ctx.ob('C05.R6', rf, nid, carried == [13, 14], 'month carry when decoding a date',
                   'month indices %s are carried into the next year, the algorithm carries 13 and 14' % carried)
    if (n < 2 or m < 1) and not any(o['rule'] in ('C05.R6', 'C06.R5') and o['status'] == 'violated' for o in ctx.obligations):
        raise AnalysisBroken('C05.R6: January/February adjustment sites not recognised (%d encode, %d decode)' % (n, m))


def r11(ctx):
    ctx.rule('C05.R11', 'exactly one 16 bit pattern of the KNX float (DPT 9) means "invalid": the condition under which uint16ToFloat '
             'returns NAN, evaluated for all 65536 patterns, holds for precisely the constant(s) that floatToUint16 emits for a '
             'value it cannot encode; every other pattern is a number (0xffff is -327.68)', minimum=1)
    import tinyeval
    fb = ctx.fb
    dec = fb.fn('ebusd::uint16ToFloat')
    enc = fb.fn('ebusd::floatToUint16')
    ctx.touch(dec)
    ctx.touch(enc)
    nanrets = [r for r in dec.all('ReturnStmt') if dec.nodes[r].get('val') is not None and
               ('nan' in dec.key(dec.nodes[r]['val']).lower() or dec.nodes[dec.strip(dec.nodes[r]['val'], casts=True)].get('k') == 'FloatingLiteral' and
                str(dec.nodes[dec.strip(dec.nodes[r]['val'], casts=True)].get('fv')).lower() == 'nan')]
    if not nanrets:
        raise AnalysisBroken('C05.R11: NAN return of uint16ToFloat not found')
    conds = []
    for r in nanrets:
        p = dec.parent(r)
        child = r
        while p is not None:
            v = dec.nodes[p]
            if v['k'] == 'IfStmt' and v.get('then') is not None and (child == v['then'] or child in set(dec.walk(v['then']))):
                conds.append(v['cond'])
                break
            child = p
            p = dec.parent(p)
    pd = dec.params[0]['decl']
    nanset = set()
    try:
        for val in range(65536):
            m = tinyeval.Machine(dec, {}, [])
            m.locals[pd] = val
            if any(m.rv(c) for c in conds):
                nanset.add(val)
    except tinyeval.Unknown as e:
        raise AnalysisBroken('C05.R11: NAN condition not evaluable (%s)' % e)
    marks = set()
    for r in enc.all('ReturnStmt'):
        rv = enc.nodes[r].get('val')
        x = enc.nodes[enc.strip(rv, casts=True)] if rv is not None else {}
        if x.get('k') == 'IntegerLiteral' and enc.val(rv) not in (0, None):
            marks.add(enc.val(rv))
    ctx.ob('C05.R11', dec, conds[0] if conds else dec.body, bool(marks) and nanset == marks, 'invalid marker of the 16 bit float',
           'decoded as NAN: %s pattern(s) %s; emitted by the encoder for an invalid value: %s' % (
               len(nanset), ['%04x' % v for v in sorted(nanset)[:4]], ['%04x' % v for v in sorted(marks)]))


def r12(ctx):
    ctx.rule('C05.R12', 'a 32 bit raw value that is not negative keeps all its bits: in the decoders NumberDataType::readFromRawValue and '
             'getFloatFromRawValue a conversion of the raw value to a signed 32 bit integer is reached only where the value is '
             'negative in the type (sign bit set of a signed type) or the type is narrower than 32 bits - passing it through an '
             'int otherwise turns the upper half of ULG / U4L with a divisor into negative numbers', minimum=4)
    fb = ctx.fb
    n = 0
    for name in ('ebusd::NumberDataType::readFromRawValue', 'ebusd::NumberDataType::getFloatFromRawValue'):
        fn = fb.fn(name)
        ctx.touch(fn)
        vp = fn.params[0]['decl']
        # the flag local that checkValueRange fills through its out-parameter (whatever it is called)
        nk = fn.outarg('NumberDataType::checkValueRange', 1)
        negnames = set([nk]) if nk else set()
        if not negnames:
            raise AnalysisBroken('C05.R12: %s does not obtain the sign flag from checkValueRange any more' % name)
        for x, v in sorted(fn.nodes.items()):
            if v.get('ck') != 'IntegralCast' or not v.get('sg') or v.get('w') != 32 or v.get('sw') != 32 or v.get('ssg'):
                continue
            if fn.nodes[fn.strip(x, casts=True)].get('decl') != vp:
                continue
            n += 1
            atoms = set((a[0], a[1]) for a in fn.atoms(x))
            full = ('(this.m_bitCount == #32)', True) in atoms
            neg = any((nm, True) in atoms for nm in negnames)
            narrow = ('(this.m_bitCount == #32)', False) in atoms
            ok = neg or narrow
            ctx.ob('C05.R12', fn, x, ok, 'raw value as signed int in %s' % name.split('::')[-1],
                   'reached only for a negative value or a type below 32 bits: %s' % ok)
    if n < 4:
        raise AnalysisBroken('C05.R12: only %d conversions of the raw value found' % n)


def r13(ctx):
    ctx.rule('C05.R13', 'only the replacement pattern decodes to null: in NumberDataType::readFromRawValue the null output '
             '("null" / NULL_VALUE) is decided on the raw pattern alone - it is not reachable behind a store that scales the '
             'decoded value (val *= / val /= / a reassignment), so a finite raw value that leaves the float range through the '
             'divisor ends in an error, not in a null that looks like "no value"', minimum=2)
    fb = ctx.fb
    fn = fb.fn('ebusd::NumberDataType::readFromRawValue')
    ctx.touch(fn)
    nulls = [x for x, v in sorted(fn.nodes.items()) if v['k'] == 'StringLiteral' and (v.get('str') == 'null' or v.get('mac') == 'NULL_VALUE')]
    if len(nulls) < 2:
        raise AnalysisBroken('C05.R13: the null outputs of readFromRawValue were not recognised')
    scal = [nid for nid, d, rhs, op, lhs in fn.assignments() if op in ('*=', '/=', '+=', '-=', '=') and lhs is not None and
            fn.nodes[fn.strip(lhs, casts=True)].get('rk') == 'local' and
            (fn.nodes[fn.strip(lhs, casts=True)].get('t') or '') in ('float', 'double')]
    if not scal:
        raise AnalysisBroken('C05.R13: the scaling of the decoded float value was not recognised')
    for x in nulls:
        frm = [s_ for s_ in scal if fn.reaches_point(fn.pos(s_)[0], fn.pos(x), set(), start_idx=fn.pos(s_)[1] + 1)]
        ctx.ob('C05.R13', fn, x, not frm, 'null output %s' % fn.key(x),
               'not reachable behind a scaling store: %s%s' % (not frm, '' if not frm else ' (behind line %d)' % fn.line_of(frm[0])))


def r14(ctx):
    ctx.rule('C05.R14', 'a listed raw value decodes to its entry, never to null: in ValueListDataField::readSymbols the lookup of '
             'the raw value in the value list is made for every output format - every path to a null output ("null" / '
             'NULL_VALUE) passes m_values.find() of the raw value read - because the null decision compares against '
             'getReplacement(), which is a dummy 0 for the types without replacement value (bits, U1L, HCD...) and would turn '
             'their listed 0 into null', minimum=2)
    fb = ctx.fb
    fn = fb.fn('ebusd::ValueListDataField::readSymbols')
    ctx.touch(fn)
    raw = fn.outarg('DataType::readRawValue', 3)
    finds = [c for c in fn.calls('find') if 'map<' in (fn.nodes[c].get('callee') or '') and
             [fn.key(a) for a in fn.nodes[c].get('args', [])][-1:] == [raw]]
    nulls = [x for x, v in sorted(fn.nodes.items()) if v['k'] == 'StringLiteral' and (v.get('str') == 'null' or v.get('mac') == 'NULL_VALUE')]
    if raw is None or len(nulls) < 2:
        raise AnalysisBroken('C05.R14: raw value / null outputs of ValueListDataField::readSymbols not recognised')
    for x in nulls:
        ok = bool(finds) and not fn.reaches_point(fn.entry, fn.pos(x), set(finds))
        ctx.ob('C05.R14', fn, x, ok, 'null output %s' % fn.key(x), 'every path to it looks the raw value up in the list: %s' % ok)


def r18(ctx):
    ctx.rule('C05.R18', 'a zero byte of a date means "missing" only for types whose valid values cannot be zero: wherever '
             'DateTimeDataType::readSymbols treats a byte equal to 0 as missing, the test is tied to the absence of the REZ flag '
             '(the flag of DAY, whose day count has legitimate zero bytes) - all such tests use that one flag; tied to another '
             'flag, every DAY value with a zero low byte prints "-." in front of the date', minimum=2)
    fb = ctx.fb
    fn = fb.fn('ebusd::DateTimeDataType::readSymbols')
    ctx.touch(fn)
    rez = facts.macro_values(['lib/ebus/datatype.h'], ['REZ']).get('REZ')
    if rez is None:
        raise AnalysisBroken('C05.R18: the flag REZ was not found in datatype.h')
    n = 0
    for x, v in sorted(fn.nodes.items()):
        if v['k'] != 'BinaryOperator' or v.get('op') != '&&':
            continue
        r = fn.nodes[fn.strip(v['rhs'], casts=True)]
        if not (r.get('k') == 'BinaryOperator' and r.get('op') == '==' and (
                (fn.val(r['rhs']) == 0 and fn.nodes[fn.strip(r['lhs'], casts=True)].get('k') == 'DeclRefExpr') or
                (fn.val(r['lhs']) == 0 and fn.nodes[fn.strip(r['rhs'], casts=True)].get('k') == 'DeclRefExpr'))):
            continue
        l = fn.nodes[fn.strip(v['lhs'], casts=True)]
        if not (l.get('k') == 'UnaryOperator' and l.get('op') == '!'):
            continue
        call = fn.nodes[fn.strip(l['ch'][0], casts=True)]
        if not (call.get('callee') or '').endswith('::hasFlag') or not call.get('args'):
            continue
        n += 1
        flag = fn.val(call['args'][0])
        ctx.ob('C05.R18', fn, x, flag == rez, 'zero byte taken as missing (%s)' % fn.key(x)[:60], 'tied to the REZ flag (%#x): %s (flag %s)' % (rez, flag == rez, hex(flag) if flag is not None else flag))
    if n < 2:
        raise AnalysisBroken('C05.R18: only %d "zero means missing" tests found' % n)


def r19(ctx):
    ctx.rule('C05.R19', 'a divisor of 1 (like 0) means "keep the divisor of the type": in NumberDataType::derive(divisor, bitCount) '
             'every statement that combines the requested divisor with the one the type already has (divisor *= ...) is '
             'reached only with divisor != 1 - DataField::create derives the divisor first and passes 1 afterwards, and a '
             'combination with 1 flips the sign of a reciprocal divisor (uin,-10 with a range decodes 380 as 3.8)', minimum=2)
    fb = ctx.fb
    fns = [f for f in fb.fns('ebusd::NumberDataType::derive') if len(f.params) == 3]
    if not fns:
        raise AnalysisBroken('C05.R19: NumberDataType::derive(divisor, bitCount, derived) not found')
    fn = fns[0]
    ctx.touch(fn)
    dv = fn.P(0)
    n = 0
    for nid, d, rhs, op, lhs in fn.assignments():
        if not d or d.split(':')[-1] != dv or op not in ('*=', '/=') and not (op == '=' and rhs is not None and ('*' in fn.key(rhs) or '/' in fn.key(rhs))):
            continue
        n += 1
        ok = fn.needs_one_of(nid, [('(%s == #1)' % dv, False), ('(%s <= #1)' % dv, False), ('(%s < #0)' % dv, True), ('(%s < #1)' % dv, True)])
        ctx.ob('C05.R19', fn, nid, ok, 'divisors combined in derive', 'reached only with a requested divisor other than 1: %s' % ok)
    if n < 2:
        raise AnalysisBroken('C05.R19: only %d combinations of divisors found in derive' % n)


def r20(ctx):
    ctx.rule('C05.R20', 'the weekday byte of the 4 byte dates takes no part in the date: in DateTimeDataType::readSymbols the '
             'statement selected by length == 4 and position == 2 leaves the iteration at once - from it no store into a '
             'variable that lives across iterations (the previous symbol, the minutes) is reachable before the loop '
             'increment - because the year byte 00 / ff is told from "missing" by the symbol before it, which has to be the '
             'month and not the weekday (a Monday of 2000 in BDZ would print as 03.01.-)', minimum=1)
    import re
    fb = ctx.fb
    fn = fb.fn('ebusd::DateTimeDataType::readSymbols')
    ctx.touch(fn)
    ln = fn.P(1)
    loops = [x for x in fn.all('ForStmt') if fn.nodes[x].get('inc') is not None]
    n = 0
    for f in loops:
        body = fn.nodes[f].get('body')
        if body is None:
            continue
        inside = set(fn.walk(body))
        incs = set(fn.walk(fn.nodes[f]['inc']))
        initn = set(fn.walk(fn.nodes[f]['init'])) if fn.nodes[f].get('init') is not None else set()
        # variables that live across iterations: written inside the body, declared outside the loop statement
        outer = [(nid, d) for nid, d, rhs, op, lhs in fn.assignments() if nid in inside and d and op != 'init' and
                 not any(d2 == d and n2 in (inside | initn) for n2, d2, r2, o2, l2 in fn.assignments() if o2 == 'init')]
        for i in fn.all('IfStmt'):
            if i not in inside:
                continue
            ck = fn.key(fn.nodes[i]['cond']) + ' ' + ' '.join(fn.xkey(x) for x in fn.walk(fn.nodes[i]['cond'])
                                                              if fn.nodes[x]['k'] == 'DeclRefExpr' and fn.nodes[x].get('rk') == 'local')
            if '(%s == #4)' % ln not in ck or not re.search(r'\((\w+) == #2\)', ck):
                continue
            th = fn.nodes[i].get('then')
            if th is None:
                continue
            n += 1
            first = th
            while fn.nodes[first]['k'] == 'CompoundStmt' and fn.nodes[first].get('ch'):
                first = fn.nodes[first]['ch'][0]
            try:
                sb, si = fn.pos(first)
            except Exception:
                raise AnalysisBroken('C05.R20: the weekday statement is not in the flow graph')
            bad = [nid for nid, d in outer if nid not in set(fn.walk(th)) and fn.reaches_point(sb, fn.pos(nid), incs, start_idx=si)]
            ctx.ob('C05.R20', fn, i, not bad, 'weekday byte of a 4 byte date',
                   'skipped without a store into a variable that lives across iterations: %s%s' % (
                       not bad, '' if not bad else ' (reaches the store in line %d)' % fn.line_of(bad[0])))
    if n < 1:
        raise AnalysisBroken('C05.R20: the weekday skip of the 4 byte dates was not recognised')


def r22(ctx):
    ctx.rule('C05.R22', 'the replacement pattern of a value list field is never printed as a number: in '
             'ValueListDataField::readSymbols every insertion of the raw value into the output is guarded by "the value is '
             'listed" (the iterator of the lookup is not end()) or by "the value is not the replacement value" - in every '
             'output format, the numeric one included, an unlisted replacement pattern decodes to the null value', minimum=3)
    fb = ctx.fb
    fn = fb.fn('ebusd::ValueListDataField::readSymbols')
    ctx.touch(fn)
    raw = fn.outarg('DataType::readRawValue', 3)
    if raw is None:
        raise AnalysisBroken('C05.R22: raw value of ValueListDataField::readSymbols not recognised')
    n = 0
    for x, v in sorted(fn.nodes.items()):
        if not (v['k'] == 'CXXOperatorCallExpr' and v.get('op') == '<<' and v.get('args') and fn.key(v['args'][1]) == raw):
            continue
        n += 1
        atoms = set((a[0], a[1]) for a in fn.atoms(x))
        listed = any(not pol and k.endswith('.end())') and '==' in k and '&&' not in k and '||' not in k for k, pol in atoms) or \
            any(pol and k.endswith('.end())') and '!=' in k and '&&' not in k and '||' not in k for k, pol in atoms)
        notrepl = any(k.startswith('(%s == ' % raw) and 'getReplacement()' in k and not pol and '&&' not in k and '||' not in k for k, pol in atoms)
        # a flag local that holds the outcome of the lookup (const bool found = it != m_values.end())
        for d_, init in fn.single_defs().items():
            ik = fn.key(init)
            if ik.endswith('.end())') and '&&' not in ik and '||' not in ik and ('!=' in ik or '==' in ik):
                nm = d_.split(':')[-1]
                if (nm, '!=' in ik) in atoms:
                    listed = True
        ok = listed or notrepl
        ctx.ob('C05.R22', fn, x, ok, 'raw value printed as a number', 'only for a listed value (%s) or one that is not the replacement value (%s)' % (listed, notrepl))
    if n < 3:
        raise AnalysisBroken('C05.R22: only %d numeric outputs found in ValueListDataField::readSymbols' % n)


def run(ctx):
    r22(ctx)
    r20(ctx)
    import rules.C06 as _c06p
    ctx.borrow(_c06p.r15, {'C06.R15': 'C05.R21'}, 'fixed-point fractions are printed with the precision of the type: the number of decimals of every divisor up to the maximum one')
    r18(ctx)
    r19(ctx)
    import rules.common as _cm
    ctx.rule('C05.R15', 'an accessor hands out what the member holds: every member function of the eBUS library classes (data types, fields, messages, symbols) that only returns an integer data member has a return type at least as wide as the member and no narrowing cast on the way - getReplacement() truncated to a byte makes a value list on a 16 bit type print its replacement pattern as a number and an ordinary value as null', minimum=20)
    ctx.rule('C05.R16', 'a byte is scaled in a domain that holds the result: in the data type and field sources every multiplication or shift of a value read from an 8 bit unsigned variable that the language evaluates in signed int has a constant factor that keeps 255 * factor below 2^31 (or the arithmetic is unsigned / 64 bit); the fourth byte of a little-endian value scaled as byte * (1 << 8*i) overflows for bytes >= 0x80 and the accumulated value is sign-extended garbage', minimum=3)
    _cm.byte_scale_rule(ctx, 'C05.R16', lambda f: f.relfile in ('src/lib/ebus/datatype.cpp', 'src/lib/ebus/data.cpp', 'src/lib/ebus/datatype.h', 'src/lib/ebus/data.h'), 3)
    import rules.C06 as _c06
    ctx.borrow(_c06.r17, {'C06.R17': 'C05.R17'}, 'a pattern outside the value range of the type (minutes beyond 31.12.2099) is rejected, not shown as a date')
    _cm.getter_width_rule(ctx, 'C05.R15', lambda f: f.relfile.startswith('src/lib/ebus/'), 20)
    r14(ctx)
    r13(ctx)
    r12(ctx)
    r11(ctx)
    r6(ctx)
    r1(ctx)
    r2(ctx)
    r3(ctx)
    r4(ctx)
    r5(ctx)
    import rules.C12 as c12
    ctx.borrow(c12.r5, {'C12.R5': 'C05.R7'},
               'the printed precision of fixed-point and float values depends on the stream format state')
    ctx.borrow(c12.r3, {'C12.R3': 'C05.R8'},
               'an integer printed while the stream is still in hex mode is not the value the type defines')
    ctx.borrow(c12.r2, {'C12.R2': 'C05.R9'},
               'a field decodes with the divisor and range of the type object derive() hands out; a cache key that omits one '
               'of them lets an earlier definition decide the value printed for a later one')
    import rules.C09 as _c09
    _c09.symbol_layout_rule(ctx, 'C05.R10')
