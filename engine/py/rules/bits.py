"""bit provenance (A7): abstract evaluation of bitwise expressions. A value is a list of 64 bit descriptors:
0, 1, ('v', name, bit) or None (unknown/mixed)."""
import facts

W = 64


def const(n):
    return [(n >> i) & 1 for i in range(W)]


def var(name, width):
    return [('v', name, i) if i < width else 0 for i in range(W)]


def b_and(a, b):
    out = []
    for x, y in zip(a, b):
        if x == 0 or y == 0:
            out.append(0)
        elif x == 1:
            out.append(y)
        elif y == 1:
            out.append(x)
        elif x == y:
            out.append(x)
        else:
            out.append(None)
    return out


def b_or(a, b):
    out = []
    for x, y in zip(a, b):
        if x == 1 or y == 1:
            out.append(1)
        elif x == 0:
            out.append(y)
        elif y == 0:
            out.append(x)
        elif x == y:
            out.append(x)
        else:
            out.append(None)
    return out


def b_xor(a, b):
    out = []
    for x, y in zip(a, b):
        if x == 0:
            out.append(y)
        elif y == 0:
            out.append(x)
        elif x in (0, 1) and y in (0, 1):
            out.append(x ^ y)
        else:
            out.append(None)
    return out


def shl(a, n):
    return ([0] * n + a)[:W]


def shr(a, n):
    return (a[n:] + [0] * n)[:W]


def trunc(a, width):
    return [a[i] if i < width else 0 for i in range(W)]


def evaluate(fn, nid, env, depth=0):
    """env: name -> bit list for variables (by key); unknown leaves give None bits (of their type width)"""
    if depth > 40:
        return [None] * W
    s = fn.strip(nid)
    v = fn.nodes.get(s, {})
    k = v.get('k')
    if 'v' in v and k not in ('CallExpr', 'CXXMemberCallExpr'):
        return const(v['v'] & ((1 << W) - 1))
    key = fn.key(s)
    if key in env:
        return list(env[key])
    if k in facts.CAST_KINDS:
        inner = evaluate(fn, v['ch'][0], env, depth + 1)
        w = v.get('w')
        if w and w < W and not v.get('sg'):
            return trunc(inner, w)
        if w and w < W:
            # signed narrowing/widening: keep low bits, upper unknown unless the sign bit is known 0
            t = trunc(inner, w)
            if t[w - 1] == 0:
                return t
            return t[:w] + [None] * (W - w) if inner[w:] != [0] * (W - w) else t
        return inner
    if k == 'BinaryOperator':
        op = v['op']
        if op in ('&', '|', '^'):
            a = evaluate(fn, v['lhs'], env, depth + 1)
            b = evaluate(fn, v['rhs'], env, depth + 1)
            return {'&': b_and, '|': b_or, '^': b_xor}[op](a, b)
        if op in ('<<', '>>'):
            n = fn.val(v['rhs'])
            a = evaluate(fn, v['lhs'], env, depth + 1)
            if n is None or n < 0 or n >= W:
                return [None] * W
            return shl(a, n) if op == '<<' else shr(a, n)
    if k == 'ParenExpr':
        return evaluate(fn, v['ch'][0], env, depth + 1)
    w = v.get('w') or W
    return [None if i < w else 0 for i in range(W)]


def compose(outer, inner_env):
    """substitute ('v', name, bit) leaves of `outer` by the bit lists in inner_env"""
    out = []
    for x in outer:
        if isinstance(x, tuple) and x[1] in inner_env:
            out.append(inner_env[x[1]][x[2]])
        else:
            out.append(x)
    return out
