"""C16 - access levels are enforced on the read, write and poll paths (static taint/typestate of Message pointers).

C16.R1 (core) a Message* obtained without a level filter reaches a bus access / value decode / poll priority change only
              after message->hasLevel(levels) succeeded; filtered lookups pass the caller's level list
C16.R2 (core) level provenance: command handlers receive getUserLevels(user); user is only set after checkSecret; data sinks
              use their configured m_levels
C16.R3        token-exact matching structure of Message::checkLevel
"""
import facts
from facts import AnalysisBroken, Explorer

SINK_METHODS = ('decodeLastData', 'decodeLastDataNumField', 'decodeJson', 'setPollPriority', 'prepareMaster', 'storeLastData',
                'getLastSlaveData', 'getLastMasterData', 'getLastData')
HANDLERS = {
    'ebusd::MainLoop::executeRead': 1,     # index of the parameter carrying the caller's level list
    'ebusd::MainLoop::executeWrite': 1,
}
SINK_FUNCS = {
    'ebusd::MqttHandler::notifyMqttTopic': 'this.m_levels',
    'ebusd::DataSink::notifyUpdate': 'this.m_levels',
}


def is_msg_ptr(v):
    t = v.get('t') or ''
    return t.replace('const ', '').strip() in ('ebusd::Message *', 'Message *')


def classify_source(fn, rhs, lv, filtered=(), unfiltered=()):
    """'C' filtered by the level list lv, 'U' unfiltered lookup, None = not a lookup"""
    s = fn.strip(rhs, casts=True)
    v = fn.nodes.get(s, {})
    if v.get('k') == 'ConditionalOperator':
        a = classify_source(fn, v['then'], lv, filtered, unfiltered)
        b = classify_source(fn, v['else'], lv, filtered, unfiltered)
        if 'U' in (a, b) or None in (a, b):
            return 'U'
        return 'C' if 'C' in (a, b) else 'N'
    k0 = fn.key(s)
    for c in filtered:
        if ('(%s.begin())' % c) in k0 or k0 in ('%s.front()' % c, '%s.back()' % c, '%s[#0]' % c) or k0.startswith('%s.at(' % c):
            return 'C'
    for c in unfiltered:
        if ('(%s.begin())' % c) in k0 or k0 in ('%s.front()' % c, '%s.back()' % c):
            return 'U'
    if v.get('k') == 'CXXMemberCallExpr':
        cal = v.get('callee') or ''
        base = cal.split('::')[-1]
        if cal.endswith('MessageMap::find'):
            sig = v.get('sig', '')
            if 'MasterSymbolString' in sig:
                return 'U'
            args = v.get('args', [])
            if len(args) >= 3 and fn.key(args[2]) == lv:
                return 'C'
            return 'U'
        if base in ('getByKey', 'getScanMessage', 'getFirstAvailable', 'derive', 'front', 'at'):
            return 'U'
    if v.get('k') in ('CXXNullPtrLiteralExpr', 'GNUNullExpr') or fn.key(s) == '#0':
        return 'N'
    return None


def track_function(ctx, rid, fn, lv):
    fb = ctx.fb
    ctx.touch(fn)
    # tracked variables: Message* locals
    mvars = {}
    for nid, v in fn.nodes.items():
        if v['k'] == 'DeclStmt':
            for dd in v.get('decls', []):
                if is_msg_ptr(dd):
                    mvars[dd['decl']] = dd['name']
    # range-for loop variables over containers filled by findAll(..., lv, ...)
    filtered_containers = set()
    unfiltered_containers = set()
    for c in fn.all('CXXMemberCallExpr'):
        v = fn.nodes[c]
        if (v.get('callee') or '').endswith('MessageMap::findAll') and v.get('args'):
            tgt = fn.key(v['args'][-1])
            if fn.key(v['args'][2]) == lv:
                filtered_containers.add(tgt.lstrip('&'))
            else:
                unfiltered_containers.add(tgt.lstrip('&'))
    loopvars = {}
    for l in fn.all('CXXForRangeStmt'):
        lvn = fn.nodes[l]
        rng = fn.key(lvn.get('range', -1))
        if lvn.get('loopvar'):
            st = 'C' if rng in filtered_containers else ('U' if rng in unfiltered_containers else None)
            if st:
                loopvars[lvn['loopvar']] = st
                mvars[lvn['loopvar']] = lvn['loopvar'].split(':')[-1]
    if not mvars:
        return 0
    names = {}
    for d, n in mvars.items():
        names.setdefault(n, []).append(d)
    sinks = {}
    results = {}

    def var_of(node):
        d = fn.ref_decl(node)
        return d if d in mvars else None

    def on_elem(user, e, path):
        st = dict(user)
        v = fn.nodes[e]
        k = v['k']
        if k == 'DeclStmt':
            for dd in v.get('decls', []):
                if dd['decl'] in mvars:
                    if dd['decl'] in loopvars:
                        st[dd['decl']] = loopvars[dd['decl']]
                    elif 'init' in dd:
                        c = classify_source(fn, dd['init'], lv, filtered_containers, unfiltered_containers)
                        r = fn.nodes.get(fn.strip(dd['init'], casts=True), {})
                        if c is None and r.get('k') == 'DeclRefExpr' and r.get('decl') in mvars:
                            c = st.get(r['decl'], 'U')
                        st[dd['decl']] = c or 'U'
                    else:
                        st[dd['decl']] = 'N'
        elif k == 'BinaryOperator' and v.get('op') == '=':
            d = var_of(v['lhs'])
            if d:
                c = classify_source(fn, v['rhs'], lv, filtered_containers, unfiltered_containers)
                r = fn.nodes.get(fn.strip(v['rhs'], casts=True), {})
                if c is None and r.get('k') == 'DeclRefExpr' and r.get('decl') in mvars:
                    c = st.get(r['decl'], 'U')
                st[d] = c or 'U'
        elif k == 'CXXMemberCallExpr':
            cal = v.get('callee') or ''
            base = cal.split('::')[-1]
            hit = []
            if base in SINK_METHODS and 'obj' in v:
                d = var_of(v['obj'])
                if d:
                    hit.append(d)
            if base in ('readFromBus', 'addPollMessage') and v.get('args'):
                for a in v['args']:
                    d = var_of(a)
                    if d:
                        hit.append(d)
            for d in hit:
                key = (e, d)
                sinks[key] = base
                if st.get(d, 'U') == 'U':
                    results.setdefault(key, path)
        return tuple(sorted(st.items()))

    def on_edge(user, b, j, dnf):
        st = dict(user)
        if len(dnf) == 1:
            for a in dnf[0]:
                k, p = facts.atom_key(fn, a)
                for nm, ds in names.items():
                    for d in ds:
                        if k in ('%s.hasLevel(%s,#1)' % (nm, lv), '%s.hasLevel(%s)' % (nm, lv)) and p:
                            st[d] = 'C'
                        if k in ('(%s == #0)' % nm,) and p:
                            st[d] = 'N'
                        if k == nm and not p:
                            st[d] = 'N'
        return tuple(sorted(st.items()))

    ex = Explorer(fn, on_elem=on_elem, on_edge=on_edge)
    ex.run(fn.entry, 0, tuple())
    n = 0
    for (e, d), base in sorted(sinks.items()):
        n += 1
        bad = results.get((e, d))
        ctx.ob(rid, fn, e, bad is None, '%s on %s in %s' % (base, mvars[d], fn.name.split('::')[-1]),
               'message reached this use without passing the level filter (%s)' % lv if bad else
               'message comes from a lookup filtered by %s or passed hasLevel(%s)' % (lv, lv),
               witness=ex.describe_path(bad) if bad else None)
    return n


def r1(ctx):
    ctx.rule('C16.R1', 'in the client command handlers (read, write) and the data sinks every use of a looked-up message that '
             'touches the bus, decodes its value or changes its poll priority is reached only if the message came from '
             'MessageMap::find(circuit, name, LEVELS, ...)/findAll(..., LEVELS, ...) with the caller\'s level list, or after '
             'message->hasLevel(LEVELS) was true; lookups by telegram (hex forms) are unfiltered and need the explicit check',
             minimum=8, star=True)
    fb = ctx.fb
    n = 0
    for name, lvi in sorted(HANDLERS.items()):
        fn = fb.fn(name)
        lv = fn.P(lvi)
        n += track_function(ctx, 'C16.R1', fn, lv)
        # filtered lookups pass exactly the level parameter
        for c in fn.all('CXXMemberCallExpr'):
            v = fn.nodes[c]
            cal = v.get('callee') or ''
            if (cal.endswith('MessageMap::find') and 'MasterSymbolString' not in v.get('sig', '')) or cal.endswith('MessageMap::findAll'):
                a = fn.key(v['args'][2])
                n += 1
                ctx.ob('C16.R1', fn, c, a == lv, 'lookup levels argument in %s' % name.split('::')[-1],
                       'passes %s (caller levels: %s)' % (a, lv))
    for name, lv in sorted(SINK_FUNCS.items()):
        fn = fb.fn(name)
        ctx.touch(fn)
        if name.endswith('notifyUpdate'):
            w = [nid for nid, d, rhs, op, lhs in fn.assignments() if lhs is not None and 'm_updatedMessages' in fn.key(lhs)] + \
                [nid for nid, v in fn.nodes.items() if v['k'] == 'UnaryOperator' and v.get('op') == '++' and 'm_updatedMessages' in fn.key(nid)]
            for x in w:
                atoms = set((a[0], a[1]) for a in fn.atoms(x))
                ok = ('%s.hasLevel(this.m_levels,#1)' % fn.P(0), True) in atoms
                n += 1
                ctx.ob('C16.R1', fn, x, ok, 'sink update registration', 'guarded by hasLevel(m_levels): %s' % ok)
        else:
            n += track_function(ctx, 'C16.R1', fn, lv)
            for c in fn.all('CXXMemberCallExpr'):
                v = fn.nodes[c]
                cal = v.get('callee') or ''
                if (cal.endswith('MessageMap::find') and 'MasterSymbolString' not in v.get('sig', '')) or cal.endswith('MessageMap::findAll'):
                    a = fn.key(v['args'][2])
                    n += 1
                    ctx.ob('C16.R1', fn, c, a == lv, 'lookup levels argument in %s' % name.split('::')[-1], 'passes %s' % a)
    if n < 8:
        raise AnalysisBroken('C16.R1: only %d instances' % n)


def user_ptr(f):
    """name of the single string* parameter (the connection's user) of a MainLoop method, or None"""
    c = [p['name'] for p in f.params if (p.get('t') or '').replace('std::', '').replace('__cxx11::', '').replace('basic_string<char>', 'string').strip() in ('string *',)]
    return c[0] if len(c) == 1 else None


def r2(ctx):
    ctx.rule('C16.R2', 'the level list handed to the command handlers is getUserLevels(user) of the connection\'s user; the '
             'user is assigned only in executeAuth after checkSecret succeeded; in the HTTP handler a failed checkSecret sets '
             'an error before any lookup; data sinks take m_levels only from their constructor (user info of the configured '
             'user, default entry only if that user is unknown - decided by hasUser(), not by an empty list)', minimum=6, star=True)
    fb = ctx.fb
    n = 0
    targets = ('ebusd::MainLoop::executeRead', 'ebusd::MainLoop::executeWrite', 'ebusd::MainLoop::executeFind', 'ebusd::MainLoop::executeScan')
    for f, c in fb.call_sites(*targets):
        v = f.nodes[c]
        a = f.key(v['args'][1])
        n += 1
        u = user_ptr(f)
        ok = u is not None and (a in ('this.getUserLevels(*%s)' % u,) or a.endswith('{this.getUserLevels(*%s)}' % u))
        ctx.ob('C16.R2', f, c, ok, 'levels passed to %s' % v['callee'].split('::')[-1], 'argument %s' % a)
    # user assignment
    for f in fb.functions:
        if f.cls != 'ebusd::MainLoop':
            continue
        for nid, v in sorted(f.nodes.items()):
            if v['k'] in ('CXXOperatorCallExpr',) and v.get('op') == '=' and v.get('args') and user_ptr(f) and f.key(v['args'][0]) == '*' + user_ptr(f):
                n += 1
                atoms = set((a[0], a[1]) for a in f.atoms(nid))
                ok = f.name == 'ebusd::MainLoop::executeAuth' and any('checkSecret(' in k and p for k, p in atoms)
                ctx.ob('C16.R2', f, nid, ok, '*user = %s in %s' % (f.key(v['args'][1]), f.name.split('::')[-1]),
                       'only after a successful checkSecret: %s' % ok)
    g = fb.fn('ebusd::MainLoop::executeGet')
    ctx.touch(g)
    # typestate: the level list of a named user is used only after checkSecret(user, secret) succeeded on that path
    uses = [c for c in g.all('CXXMemberCallExpr') if (g.nodes[c].get('callee') or '').endswith('::getUserLevels')]
    if not uses:
        raise AnalysisBroken('C16.R2: getUserLevels not used in executeGet')
    uname = g.key(g.nodes[uses[0]]['args'][0])
    fmt = [c for c in g.all('CXXMemberCallExpr', 'CallExpr') if (g.nodes[c].get('callee') or '').endswith('formatHttpResult')]
    if not fmt:
        raise AnalysisBroken('C16.R2: formatHttpResult not called in executeGet')
    rname = g.key(g.nodes[fmt[0]]['args'][0])
    bad = {}
    good = set()
    okv = 0

    def on_elem(user, e, path):
        auth, ret = user
        v = g.nodes[e]
        if v['k'] == 'BinaryOperator' and v.get('op') == '=' and g.key(v['lhs']) == rname:
            x = g.val(v['rhs'])
            ret = 'ok' if x == okv else ('err' if x is not None and x < 0 else '?')
        elif v['k'] == 'DeclStmt':
            for dd in v.get('decls', []):
                if dd['name'] == rname and 'init' in dd:
                    x = g.val(dd['init'])
                    ret = 'ok' if x == okv else ('err' if x is not None and x < 0 else '?')
                if dd['name'] == uname:
                    iv = g.nodes.get(g.strip(dd.get('init', -1)), {})
                    # default constructed: the empty user name selects the default ACL entry
                    auth = 'ok' if (not dd.get('init') or (iv.get('k') == 'CXXConstructExpr' and not iv.get('args'))) else '?'
        elif v['k'] == 'CXXOperatorCallExpr' and v.get('op') in ('=', '+=') and v.get('args') and g.key(v['args'][0]) == uname:
            auth = '?'
        if e in uses:
            if auth != 'ok' and ret != 'err':
                bad.setdefault(e, path)
            else:
                good.add(e)
        return (auth, ret)

    def on_edge(user, b, j, dnf):
        auth, ret = user
        if len(dnf) == 1:
            for a in dnf[0]:
                k, p = facts.atom_key(g, a)
                if k == '%s.empty()' % uname and p:
                    auth = 'ok'
                if 'checkSecret(%s,' % uname in k:
                    auth = 'ok' if p else 'bad'
                if k == '(%s == #0)' % rname:
                    if (p and ret == 'err') or (not p and ret == 'ok'):
                        return None
                    ret = 'ok' if p else ret
        return (auth, ret)

    ex = Explorer(g, on_elem=on_elem, on_edge=on_edge)
    # only the conditions on the user name and on the result decide this rule: correlating the other repeated tests of
    # this long function multiplies the states without telling anything about them
    import re as _re
    ex.corr = set(k for k in ex.corr if any(_re.search(r'(?<![\w.])%s(?![\w])' % _re.escape(x), k) for x in (uname, rname)))
    ex.run(g.entry, 0, ('?', '?'), max_states=1000000)
    for c in uses:
        n += 1
        ctx.ob('C16.R2', g, c, c not in bad, 'HTTP: levels of the named user', 'used only after checkSecret succeeded (or without '
               'user name): %s' % (c not in bad), witness=ex.describe_path(bad[c]) if c in bad else None)
    # sinks: who assigns m_levels
    for f in fb.functions:
        for nid, d, rhs, op, lhs in f.assignments():
            if d == 'this.m_levels' and f.cls and ('DataSink' in f.cls or 'Handler' in f.cls):
                n += 1
                ok = bool(f.d.get('ctor')) and 'getLevels(' in f.key(rhs)
                ctx.ob('C16.R2', f, nid, ok, 'm_levels assignment in %s' % f.name.split('::')[-1], '%s' % f.key(rhs)[:100])
    # sinks: the default entry is the fallback for an unknown user only (a known user with an empty level list sees
    # what the empty list allows, not the default levels)
    seen = set()
    for f in fb.functions:
        if not (f.cls and 'DataSink' in f.cls and f.d.get('ctor')) or (f.name, f.sig) in seen:
            continue
        seen.add((f.name, f.sig))
        un = [p['name'] for p in f.params if 'string' in (p.get('t') or '')]
        for c in f.all('CXXMemberCallExpr'):
            v = f.nodes[c]
            if not (v.get('callee') or '').endswith('::getLevels') or not v.get('args'):
                continue
            n += 1
            ctx.touch(f)
            a = f.nodes[f.strip(v['args'][0], casts=True)]
            while a.get('k') in ('CXXConstructExpr', 'CXXBindTemporaryExpr', 'MaterializeTemporaryExpr', 'CXXFunctionalCastExpr') and (a.get('args') or a.get('ch')):
                a = f.nodes[f.strip((a.get('args') or a.get('ch'))[0], casts=True)]
            atoms = [(k, p) for k, p in ((x[0], x[1]) for x in f.atoms(c)) if '.hasUser(' in k]
            if a.get('k') == 'ConditionalOperator':
                ok = '.hasUser(' in f.key(a['cond']) and '""' in f.key(a['else']) and '""' not in f.key(a['then'])
                how = 'argument chosen by hasUser(): %s' % ok
            elif a.get('k') == 'StringLiteral':
                ok = any(not p for k, p in atoms)
                how = 'default entry requested %s' % ('only for an unknown user' if ok else 'without a hasUser() test')
            else:
                ok = any(p for k, p in atoms)
                how = 'levels of the named user requested %s' % ('after hasUser() succeeded' if ok else 'without a hasUser() test')
            ctx.ob('C16.R2', f, c, ok, 'sink levels in %s' % f.name.split('::')[-1], how)
    if n < 6:
        raise AnalysisBroken('C16.R2: only %d instances' % n)


def r3(ctx):
    ctx.rule('C16.R3', 'Message::checkLevel accepts a hit only if it is delimited on both sides by the list separator or the '
             'string bounds, continues the search behind a rejected hit, and treats "*" as wildcard only as the whole list; '
             'hasLevel grants access to messages without level', minimum=3)
    fb = ctx.fb
    fn = fb.fn('ebusd::Message::checkLevel')
    ctx.touch(fn)
    rets = [r for r in fn.all('ReturnStmt') if fn.val(fn.nodes[r].get('val')) == 1]
    hit = None
    for r in rets:
        atoms = set((a[0], a[1]) for a in fn.atoms(r))
        if any('%s[' % fn.P(1) in k for k, p in atoms) or len(atoms) >= 2:
            hit = r
    lev, chk = fn.P(0), fn.P(1)
    import re
    # boundary tests are recognised by shape, whatever the locals are called: left (X == 0) or chk[X - 1] == ';',
    # right (X + L == M) or chk[X + L] == ';' with the same X and L; M holds the list length, L the token length
    keys = set()
    for b_ in fn.blocks.values():
        if b_.cond is not None and len(b_.succs) == 2:
            for pol in (True, False):
                for conj in facts.implied(fn, b_.cond, pol):
                    for a_ in conj:
                        keys.add(facts.atom_key(fn, a_)[0])
    ok_left = ok_right = False
    pos = ln = None
    for k in sorted(keys):
        m = re.match(r'^\(%s\[\((\w+) \+ (\w+)\)\] == #59\)$' % re.escape(chk), k)
        if m:
            pos, ln = m.group(1), m.group(2)
    lens = fn.local_where(lambda k, r: k in ('%s.length()' % lev, '%s.size()' % lev))
    maxs = fn.local_where(lambda k, r: k in ('%s.length()' % chk, '%s.size()' % chk))
    if hit is not None and pos is not None and ln in lens:
        ok_left = fn.needs_one_of(hit, [('(%s == #0)' % pos, True), ('(%s[(%s - #1)] == #59)' % (chk, pos), True)])
        ok_right = fn.needs_one_of(hit, [('((%s + %s) == %s)' % (pos, ln, mx), True) for mx in maxs + ['%s.length()' % chk, '%s.size()' % chk]] +
                                   [('(%s[(%s + %s)] == #59)' % (chk, pos, ln), True)])
    ctx.ob('C16.R3', fn, hit if hit is not None else fn.body, ok_left and ok_right, 'token boundaries',
           'left boundary checked: %s, right boundary checked: %s' % (ok_left, ok_right))
    adv = [nid for nid, d, rhs, op, lhs in fn.assignments() if pos and d and d.endswith(':' + pos) and op == '+=' and rhs is not None and fn.key(rhs) == ln]
    ctx.ob('C16.R3', fn, adv[0] if adv else fn.body, bool(adv), 'search continues behind a rejected hit', 'position += token length present: %s' % bool(adv))
    star = any(('(%s == "*")' % chk, True) in set((a[0], a[1]) for a in fn.atoms(r)) for r in rets)
    ctx.ob('C16.R3', fn, fn.body, star, 'wildcard', '"*" matches only as the complete list: %s' % star, nontrivial=False)
    hl = fb.fn('ebusd::Message::hasLevel')
    ctx.touch(hl)
    rk = hl.key(hl.nodes[hl.all('ReturnStmt')[0]]['val'])
    ok = rk.startswith('(this.m_level.empty() ?') and 'checkLevel(this.m_level,%s)' % hl.P(0) in rk
    ctx.ob('C16.R3', hl, hl.body, ok, 'hasLevel', rk[:160])


def r4(ctx):
    ctx.rule('C16.R4', 'the two level-filtered lookups filter every candidate itself: MessageMap::find(circuit, name, levels, '
             '...) returns a message only after hasLevel(levels) of that very message was true, and MessageMap::findAll '
             'appends a message to the result only after hasLevel(levels, ...) of that very message was true or the level '
             'list is the wildcard', minimum=2, star=True)
    fb = ctx.fb
    n = 0
    fa = fb.fn('ebusd::MessageMap::findAll')
    ctx.touch(fa)
    lv = fa.P(2)
    wild = fa.local_where(lambda k, r: k in ('(%s != "*")' % lv, '!(%s == "*")' % lv, 'std::operator!=(%s,"*")' % lv))
    for c in fa.all('CXXMemberCallExpr'):
        v = fa.nodes[c]
        if not (v.get('callee') or '').endswith('::push_back') or not v.get('args'):
            continue
        mv = fa.key(v['args'][0])
        n += 1
        alts = [(w, False) for w in wild] + [('%s.hasLevel(%s,%s)' % (mv, lv, fa.P(7)), True), ('%s.hasLevel(%s)' % (mv, lv), True),
                                              ('%s.hasLevel(%s,#1)' % (mv, lv), True)]
        ok = fa.needs_one_of(c, alts)
        ctx.ob('C16.R4', fa, c, ok, 'findAll appends %s' % mv, 'hasLevel(%s) of the appended message dominates: %s' % (lv, ok))
    fi = [f for f in fb.fns('ebusd::MessageMap::find') if 'MasterSymbolString' not in f.sig and len(f.params) >= 3]
    if len(fi) != 1:
        raise AnalysisBroken('C16.R4: MessageMap::find(circuit, name, levels, ...) not found')
    fi = fi[0]
    ctx.touch(fi)
    lv = fi.P(2)
    for r in fi.all('ReturnStmt'):
        rv = fi.nodes[r].get('val')
        if rv is None or fi.val(rv) == 0 or fi.key(rv) == '#0':
            continue
        mv = fi.key(rv)
        n += 1
        ok = fi.needs_one_of(r, [('%s.hasLevel(%s,#1)' % (mv, lv), True), ('%s.hasLevel(%s)' % (mv, lv), True)])
        ctx.ob('C16.R4', fi, r, ok, 'find returns %s' % mv, 'hasLevel(%s) of the returned message dominates: %s' % (lv, ok))
    if n < 2:
        raise AnalysisBroken('C16.R4: only %d result sites found' % n)


def r5(ctx):
    ctx.rule('C16.R5', 'UserList::checkSecret succeeds only if the presented secret equals the stored one as a whole string: '
             'every return that can be true requires the string equality (stored == presented) of the entry found for the '
             'user', minimum=1, star=True)
    fb = ctx.fb
    fn = fb.fn('ebusd::UserList::checkSecret')
    ctx.touch(fn)
    sec = fn.P(1)
    n = 0
    import re
    for r in fn.all('ReturnStmt'):
        rv = fn.nodes[r].get('val')
        if rv is None or fn.val(rv) == 0:
            continue
        n += 1
        need = re.compile(r'^\((?:.*\.second|\*?\w+) == %s\)$|^\(%s == (?:.*\.second|\*?\w+)\)$' % (re.escape(sec), re.escape(sec)))

        def eq_atoms(conj):
            return any(need.match(facts.atom_key(fn, a)[0]) and facts.atom_key(fn, a)[1] for a in conj)
        ok = True
        if fn.val(rv) == 1:
            # `return true`: the equality must dominate the return
            ok = any(need.match(k) and p for k, p in ((a[0], a[1]) for a in fn.atoms(r)))
        else:
            dnf = facts.implied(fn, rv, True)
            dom = any(need.match(k) and p for k, p in ((a[0], a[1]) for a in fn.atoms(r)))
            ok = dom or (bool(dnf) and all(eq_atoms(c) for c in dnf))
        ctx.ob('C16.R5', fn, r, ok, 'checkSecret result', 'true only with %s equal to the stored secret: %s (%s)' % (sec, ok, fn.key(rv)[:90]))
    if n == 0:
        raise AnalysisBroken('C16.R5: no accepting return in UserList::checkSecret')


def r6(ctx):
    ctx.rule('C16.R6', 'an ACL entry replaces the level list stored for its user name: in UserList::addFromFile the list that '
             'is stored into m_userLevels[name] is built from scratch (a fresh local, or the map entry is cleared first); '
             'appending to the entry that is already in the map accumulates the levels of an earlier entry or of the '
             '--accesslevel default', minimum=1)
    fb = ctx.fb
    fn = fb.fn('ebusd::UserList::addFromFile')
    ctx.touch(fn)
    # names bound to the map entry by reference
    refs = set()
    for nid, v in fn.nodes.items():
        if v['k'] == 'DeclStmt':
            for dd in v.get('decls', []):
                if 'init' in dd and fn.key(dd['init']).startswith('this.m_userLevels[') and (dd.get('t') or '').rstrip().endswith('&'):
                    refs.add(dd['name'])
    n = 0
    for nid, v in sorted(fn.nodes.items()):
        if v['k'] != 'CXXOperatorCallExpr' or v.get('op') not in ('=', '+=') or not v.get('args'):
            continue
        tgt = fn.key(v['args'][0])
        entry = tgt.startswith('this.m_userLevels[') or tgt in refs
        if not entry:
            continue
        n += 1
        if v['op'] == '=':
            src = fn.key(v['args'][1])
            # the assigned value: a local that was default constructed (or a literal)
            fresh = any(dd.get('name') == src and 'init' in dd and fn.key(dd['init']) in ('std::basic_string{}', '""')
                        for x, vv in fn.nodes.items() if vv['k'] == 'DeclStmt' for dd in vv.get('decls', [])) or src.startswith('"')
            ctx.ob('C16.R6', fn, nid, fresh, 'store into m_userLevels', 'assigns %s, built from scratch: %s' % (src, fresh))
        else:
            clears = set(c for c in fn.all('CXXMemberCallExpr') if (fn.nodes[c].get('callee') or '').endswith('::clear') and
                         fn.key(fn.nodes[c].get('obj', -1)) in (refs | {tgt}))
            clears |= set(x for x, vv in fn.nodes.items() if vv['k'] == 'CXXOperatorCallExpr' and vv.get('op') == '=' and vv.get('args') and
                          fn.key(vv['args'][0]) in (refs | {tgt}) and fn.key(vv['args'][1]) in ('""', 'std::basic_string{}'))
            dirty = fn.reaches_point(fn.entry, fn.pos(nid), clears)
            ctx.ob('C16.R6', fn, nid, not dirty, 'append to the stored level list', 'entry emptied before on every path: %s' % (not dirty))
    if n < 1:
        raise AnalysisBroken('C16.R6: no store into m_userLevels found in UserList::addFromFile')


def r7(ctx):
    ctx.rule('C16.R7', 'the data sinks (MQTT, KNX) look messages up with their configured level list or with the empty list (messages '
             'without level only): the level argument of every MessageMap::find(circuit, name, levels, ...) / findAll(...) in the '
             'handler classes is m_levels or "", never the wildcard or another list', minimum=6, star=True)
    fb = ctx.fb
    n = 0
    for fn in fb.functions:
        if not fn.blocks or not fn.relfile.startswith('src/ebusd/') or not fn.cls or not ('Handler' in fn.cls or 'DataSink' in fn.cls) \
                or fn.cls.endswith('BusHandler'):
            continue
        for c in fn.all('CXXMemberCallExpr'):
            v = fn.nodes[c]
            cal = v.get('callee') or ''
            if not ((cal.endswith('MessageMap::find') and 'MasterSymbolString' not in v.get('sig', '')) or cal.endswith('MessageMap::findAll')):
                continue
            if len(v.get('args', [])) < 3:
                continue
            n += 1
            a = fn.key(v['args'][2])
            ok = a == 'this.m_levels' or a.startswith('std::basic_string{""')
            ctx.ob('C16.R7', fn, c, ok, 'lookup levels in %s::%s' % (fn.cls.split('::')[-1], fn.name.split('::')[-1]), 'passes %s' % a[:60])
    if n < 6:
        raise AnalysisBroken('C16.R7: only %d filtered lookups found in the data sink classes' % n)


def r8(ctx):
    ctx.rule('C16.R8', 'the request loop filters with the levels of the user of the request at hand: in MainLoop::run every lookup '
             'with a level list that is not a constant gets getUserLevels(user) evaluated after the last point where the user '
             'of this request was determined (req->getUser(), decodeRequest(..., &user, ...)) on every path - a list kept from '
             'an earlier request belongs to another connection', minimum=1)
    fb = ctx.fb
    fn = fb.fn('ebusd::MainLoop::run')
    ctx.touch(fn)
    u = None
    for nid, d, rhs, op, lhs in fn.assignments():
        if op == 'init' and rhs is not None and '.getUser()' in fn.key(rhs):
            u = (nid, d)
    if u is None:
        raise AnalysisBroken('C16.R8: user of the request not found in MainLoop::run')
    uname = u[1].split(':')[-1]
    sources = [u[0]] + [c for c in fn.all('CallExpr', 'CXXMemberCallExpr') if any(fn.key(a) == '&' + uname for a in fn.nodes[c].get('args', []))]
    lookups = [c for c in fn.all('CXXMemberCallExpr') if (fn.nodes[c].get('callee') or '').split('::')[-1] in ('findAll', 'find')
               and (fn.nodes[c].get('callee') or '').startswith('ebusd::MessageMap::')]
    n = 0
    for c in lookups:
        # the level list argument: a getUserLevels() call, or a local that is assigned from one somewhere in the function
        a = None
        for cand in fn.nodes[c]['args']:
            cn = fn.nodes[fn.strip(cand, casts=True)]
            while cn.get('k') in ('CXXConstructExpr', 'CXXBindTemporaryExpr', 'MaterializeTemporaryExpr') and (cn.get('args') or cn.get('ch')):
                cn = fn.nodes[fn.strip((cn.get('args') or cn.get('ch'))[0], casts=True)]
            if cn.get('k') in ('CXXMemberCallExpr', 'CallExpr') and (cn.get('callee') or '').endswith('::getUserLevels'):
                a = cand
            elif cn.get('k') == 'DeclRefExpr' and any(d == cn.get('decl') and rhs is not None and '.getUserLevels(' in fn.key(rhs)
                                                    for nid, d, rhs, op, lhs in fn.assignments()):
                a = cand
        if a is None:
            continue
        an = fn.nodes[fn.strip(a, casts=True)]
        while an.get('k') in ('CXXConstructExpr', 'CXXBindTemporaryExpr', 'MaterializeTemporaryExpr') and (an.get('args') or an.get('ch')):
            an = fn.nodes[fn.strip((an.get('args') or an.get('ch'))[0], casts=True)]
        if an.get('k') == 'StringLiteral':
            continue        # constant list: C16.R7 / sinks
        n += 1
        if an.get('k') in ('CXXMemberCallExpr', 'CallExpr'):
            ok = (an.get('callee') or '').endswith('::getUserLevels') and fn.key(an['args'][0]) == uname
            ctx.ob('C16.R8', fn, c, ok, 'levels of the lookup', 'evaluated in place: %s' % fn.key(a)[:80])
            continue
        ld = an.get('decl')
        fresh = set(nid for nid, d, rhs, op, lhs in fn.assignments() if d == ld and rhs is not None and
                    'getUserLevels(%s)' % uname in fn.key(rhs))
        stale = []
        for s_ in sources:
            ps = fn.pos(s_)
            if ps is not None and fn.reaches_point(ps[0], fn.pos(c), fresh, start_idx=ps[1] + 1):
                stale.append(fn.line_of(s_))
        ctx.ob('C16.R8', fn, c, bool(fresh) and not stale, 'levels of the lookup', 'list can be older than the user determined at '
               'line(s) %s' % stale if stale or not fresh else 'getUserLevels(%s) behind every determination of the user' % uname)
    if n < 1:
        raise AnalysisBroken('C16.R8: no lookup with a user level list found in MainLoop::run')


def r11(ctx):
    ctx.rule('C16.R11', 'the access level of a legacy "circuit#level" default survives the insertion of the circuit suffix: where '
             'MessageMap::addDefaultFromFile rebuilds the value around the position of the marker "#", the head ends and the '
             'tail starts exactly at that position (substr(0, pos) ... substr(pos)), so that "#level" is kept for the parser '
             'of the level; a lost marker loads the messages without access level', minimum=1)
    fb = ctx.fb
    fn = fb.fn('ebusd::MessageMap::addDefaultFromFile')
    ctx.touch(fn)
    n = 0
    for nid, d, rhs, op, lhs in fn.assignments():
        if rhs is None or not d:
            continue
        r = fn.nodes[fn.strip(rhs, casts=True)]
        if r.get('k') != 'CXXMemberCallExpr' or (r.get('callee') or '').split('::')[-1] not in ('find', 'find_first_of') or \
                not r.get('args') or fn.val(r['args'][0]) != 35:
            continue
        pos = d.split(':')[-1]
        sk = fn.key(r['obj'])
        for x in fn.all('CXXMemberCallExpr'):
            v = fn.nodes[x]
            if (v.get('callee') or '').split('::')[-1] == 'insert' and fn.key(v.get('obj', -1)) == sk and v.get('args') and \
                    fn.key(v['args'][0]) == pos:
                n += 1
                ctx.ob('C16.R11', fn, x, True, 'insertion in front of "#"', '%s.insert(%s, ...) keeps the marker and the level' % (sk, pos))
                continue
            if (v.get('callee') or '').split('::')[-1] != 'substr' or fn.key(v.get('obj', -1)) != sk:
                continue
            args = [fn.key(a) for a in v.get('args', []) if 'CXXDefaultArgExpr' not in fn.key(a)]
            if not any(pos in a for a in args):
                continue
            n += 1
            if len(args) == 2 and args[1] == '#18446744073709551615':
                args = args[:1]     # the default count npos
            ok = args in (['#0', pos], [pos])
            ctx.ob('C16.R11', fn, x, ok, 'piece of the circuit value around "#"', '%s.substr(%s)' % (sk, ', '.join(args)))
    if n < 1:
        raise AnalysisBroken('C16.R11: rebuilding of the circuit value around "#" not found in addDefaultFromFile')


def r12(ctx):
    ctx.rule('C16.R12', 'every accepted ACL line defines its user: in UserList::addFromFile the store of the level list '
             '(m_userLevels[name] = ...) does not depend on the list itself - an empty list is an entry too: it makes the user '
             'known (hasUser) and replaces the preset default levels, otherwise an ACL line without levels leaves the '
             '--accesslevel default in force for that user or for everybody', minimum=1)
    fb = ctx.fb
    fn = fb.fn('ebusd::UserList::addFromFile')
    ctx.touch(fn)
    n = 0
    # a reference local bound to the map element stands for it
    refs = set(d.split(':')[-1] for nid, d, rhs, op, lhs in fn.assignments() if op == 'init' and d and rhs is not None and
               fn.key(rhs).startswith('this.m_userLevels['))
    for x in fn.all('CXXOperatorCallExpr'):
        v = fn.nodes[x]
        if v.get('op') != '=' or not v.get('args') or not (fn.key(v['args'][0]).startswith('this.m_userLevels[') or
                                                          fn.key(v['args'][0]) in refs):
            continue
        n += 1
        val = fn.ref_decl(v['args'][1])
        vn = val.split(':')[-1] if val else fn.key(v['args'][1])
        import re
        dep = sorted(k for k, p in set((a[0], a[1]) for a in fn.atoms(x)) if re.search(r'(?<![\w.])%s(?![\w])' % re.escape(vn), k))
        ctx.ob('C16.R12', fn, x, not dep, 'store of the level list of an ACL line', 'depends on %s' % dep if dep else 'unconditional for an accepted line')
    if n < 1:
        raise AnalysisBroken('C16.R12: store to m_userLevels not found in UserList::addFromFile')


def r13(ctx):
    ctx.rule('C16.R13', 'a message inherits the access level of its defaults row: the getDefault() call that yields the level in '
             'Message::create (the one that is handed the "level" column) is not marked "required" - with that flag an empty '
             'level column is returned as it is, the level of the *r / *w row is ignored and the message is loaded without '
             'access level, readable by everyone', minimum=1)
    fb = ctx.fb
    fn = fb.fn('ebusd::Message::create')
    ctx.touch(fn)
    n = 0
    for c in fn.calls('getDefault'):
        v = fn.nodes[c]
        args = v.get('args', [])
        if len(args) < 3 or '"level"' not in fn.key(args[2]):
            continue
        n += 1
        req = args[4] if len(args) > 4 else None
        rv = None if req is None else fn.nodes[fn.strip(req, casts=True)]
        ok = req is None or rv.get('k') == 'CXXDefaultArgExpr' or fn.val(req) == 0
        ctx.ob('C16.R13', fn, c, ok, 'default for the level column', 'an empty level falls back to the level of the defaults row: %s' % ok)
    if n < 1:
        raise AnalysisBroken('C16.R13: the getDefault call for the level column was not found in Message::create')


def r14(ctx):
    ctx.rule('C16.R14', 'levels are compared as they were written, letter case included ("contains exactly that level"): in the '
             'sources that produce or look up level strings no variable that is folded to lower or upper case (FileReader::tolower, '
             'tolower/toupper, also inside a transform) reaches a place where a level is kept or asked for - a constructor or '
             'function parameter called level / levels, the member m_level, the ACL map m_userLevels; folding both sides '
             'consistently still lets the granted level inst open a message of level INST', minimum=8)
    fb = ctx.fb
    n = 0
    seen = set()
    pnames = {}
    for f in fb.functions:
        pnames.setdefault(f.name, [p_['name'] for p_ in f.params])
    for fn in fb.functions:
        if not fn.relfile.startswith(('src/lib/ebus/message.', 'src/ebusd/mainloop.', 'src/ebusd/datahandler.')) or not fn.nodes or (fn.name, fn.sig) in seen:
            continue
        seen.add((fn.name, fn.sig))
        folded = {}
        charfold = None
        for c in fn.calls():
            v = fn.nodes[c]
            cal = (v.get('callee') or '')
            last = cal.split('::')[-1]
            if last in ('tolower', 'toupper') and v.get('args'):
                a = fn.nodes[fn.strip(v['args'][0], casts=True)]
                if a.get('k') == 'UnaryOperator' and a.get('op') == '&':
                    t = fn.nodes[fn.strip(a['ch'][0], casts=True)]
                    if t.get('name'):
                        folded[t['name']] = c
                elif cal in ('tolower', 'toupper', '::tolower', '::toupper'):
                    charfold = c
            if last == 'transform' and any(fn.key(a_) in ('tolower', 'toupper', '::tolower', '::toupper') for a_ in v.get('args', [])):
                t = fn.key(v['args'][0]).split('.')[0]
                folded[t] = c
        # sinks
        sinks = []
        for c in fn.calls():
            v = fn.nodes[c]
            names = pnames.get(v.get('callee')) or []
            for i, a in enumerate(v.get('args', [])):
                if i < len(names) and names[i] in ('level', 'levels'):
                    sinks.append((c, a, '%s(%s)' % ((v.get('callee') or '').split('::')[-1], names[i])))
        for nid, d, rhs, op, lhs in fn.assignments():
            if lhs is not None and rhs is not None and any(m_ in fn.key(lhs) for m_ in ('m_userLevels', 'm_level')):
                sinks.append((nid, rhs, fn.key(lhs)[:30]))
        for i in fn.inits:
            if i.get('member') in ('m_level', 'm_levels'):
                sinks.append((i['init'], i['init'], i['member']))
        for site, expr, what in sinks:
            n += 1
            ctx.touch(fn)
            used = set(fn.nodes[y].get('name') for y in fn.walk(expr) if fn.nodes[y]['k'] == 'DeclRefExpr')
            hit = sorted(x for x in used if x in folded)
            bad = bool(hit) or (charfold is not None and any(m_ in what for m_ in ('m_userLevels', 'm_level')))
            ctx.ob('C16.R14', fn, site, not bad, 'level handed to %s in %s' % (what, fn.name.split('::', 1)[-1]),
                   'not folded to one letter case before: %s%s' % (not bad, '' if not bad else ' (%s)' % (', '.join(hit) or 'characters are folded in this function')))
    if n < 8:
        raise AnalysisBroken('C16.R14: only %d places found where a level is kept or asked for' % n)


def r15(ctx):
    ctx.rule('C16.R15', 'a known user has exactly the levels of its own ACL entry, also when that list is empty: UserList::getLevels '
             'returns the entry found for the user; any further lookup (the default entry "") or other value is reached only '
             'when the user is not in the map (it == end()) - the fallback to the default levels for unknown users is the '
             'business of the callers, and an empty list must not be "upgraded" to the default levels', minimum=1)
    fb = ctx.fb
    fn = fb.fn('ebusd::UserList::getLevels')
    ctx.touch(fn)
    finds = [c for c in fn.calls('find') if 'm_userLevels' in fn.key(fn.nodes[c].get('obj', -1))]
    if not finds:
        raise AnalysisBroken('C16.R15: the lookup in m_userLevels was not found in getLevels')
    first = min(finds, key=lambda c: fn.line_of(c) * 1000 + c)
    itn = None
    for nid, d, rhs, op, lhs in fn.assignments():
        if rhs is not None and d and first in set(fn.walk(rhs)):
            itn = d.split(':')[-1]
    n = 0
    for c in finds:
        if c == first:
            continue
        n += 1
        ok = itn is not None and fn.block_of(c) is not None and fn.needs_one_of(c, [('(%s == this.m_userLevels.end())' % itn, True)]) and \
            not any('.empty()' in a[0] for a in fn.atoms(c))
        ctx.ob('C16.R15', fn, c, bool(ok), 'second lookup in getLevels', 'only for a user that is not in the map: %s' % bool(ok))
    # conditions that look at the content of the found entry decide nothing here
    for b in fn.blocks.values():
        if b.cond is not None and '.second.empty()' in fn.key(b.cond):
            n += 1
            ctx.ob('C16.R15', fn, b.cond, False, 'test of the found level list', 'the content of the entry decides which entry is returned: %s' % fn.key(b.cond)[:80])
    for x, v in fn.nodes.items():
        if v['k'] == 'ConditionalOperator' and '.second.empty()' in fn.key(v['cond']):
            n += 1
            ctx.ob('C16.R15', fn, x, False, 'test of the found level list', 'the content of the entry decides which entry is returned')
    if n == 0:
        ctx.ob('C16.R15', fn, first, True, 'lookup in getLevels', 'one lookup, its entry is returned')


def run(ctx):
    r15(ctx)
    r14(ctx)
    r13(ctx)
    r12(ctx)
    r11(ctx)
    r8(ctx)
    r1(ctx)
    r2(ctx)
    r3(ctx)
    r4(ctx)
    r5(ctx)
    r6(ctx)
    r7(ctx)
    import rules.common as _common
    ctx.rule('C16.R9', 'arguments keep their roles across calls: at every call of a repository function in the client and sink sources (circuit, name, level list and user keep their slots on the way to the lookup) whose arguments are named like parameters of the callee, no two of them are passed crosswise (argument i named like parameter j and argument j like parameter i)', minimum=12)
    _common.swapped_args_rule(ctx, 'C16.R9', ('src/ebusd/mainloop', 'src/ebusd/main.', 'src/ebusd/datahandler', 'src/ebusd/mqtt', 'src/ebusd/knx'), 12)
    import rules.C19 as _c19
    _c19.multiline_rule(ctx, 'C16.R10')
