"""rules about the command line / environment options of ebusd (src/ebusd/main_args.cpp, parse_opt).

The protocol properties quantify over "all handler configurations"; the configuration a handler runs with is what parse_opt
stores.  Two clauses of that function are necessary conditions of the protocol properties and are decided here:

  time_option_rule     the time options that still accept microseconds (a value above 1000) store milliseconds: evaluated
                       from the typed AST for every value of the accepted range
  readonly_combination_rule  the exclusion "read-only together with answer / SYN generation / initial send / scan" is tested
                       for every option (outside the switch over the option key), so that it does not depend on the order in
                       which the options are given
"""
import facts
from facts import AnalysisBroken

PARSE = 'ebusd::parse_opt'


def _parse_fn(fb, rid):
    fns = [f for f in fb.fns(PARSE) if f.relfile == 'src/ebusd/main_args.cpp']
    if len(fns) != 1:
        raise AnalysisBroken('%s: parse_opt of main_args.cpp not found' % rid)
    return fns[0]


def _case_groups(fn):
    """statement lists of the cases of the option switch (the switch with the most labels), following fall-through"""
    import rules.C14 as c14
    best = None
    for sw in fn.all('SwitchStmt'):
        g = c14.switch_groups(fn, sw)
        if best is None or len(g) > len(best):
            best = g
    return best or []


def time_option_rule(ctx, rid, fields=('receiveTimeout', 'acquireTimeout', 'extraLatency')):
    """for option values v of the range parseInt admits (all up to 2100, and k*1000-1, k*1000, k*1000+1 above): the statements of the option's case are evaluated from the typed
    AST (the number parsed = v, parse result OK); if the case stores a value at all (no rejecting return before the store), a
    v <= 1000 is meant as milliseconds and stored as it is, a v > 1000 is the old microsecond form and stored as v / 1000"""
    import tinyeval
    fb = ctx.fb
    fn = _parse_fn(fb, rid)
    ctx.touch(fn)
    n = 0
    asg = list(fn.assignments())
    groups = _case_groups(fn)
    for nid, d, rhs, op, lhs in asg:
        if lhs is None or rhs is None or op != '=':
            continue
        lk = fn.key(lhs)
        if not any(lk.endswith('.' + f) for f in fields):
            continue
        grp = None
        for labels, stmts in groups:
            if any(nid in set(fn.walk(st)) for st in stmts):
                grp = stmts
        if grp is None:
            raise AnalysisBroken('%s: the store into %s is not inside a case of the option switch' % (rid, lk))
        # the parseInt call of this case: target variable, range, result variable
        call = None
        for n2, d2, r2, o2, l2 in asg:
            if r2 is not None and any(n2 in set(fn.walk(st)) for st in grp) and fn.line_of(n2) <= fn.line_of(nid) and \
                    (fn.nodes[fn.strip(r2, casts=True)].get('callee') or '').endswith('parseInt'):
                call = (n2, d2, fn.nodes[fn.strip(r2, casts=True)])
        if call is None:
            raise AnalysisBroken('%s: the parseInt call for %s was not found' % (rid, lk))
        pnid, vd, cv = call
        lo, hi = fn.val(cv['args'][2]), fn.val(cv['args'][3])
        resname = None
        a4 = fn.nodes[fn.strip(cv['args'][4], casts=True)]
        if a4.get('k') == 'UnaryOperator' and a4.get('op') == '&':
            resname = fn.nodes[fn.strip(a4['ch'][0], casts=True)].get('decl')
        if lo is None or hi is None or hi > 2000000:
            raise AnalysisBroken('%s: range of the option stored into %s not constant' % (rid, lk))
        n += 1
        bad = []

        class _Stored(Exception):
            pass
        try:
            # every value up to 2100 (all thresholds of the conversion lie there), and around every multiple of 1000 above
            vs = set(range(lo, min(hi, 2100) + 1)) | {hi}
            for k in range(2, hi // 1000 + 1):
                vs |= {k * 1000 - 1, k * 1000, k * 1000 + 1}
            for v in sorted(x for x in vs if lo <= x <= hi):
                m = tinyeval.Machine(fn, {}, [], max_steps=4000)
                m.free = {'fprintf': lambda *a_: 0, 'ebusd::argParseError': lambda *a_: 0}
                got = [None]
                try:
                    started = False
                    for st in grp:
                        inside = set(fn.walk(st))
                        if pnid in inside:
                            m.locals[vd] = v
                            if resname:
                                m.locals[resname] = 0
                            started = True
                            continue
                        if not started:
                            continue
                        if nid in inside and fn.strip(st) == nid or nid == st:
                            got[0] = m.rv(rhs)
                            raise _Stored()
                        if nid in inside:
                            raise tinyeval.Unknown('the store is nested in another statement')
                        m.st(st)
                except tinyeval._Return:
                    continue        # rejected
                except tinyeval._Break:
                    continue
                except _Stored:
                    pass
                if got[0] is None:
                    continue
                want = v if v <= 1000 else v // 1000
                if got[0] != want and len(bad) < 3:
                    bad.append('%d is stored as %d (expected %d ms)' % (v, got[0], want))
        except tinyeval.Unknown as e:
            raise AnalysisBroken('%s: option conversion for %s not evaluable (%s)' % (rid, lk, e))
        ctx.ob(rid, fn, nid, not bad, 'option value stored into %s' % lk.split('.')[-1],
               'milliseconds for every accepted value tried in %d..%d (all up to 2100, around every multiple of 1000 above): %s%s' % (lo, hi, not bad, '' if not bad else ' - ' + '; '.join(bad)))
    if n < len(fields):
        raise AnalysisBroken('%s: only %d of the time options found in parse_opt' % (rid, n))


def readonly_combination_rule(ctx, rid):
    """some rejecting return of parse_opt is guarded by readOnly together with answer (and the other sending features) and is
    not inside a case of the option switch"""
    fb = ctx.fb
    fn = _parse_fn(fb, rid)
    ctx.touch(fn)
    feats = ('answer', 'generateSyn', 'initialSend')
    found = []
    for r in fn.all('ReturnStmt'):
        val = fn.nodes[r].get('val')
        if val is None or fn.val(val) in (0, None):
            continue
        # the conditions of the if statements the return stands in (the || of the features is one condition, no single
        # CFG edge stands for it)
        conds = []
        in_case = False
        child, par = r, fn.parent(r)
        while par is not None:
            pv = fn.nodes[par]
            if pv['k'] == 'IfStmt' and pv.get('then') is not None and child in set(fn.walk(pv['then'])):
                conds.append(fn.key(pv['cond']))
            if pv['k'] == 'SwitchStmt':
                in_case = True
            child, par = par, fn.parent(par)
        txt = ' '.join(conds)
        if '.readOnly' not in txt or not all(('.' + f) in txt for f in feats):
            continue
        found.append((r, in_case))
    ok = any(not c for r, c in found)
    site = found[0][0] if found else fn.body
    ctx.ob(rid, fn, site, ok, 'read-only excludes answer / SYN generation / initial send',
           'rejected for every option order (the test stands outside the cases of the option switch): %s%s' % (
               ok, '' if found else ' - no rejection guarded by readOnly and the sending features found'))
