"""rules about the command line / environment options of ebusd (src/ebusd/main_args.cpp, parse_opt).

The protocol properties quantify over "all handler configurations"; the configuration a handler runs with is what parse_opt
stores.  Two clauses of that function are necessary conditions of the protocol properties and are decided here:

  time_option_rule     the time options that still accept microseconds (a value above 1000) store milliseconds: evaluated
                       from the typed AST for every value of the accepted range
  readonly_combination_rule  the exclusion "read-only together with answer / SYN generation / initial send / scan" is tested
                       for every option (outside the switch over the option key), so that it does not depend on the order in
                       which the options are given
"""
import facts
from facts import AnalysisBroken

PARSE = 'ebusd::parse_opt'


def _parse_fn(fb, rid):
    fns = [f for f in fb.fns(PARSE) if f.relfile == 'src/ebusd/main_args.cpp']
    if len(fns) != 1:
        raise AnalysisBroken('%s: parse_opt of main_args.cpp not found' % rid)
    return fns[0]


def time_option_rule(ctx, rid, fields=('receiveTimeout', 'acquireTimeout', 'extraLatency')):
    """for every option value v that is accepted: v <= 1000 is meant as milliseconds and stored as it is, v > 1000 is the
    old microsecond form and stored as v / 1000"""
    import tinyeval
    fb = ctx.fb
    fn = _parse_fn(fb, rid)
    ctx.touch(fn)
    n = 0
    asg = list(fn.assignments())
    for nid, d, rhs, op, lhs in asg:
        if lhs is None or rhs is None or op != '=':
            continue
        lk = fn.key(lhs)
        if not any(lk.endswith('.' + f) for f in fields):
            continue
        # the number parsed for this option: the local the stored expression mentions
        locs = sorted(set(fn.nodes[x]['decl'] for x in fn.walk(rhs) if fn.nodes[x]['k'] == 'DeclRefExpr' and fn.nodes[x].get('rk') == 'local'))
        if len(locs) != 1:
            raise AnalysisBroken('%s: the value stored into %s does not come from one parsed number' % (rid, lk))
        vd = locs[0]
        # its range: the parseInt call that defines it last in front of the store
        defs = [(fn.line_of(n2), r2) for n2, d2, r2, o2, l2 in asg if d2 == vd and r2 is not None and fn.line_of(n2) <= fn.line_of(nid)
                and (fn.nodes[fn.strip(r2, casts=True)].get('callee') or '').endswith('parseInt')]
        if not defs:
            raise AnalysisBroken('%s: the parseInt call for %s was not found' % (rid, lk))
        call = fn.nodes[fn.strip(sorted(defs)[-1][1], casts=True)]
        lo, hi = fn.val(call['args'][2]), fn.val(call['args'][3])
        resname = None
        a4 = fn.nodes[fn.strip(call['args'][4], casts=True)]
        if a4.get('k') == 'UnaryOperator' and a4.get('op') == '&':
            resname = fn.nodes[fn.strip(a4['ch'][0], casts=True)].get('decl')
        if lo is None or hi is None or hi > 2000000:
            raise AnalysisBroken('%s: range of the option stored into %s not constant' % (rid, lk))
        guards = [(c, pol) for c, pol, b in fn.guards(nid) if not isinstance(pol, tuple) and
                  any(fn.nodes[x].get('decl') == vd for x in fn.walk(c) if fn.nodes[x]['k'] == 'DeclRefExpr')]
        n += 1
        bad = []
        try:
            for v in range(lo, hi + 1):
                m = tinyeval.Machine(fn, {}, [])
                m.locals[vd] = v
                if resname:
                    m.locals[resname] = 0
                if not all(bool(m.rv(c)) == pol for c, pol in guards):
                    continue
                got = m.rv(rhs)
                want = v if v <= 1000 else v // 1000
                if got != want:
                    if len(bad) < 3:
                        bad.append('%d is stored as %d (expected %d ms)' % (v, got, want))
        except tinyeval.Unknown as e:
            raise AnalysisBroken('%s: option conversion for %s not evaluable (%s)' % (rid, lk, e))
        ctx.ob(rid, fn, nid, not bad, 'option value stored into %s' % lk.split('.')[-1],
               'milliseconds for every accepted value %d..%d: %s%s' % (lo, hi, not bad, '' if not bad else ' - ' + '; '.join(bad)))
    if n < len(fields):
        raise AnalysisBroken('%s: only %d of the time options found in parse_opt' % (rid, n))


def readonly_combination_rule(ctx, rid):
    """some rejecting return of parse_opt is guarded by readOnly together with answer (and the other sending features) and is
    not inside a case of the option switch"""
    fb = ctx.fb
    fn = _parse_fn(fb, rid)
    ctx.touch(fn)
    feats = ('answer', 'generateSyn', 'initialSend')
    found = []
    for r in fn.all('ReturnStmt'):
        val = fn.nodes[r].get('val')
        if val is None or fn.val(val) in (0, None):
            continue
        # the conditions of the if statements the return stands in (the || of the features is one condition, no single
        # CFG edge stands for it)
        conds = []
        in_case = False
        child, par = r, fn.parent(r)
        while par is not None:
            pv = fn.nodes[par]
            if pv['k'] == 'IfStmt' and pv.get('then') is not None and child in set(fn.walk(pv['then'])):
                conds.append(fn.key(pv['cond']))
            if pv['k'] == 'SwitchStmt':
                in_case = True
            child, par = par, fn.parent(par)
        txt = ' '.join(conds)
        if '.readOnly' not in txt or not all(('.' + f) in txt for f in feats):
            continue
        found.append((r, in_case))
    ok = any(not c for r, c in found)
    site = found[0][0] if found else fn.body
    ctx.ob(rid, fn, site, ok, 'read-only excludes answer / SYN generation / initial send',
           'rejected for every option order (the test stands outside the cases of the option switch): %s%s' % (
               ok, '' if found else ' - no rejection guarded by readOnly and the sending features found'))
