"""C02 - active requests: wire format and truthful result (structural clauses over the extracted automaton).

C02.R1 (core) send-state transitions are contained in the reference automaton; an exchange of an own request ends in sendSyn
C02.R2 (core) escaping on send (shared escape table, see C11.R3) and the symbol chosen per send state
C02.R3 (core) one repetition per part (typestate of m_repeat) on the active path
C02.R4        ACK iff CRC valid
C02.R5        echo check dominates every use of the received symbol while sending
C02.R6        result hand-over to the request in setState / sendAndWait
"""
import facts
from facts import AnalysisBroken
import rules.automaton as A
import rules.C01 as C01

ACTIVE = ['bs_sendCmd', 'bs_sendCmdCrc', 'bs_sendResAck', 'bs_sendSyn']
ACK, NAK, SYN, ESC = 0x00, 0xFF, 0xAA, 0xA9


def r1(ctx):
    ctx.rule('C02.R1', 'every setState() transition out of an active send state (sendCmd, sendCmdCrc, sendResAck, sendSyn) '
             'matches a row of the reference automaton and every reference row exists; whenever a telegram of an own '
             'request is reported complete (messageCompleted with m_currentRequest set) the next state is sendSyn', minimum=10,
             star=True)
    n = A.compare(ctx, 'C02.R1', ACTIVE)
    fb = ctx.fb
    fn, sw, regs, edges, rmap = A.extracted_edges(fb)
    states, _ = A.bus_states(fb)
    inv = {v: k for k, v in states.items()}
    # after messageCompleted() with an own request -> sendSyn
    for c in fn.calls('ebusd::DirectProtocolHandler::messageCompleted', suffix=False):
        blk = fn.block_of(c)
        src = [states[v] for v, reg in regs.items() if blk in reg]
        if len(src) != 1:
            continue
        lab = sw['labels'][inv[src[0]]]
        g = set((A.canon(a[0], rmap), a[1]) for a in fn.atoms(c, frm=lab))
        own = ('(this.m_currentRequest == #0)', False) in g or src[0] in ('bs_sendCmdCrc', 'bs_sendResAck')
        if not own:
            continue
        n += 1
        # the setState call following in the same block
        nxt = [e for e in edges if fn.block_of(e['node']) == blk and fn.pos(e['node'])[1] > fn.pos(c)[1]]
        ok = bool(nxt) and nxt[0]['to'] == ['bs_sendSyn']
        ctx.ob('C02.R1', fn, c, ok, 'own telegram complete in %s' % src[0].replace('bs_', ''),
               'exchange closed with %s' % (nxt[0]['to'] if nxt else 'nothing'))
    if n < 10:
        raise AnalysisBroken('C02.R1: only %d instances' % n)


def r2(ctx):
    ctx.rule('C02.R2', 'in handleSend each send state selects its symbol from the right source: sendCmd -> next master symbol '
             'of the request, sendCmdCrc/sendResCrc -> m_crc, sendRes -> next response symbol, sendSyn -> SYN, and the device '
             'send() is reached only through the escape block (C11.R3 checks the escape table itself)', minimum=5, star=True)
    fb = ctx.fb
    fn = fb.fn(A.HS)
    ctx.touch(fn)
    states, _ = A.bus_states(fb)
    inv = {v: k for k, v in states.items()}
    sw = A.main_switch(fn)
    regs = A.regions(fn, sw)
    want = {
        'bs_sendCmd': ['this.m_currentRequest.getMaster()[this.m_nextSendPos]'],
        'bs_sendCmdCrc': ['this.m_crc'],
        'bs_sendRes': ['this.m_response[this.m_nextSendPos]'],
        'bs_sendResCrc': ['this.m_crc'],
        'bs_sendSyn': ['#%d' % SYN],
    }
    sym = None
    sends = [c for c in fn.all('CXXMemberCallExpr') if (fn.nodes[c].get('callee') or '').endswith('Device::send')]
    if len(sends) != 1:
        raise AnalysisBroken('C02.R2: expected one device send in handleSend, found %d' % len(sends))
    sym = fn.key(fn.nodes[sends[0]]['args'][0])
    got = {}
    for nid, d, rhs, op, lhs in fn.assignments():
        if d and d.split(':')[-1] == sym and op == '=' and rhs is not None:
            blk = fn.block_of(nid)
            src = [states[v] for v, reg in regs.items() if blk in reg]
            for st in src:
                got.setdefault(st, []).append((nid, fn.key(rhs)))
    for st, exp in want.items():
        g = got.get(st, [])
        ok = [k for _, k in g] == exp
        ctx.ob('C02.R2', fn, g[0][0] if g else fn.body, ok, 'symbol source in %s' % st.replace('bs_', ''),
               'sends %s, expected %s' % ([k for _, k in g], exp))
    # every symbol except the closing SYN is examined for ESC/SYN before it is handed to the device:
    # cutting the "state is sendSyn" exemption edge and both outcomes of the (symbol == ESC) test must disconnect send()
    syn_state = '(this.m_state == #%d)' % inv['bs_sendSyn']
    cut = fn.edges_with_atom(syn_state, True) + fn.edges_with_atom('(%s == #%d)' % (sym, ESC), True) + \
        fn.edges_with_atom('(%s == #%d)' % (sym, ESC), False)
    ok = bool(cut) and fn.block_of(sends[0]) not in fn.reach([fn.entry], cut_edges=cut)
    ctx.ob('C02.R2', fn, sends[0], ok, 'escape test covers every send state',
           'every path to send() either is the closing SYN or tests the symbol for ESC/SYN: %s' % ok)
    return sym


def r3(ctx):
    n = C01.repeat_rule(ctx, 'C02.R3', ACTIVE + ['bs_recvCmdAck', 'bs_recvResCrc', 'bs_ready'], 4)


def r4(ctx):
    ctx.rule('C02.R4', 'the acknowledge ebusd sends (sendResAck for a received response, sendCmdAck when answering) is '
             'm_crcValid ? ACK : NAK', minimum=2)
    fb = ctx.fb
    fn = fb.fn(A.HS)
    ctx.touch(fn)
    states, _ = A.bus_states(fb)
    sw = A.main_switch(fn)
    regs = A.regions(fn, sw)
    n = 0
    for nid, d, rhs, op, lhs in fn.assignments():
        if rhs is None or op != '=':
            continue
        blk = fn.block_of(nid)
        src = [states[v] for v, reg in regs.items() if blk in reg]
        if src and src[0] in ('bs_sendResAck', 'bs_sendCmdAck') and d and 'ymbol' in d:
            n += 1
            k = fn.key(rhs)
            ok = k in ('(this.m_crcValid ? #%d : #%d)' % (ACK, NAK), '(!this.m_crcValid ? #%d : #%d)' % (NAK, ACK))
            ctx.ob('C02.R4', fn, nid, ok, 'acknowledge in %s' % src[0].replace('bs_', ''), 'sends %s' % k)
    if n < 2:
        raise AnalysisBroken('C02.R4: acknowledge selection not found')


def r5(ctx):
    ctx.rule('C02.R5', 'while sending (and not arbitrating) a received symbol that differs from the sent one leads to skip with '
             'RESULT_ERR_SYMBOL before the per-state switch is reached', minimum=1)
    fb = ctx.fb
    fn, sw, regs, edges, rmap = A.extracted_edges(fb)
    states, _ = A.bus_states(fb)
    inv = {v: k for k, v in states.items()}
    e = [x for x in edges if not x['from'] and x['result'] == 'RESULT_ERR_SYMBOL']
    if not e:
        ctx.ob('C02.R5', fn, fn.body, False, 'echo check', 'no transition with RESULT_ERR_SYMBOL: a wrong echo is not detected')
        return
    for x in e:
        need = [('(recvSymbol == sentSymbol)', False), ('sending', True), ('(this.m_state == #%d)' % inv['bs_ready'], False)]
        missing = [a for a in need if a not in x['guards']]
        ok = x['to'] == ['bs_skip'] and not missing
        # and it precedes the main switch: main switch head not reachable when the mismatch edge is taken
        mism = fn.edges_with_atom('(%s == %s)' % ([k for k, v in rmap.items() if v == 'recvSymbol'][0],
                                                   [k for k, v in rmap.items() if v == 'sentSymbol'][0]), False)
        ctx.ob('C02.R5', fn, x['node'], ok, 'echo mismatch -> skip', 'target %s, missing guards %s' % (x['to'], missing))


def notified_value_ok(fn, expr, pres):
    """the value handed to notify() as a function of the result parameter, evaluated for the cases negative (-k), 0 and
    positive (+k, further input buffered): a negative result passes unchanged or as another negative code (SYN->TIMEOUT),
    0 stays 0 and a positive result is reported as 0 - callers take every non-zero value for a failure"""
    def ev(x, r):
        x = fn.strip(x, casts=True)
        v = fn.nodes[x]
        if fn.val(x) is not None:
            return [fn.val(x)]
        if v['k'] == 'DeclRefExpr' and v.get('name') == pres:
            return [r]
        if v['k'] == 'ConditionalOperator':
            c = cond(v['cond'], r)
            out = []
            if c in (True, None):
                out += ev(v['then'], r)
            if c in (False, None):
                out += ev(v['else'], r)
            return out
        return [None]

    def cond(x, r):
        x = fn.strip(x, casts=True)
        v = fn.nodes[x]
        if v['k'] == 'BinaryOperator' and v.get('op') in ('&&', '||'):
            a, b = cond(v['lhs'], r), cond(v['rhs'], r)
            if v['op'] == '&&':
                return False if (a is False or b is False) else (True if (a is True and b is True) else None)
            return True if (a is True or b is True) else (False if (a is False and b is False) else None)
        if v['k'] == 'BinaryOperator' and v.get('op') in ('<', '>', '<=', '>=', '==', '!='):
            l, rr = ev(v['lhs'], r), ev(v['rhs'], r)
            if len(l) == 1 and len(rr) == 1 and l[0] is not None and rr[0] is not None:
                return {'<': l[0] < rr[0], '>': l[0] > rr[0], '<=': l[0] <= rr[0], '>=': l[0] >= rr[0],
                        '==': l[0] == rr[0], '!=': l[0] != rr[0]}[v['op']]
        return None
    neg = ev(expr, -1000003)     # a generic negative code that equals no enumerator
    zero = ev(expr, 0)
    pos = ev(expr, 1)
    return all(x is not None and x < 0 for x in neg) and zero == [0] and pos == [0]


def r6(ctx):
    ctx.rule('C02.R6', 'setState hands the result to the request (notify) exactly when the exchange is closed (state sendSyn) '
             'or failed (negative result that is not a first repetition); a negative result is passed on as a negative code '
             '(SYN->TIMEOUT mapping), 0 as 0 and a positive result (further input buffered) as 0; sendAndWait returns the '
             'request result only after addRequest succeeded',
             minimum=2)
    fb = ctx.fb
    fn = fb.fn(A.SS)
    ctx.touch(fn)
    states, _ = A.bus_states(fb)
    inv = {v: k for k, v in states.items()}
    notifies = [c for c in fn.all('CXXMemberCallExpr') if (fn.nodes[c].get('callee') or '').endswith('BusRequest::notify')]
    if len(notifies) < 2:
        raise AnalysisBroken('C02.R6: notify calls in setState not found')
    for c in notifies:
        a0 = fn.key(fn.nodes[c]['args'][0])
        atoms = set((a[0], a[1]) for a in fn.atoms(c))
        pst, pres, pfirst = fn.P(0), fn.P(1), fn.P(2)
        if pres in a0:
            ok1 = fn.needs_one_of(c, [('(%s == #%d)' % (pst, inv['bs_sendSyn']), True), (pfirst, False)])
            ok2 = ('(this.m_currentRequest == #0)', False) in atoms
            okarg = notified_value_ok(fn, fn.nodes[c]['args'][0], pres)
            ctx.ob('C02.R6', fn, c, ok1 and ok2 and okarg, 'notify(result)',
                   'only when closed or failed without pending repetition: %s; request present: %s; argument %s' % (ok1, ok2, a0[:80]))
        else:
            ok = ('(%s == #%d)' % (pst, inv['bs_noSignal']), True) in atoms
            ctx.ob('C02.R6', fn, c, ok, 'notify(%s)' % a0, 'drain of pending requests only on signal loss: %s' % ok)
    sw = fb.fn('ebusd::ProtocolHandler::sendAndWait')
    ctx.touch(sw)
    for r in sw.all('ReturnStmt'):
        rv = sw.nodes[r].get('val')
        if rv is not None and 'm_result' in sw.key(rv):
            pass
    uses = [nid for nid, v in sw.nodes.items() if v['k'] == 'MemberExpr' and v.get('name') == 'm_result']
    for u in uses:
        atoms = set((a[0], a[1]) for a in sw.atoms(u))
        # a flag variable defined once as `x == RESULT_OK` counts as that comparison
        import rules.common as common
        env = common.IntervalEnv(sw)
        ext = set(atoms)
        for k, p in atoms:
            if k.isidentifier() and p:
                for nid2, d2, rhs2, op2, lhs2 in sw.assignments():
                    if d2 and d2.split(':')[-1] == k and op2 == 'init' and rhs2 is not None and env.single_def(d2) is not None:
                        ext.add((sw.key(rhs2), True))
        atoms = ext
        ok = any(k.startswith('(') and k.endswith('== #0)') and p for k, p in atoms)
        ctx.ob('C02.R6', sw, u, ok, 'request result read in sendAndWait', 'guards %s' % sorted(a for a in atoms if 'result' in a[0] or 'ret' in a[0]))


def part_restart_rule(ctx, rid, from_states, minimum):
    ctx.rule(rid, 'a part that is repeated after a NAK starts from scratch: every NAK transition back to sendCmd/recvCmd '
             'passes m_crc = 0 (the response parts get it from setState), a repeated own command/response restarts at send '
             'position 0, and a part that is received again clears the bytes collected so far', minimum=minimum, star=True)
    fb = ctx.fb
    fn, sw, regs, edges, rmap = A.extracted_edges(fb)
    states, _ = A.bus_states(fb)
    inv = {v: k for k, v in states.items()}

    def assigns(name, val):
        return set(nid for nid, d, rhs, op, lhs in fn.assignments() if d == name and rhs is not None and fn.val(rhs) == val)

    def clears(name):
        return set(c for c in fn.all('CXXMemberCallExpr') if (fn.nodes[c].get('callee') or '').endswith('::clear') and
                   fn.key(fn.nodes[c].get('obj', -1)) == name)
    crc0 = assigns('this.m_crc', 0)
    pos0 = assigns('this.m_nextSendPos', 0)
    n = 0
    for e in edges:
        if len(e['from']) != 1 or e['from'][0] not in from_states or e['result'] != 'RESULT_ERR_NAK':
            continue
        if ('this.m_repeat', False) not in e['guards']:
            continue
        lab = sw['labels'][inv[e['from'][0]]]
        c = e['node']
        to = e['to']
        need = []
        if to in (['bs_sendCmd'], ['bs_recvCmd']):
            need.append(('m_crc = 0', crc0))
        if to in (['bs_sendCmd'], ['bs_sendRes']):
            need.append(('m_nextSendPos = 0', pos0))
        if to == ['bs_recvCmd']:
            need.append(('m_command.clear()', clears('this.m_command')))
        if to == ['bs_recvRes']:
            need.append(('m_response.clear()', clears('this.m_response')))
        for what, sites in need:
            n += 1
            ok = bool(sites) and not fn.reaches_point(lab, fn.pos(c), sites)
            ctx.ob(rid, fn, c, ok, 'restart %s -> %s: %s' % (e['from'][0].replace('bs_', ''), to[0].replace('bs_', ''), what),
                   'executed on every path of this repetition: %s' % ok)
    return n


def r7(ctx):
    part_restart_rule(ctx, 'C02.R7', ['bs_recvCmdAck', 'bs_sendResAck', 'bs_recvResAck', 'bs_sendCmdAck'], 6)


def r13(ctx):
    ctx.rule('C02.R13', 'sibling agreement of the send states: in every send state (sendCmd, sendCmdCrc, sendResAck, sendCmdAck, '
             'sendRes, sendResCrc, sendSyn) a received symbol advances the exchange only if ebusd really sent a symbol in this '
             'step (guard "sending"); without it the state is left with an error. A state without this guard lets a symbol '
             'that was merely buffered stand for the echo of a symbol that was never transmitted', minimum=10, star=True)
    fb = ctx.fb
    fn, sw, regs, edges, rmap = A.extracted_edges(fb)
    n = 0
    for e in edges:
        if len(e['from']) != 1 or not e['from'][0].startswith('bs_send'):
            continue
        n += 1
        g = set((a, b) for a, b in e['guards'])
        ok = ('sending', True) in g or (('sending', True) not in g and e['result'] == 'RESULT_ERR_INVALID_ARG' and
                                        set(e['to']) <= {'bs_skip', 'bs_ready'})
        ctx.ob('C02.R13', fn, e['node'], ok, '%s -> %s (%s)' % (e['from'][0], '/'.join(e['to']), e['result']),
               'requires a sent symbol: %s' % (('sending', True) in g))
    if n < 10:
        raise AnalysisBroken('C02.R13: only %d transitions out of send states found' % n)


def run(ctx):
    import rules.C04 as _c04s
    ctx.borrow(_c04s.r15, {'C04.R15': 'C02.R22'}, 'a request is reported as sent only after its own valid exchange: a request that stays current over a SYN is completed with the data of the next foreign telegram')
    import rules.common as _cm
    ctx.rule('C02.R21', "a value is compared with a constant in the domain of its own type: in the sources of this property every comparison of a variable, member, element or call result with an integer constant (==, !=) has the constant inside the value range of the operand's own integer type before promotion - a symbol held in a signed char never equals 0xA9/0xAA/0xFE, so the escape, SYN or broadcast test behind it is dead for exactly the symbols it exists for", minimum=60)
    _cm.compare_domain_rule(ctx, 'C02.R21', lambda f: f.relfile.startswith(('src/lib/ebus/protocol', 'src/lib/ebus/symbol.', 'src/lib/ebus/device')), 60)
    import rules.options as _opt
    ctx.rule('C02.R20', 'the timeouts the exchange runs with are the configured ones: for every accepted value of --receivetimeout, --acquiretimeout and --latency (the statements of the option case evaluated from the typed AST for every value up to 2100 and around every multiple of 1000 of the accepted range) a value up to 1000 is stored as milliseconds unchanged and a value above 1000 (old microsecond form) as value / 1000; a documented value that is stored as 0 makes ebusd give up a valid exchange without waiting for the ACK', minimum=3)
    _opt.time_option_rule(ctx, 'C02.R20')
    import rules.C03 as c03
    c03.initial_state_rule(ctx, 'C02.R16')
    r13(ctx)
    r7(ctx)
    r1(ctx)
    r2(ctx)
    r3(ctx)
    r4(ctx)
    r5(ctx)
    r6(ctx)
    import rules.C01 as c01
    ctx.rule('C02.R8', 'no exit of handleReceive lies between the reception of a symbol and the CRC update other than the '
             'transitions that restart reception and the own AUTO-SYN: the CRC that is sent covers every echoed symbol of the '
             'escaped sequence', minimum=4)
    ctx.rule('C02.R9', 'the echo comparison sees the symbols as sent and received: neither is reassigned before it and it '
             'precedes the CRC update and the unescaping', minimum=2)
    c01.raw_symbol_rules(ctx, 'C02.R8', 'C02.R9')
    ctx.borrow(c01.r7, {'C01.R7': 'C02.R10'},
               'the CRC byte ebusd transmits is accumulated in the same register; a value left over from a stray symbol '
               'before the SYN makes the first transmission of the next own telegram carry a wrong CRC')
    import rules.C14 as c14
    ctx.borrow(c14.run, {'C14.R3': 'C02.R11', 'C14.R4': 'C02.R12'},
               'with an enhanced adapter the echo of every sent symbol and the slave response pass the frame decoder; a '
               'symbol it drops makes a valid exchange fail')
    import rules.C11 as c11
    ctx.borrow(c11.r1, {'C11.R1': 'C02.R14'},
               'the CRC byte ebusd transmits and the check of the slave response CRC are computed with this table')
    import rules.C09 as c09
    c09.symbol_layout_rule(ctx, 'C02.R15')
    import rules.C14 as _c14
    _c14.overflow_threshold_rule(ctx, 'C02.R17')
    import rules.C11 as _c11
    _c11.crc_start_rule(ctx, 'C02.R18')
    import rules.C01 as _c01
    _c01.unescape_rule(ctx, 'C02.R19')
