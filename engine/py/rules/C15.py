"""C15 - answer mode (structural clauses).

C15.R1 (core) every createAnswerKey call establishes idLen <= 4; under the callers' range the fold shifts stay in [0,24]
C15.R2 (core) reduce / lookup masks in getAnswer and hasAnswer match the field layout that createAnswerKey builds
C15.R3        registration guard of setAnswer
C15.R4        the answering flag is set from getAnswer() only under a valid CRC
"""
import facts
from facts import AnalysisBroken
import rules.common as common
import rules.layout as layout

CAK = 'ebusd::DirectProtocolHandler::createAnswerKey'
U64 = (1 << 64) - 1


def key_layout(ctx):
    fn = ctx.fb.fn(CAK)
    ctx.touch(fn)
    acc = layout.accumulator(fn)
    if acc is None:
        raise AnalysisBroken('C15: key accumulator of createAnswerKey not found')
    pl = layout.placements(fn, acc)
    fields = {}
    for p in pl:
        if isinstance(p['shift'], int):
            fields[p['src']] = p
    fold = layout.fold_schedule(fn, layout.fold_counter(fn, acc) or 'exp')
    pn = [p['name'] for p in fn.params]
    if fold['init'] is None:
        # no separate counter: the shift is written as 8 * (N - position)
        import re
        for p in pl:
            m = re.match(r'^\(#8 \* \(#(\d+) - \w+\)\)$', str(p['shift']))
            if m:
                fold['init'] = int(m.group(1))
    if fold['init'] is None:
        raise AnalysisBroken('C15: ID byte fold schedule of createAnswerKey not recognised')
    if not getattr(ctx, '_c15_len_seen', False):
        ctx._c15_len_seen = True
        ctx.rule('C15.R17', 'registered IDs of different length have different keys: createAnswerKey places its ID length parameter '
                 'into the key (the ID bytes are folded into fixed positions, so without the length a trailing 00 of a '
                 'registered ID cannot be told from "no further byte": 0d00 would answer 0d2a and 0d, and IDs that differ by '
                 'trailing zeros replace each other)', minimum=1)
        has_len = len(pn) > 5 and pn[5] in fields
        ctx.ob('C15.R17', fn, fn.body, has_len, 'ID length in the answer key',
               'the length parameter is shifted into the key: %s (fields placed: %s)' % (has_len, sorted(fields)))
    try:
        lay = {
            'len': fields[pn[5]]['shift'],
            'src': [p for p in pl if 'getMasterNumber' in p['src']][0]['shift'],
            'dst': fields[pn[1]]['shift'],
            'pb': fields[pn[2]]['shift'],
            'sb': fields[pn[3]]['shift'],
            'fold_init': fold['init'],
        }
    except (KeyError, IndexError):
        raise AnalysisBroken('C15: createAnswerKey field placements not recognised: %s' % [(p['src'], p['shift']) for p in pl])
    return fn, pl, fold, lay


def r1(ctx):
    ctx.rule('C15.R1', 'every call of createAnswerKey passes an ID length that is at most 4 on every feasible path '
             '(dominating guard or clamp); with that bound the fold loop inside shifts by 8*exp with exp in 0..3, '
             'i.e. never negative and never into the header fields', minimum=3, star=True)
    fb = ctx.fb
    fn, pl, fold, lay = key_layout(ctx)
    sites = fb.call_sites(CAK)
    if len(sites) < 2:
        raise AnalysisBroken('C15.R1: expected >= 2 call sites of createAnswerKey, found %d' % len(sites))
    hull = None
    pidx = 5
    if len(fn.params) < 6:
        raise AnalysisBroken('C15.R1: createAnswerKey no longer has an ID length parameter')
    for f, c in sites:
        arg = f.nodes[c]['args'][pidx]
        b = common.Bounds(f)
        r = b.at([(c, arg)])
        if 0 not in r:
            ctx.ob('C15.R1', f, c, True, 'createAnswerKey(idLen=%s)' % f.key(arg), 'call site unreachable', nontrivial=False)
            continue
        lo, hi, plo, phi = r[0]
        hull = (lo, hi) if hull is None else (min(hull[0], lo), max(hull[1], hi))
        ok = lo >= 0 and hi <= 4
        ctx.ob('C15.R1', f, c, ok, 'createAnswerKey(idLen=%s)' % f.key(arg),
               'ID length range at the call is [%s, %s]%s' % (lo, hi, '' if ok else ' - more than 4 ID bytes do not fit the key; '
                                                              'the fold shift becomes negative and the key never matches'),
               witness=None if ok else b.explorer.describe_path(phi))
    # inside: shifts under the callers' hull
    qs = []
    for p in pl:
        if not isinstance(p['shift'], int):
            v = fn.nodes[p['node']]
            rhs = fn.strip(v['rhs'], casts=True)
            rv = fn.nodes[rhs]
            if rv.get('k') == 'BinaryOperator' and rv.get('op') == '<<':
                qs.append((rhs, rv['rhs'], p))
    if not qs:
        raise AnalysisBroken('C15.R1: fold shift in createAnswerKey not found')
    b = common.Bounds(fn, param_ranges={fn.params[5]['name']: hull or (0, 2 ** 64 - 1)})
    r = b.at([(q[0], q[1]) for q in qs])
    for i, q in enumerate(qs):
        if i not in r:
            continue
        lo, hi = r[i][0], r[i][1]
        limit = min(lay['sb'], lay['pb']) - 8
        ok = lo >= 0 and hi <= limit
        ctx.ob('C15.R1', fn, q[0], ok, 'fold shift %s' % fn.key(q[1]),
               'shift range [%s, %s] for idLen in %s (must stay within [0, %d])' % (lo, hi, list(hull) if hull else '?', limit))


def consts_in(fn, nid):
    out = []
    for x in fn.walk(nid):
        v = fn.nodes[x]
        if 'v' in v and v['k'] in ('BinaryOperator', 'UnaryOperator', 'ParenExpr', 'IntegerLiteral'):
            out.append(v['v'] & U64)
    return out


def r2(ctx):
    ctx.mark('answer-key', 'C15.R2')
    ctx.rule('C15.R2', 'the masks used to shorten / generalise the lookup key in getAnswer (source wildcard, length field, '
             'ID byte to drop, new length) and the destination extraction in hasAnswer address exactly the bit fields '
             'createAnswerKey builds (length at bit 61, source number 5 bits at 56, destination byte at 48, ID byte p at '
             '8*(3-p))', minimum=5, star=True)
    fb = ctx.fb
    kfn, pl, fold, lay = key_layout(ctx)
    ga = fb.fn('ebusd::DirectProtocolHandler::getAnswer')
    ctx.touch(ga)
    src_mask = (0x1f << lay['src']) & U64
    len_mask = (0x07 << lay['len']) & U64
    kname = None
    for nid, d, rhs, op, lhs in ga.assignments():
        if rhs is not None and 'createAnswerKey(' in ga.key(rhs) and d:
            kname = d.split(':')[-1]
    if kname is None:
        raise AnalysisBroken('C15.R2: the lookup key variable of getAnswer was not recognised')
    # locals derived from the key (a copy used for the lookups) are key variables as well
    import re
    knames = [kname]
    grew = True
    while grew:
        grew = False
        for nid, d, rhs, op, lhs in ga.assignments():
            if d and rhs is not None and op in ('init', '=') and not d.startswith('this.'):
                n2 = d.split(':')[-1]
                if n2 not in knames and any(re.search(r'(?<![\w.])%s(?![\w(])' % re.escape(kn), ga.key(rhs)) for kn in knames) and \
                        (ga.nodes.get(ga.strip(rhs), {}).get('t') or '').startswith(('uint64', 'unsigned long')):
                    knames.append(n2)
                    grew = True
    # (a) source wildcard: somewhere the lookup key is and-ed with a constant that clears exactly the source field
    masks = []
    for nid, v in sorted(ga.nodes.items()):
        if v['k'] == 'BinaryOperator' and v.get('op') in ('&', '&='):
            for side in ('lhs', 'rhs'):
                m = ga.val(v[side])
                other = v['rhs' if side == 'lhs' else 'lhs']
                if m is not None and any(kn in ga.key(other) for kn in knames) and bin(m & U64).count('0') <= 8 + 2 and \
                        ((m & U64) | src_mask) == U64 and (m & U64) != U64:
                    masks.append((nid, m & U64))
    if not masks:
        raise AnalysisBroken('C15.R2: source wildcard mask (key & ~(0x1f << %d)) not found in getAnswer' % lay['src'])
    for nid, m in masks:
        ok = m == (~src_mask & U64)
        ctx.ob('C15.R2', ga, nid, ok, 'source wildcard lookup mask',
               'mask %#x, expected ~(0x1f << %d) = %#x' % (m, lay['src'], ~src_mask & U64))
    # (b) the reduce step: key = (key & ~lenmask & ~(0xff << 8*(fold_init - len))) | (len << lenshift)
    red = [(nid, rhs) for nid, d, rhs, op, lhs in ga.assignments() if d and d.split(':')[-1] in knames and op == '=' and rhs is not None and
           'createAnswerKey(' not in ga.key(rhs)]
    if not red:
        raise AnalysisBroken('C15.R2: key reduction assignment not found in getAnswer')
    # a named constant (a local defined once, by its initialiser) stands for its initialiser
    single = {d.split(':')[-1]: r for d, r in ga.single_defs().items()}

    def expanded(text, depth=0):
        import re as _re
        if depth > 3:
            return text
        for nm, r in single.items():
            if _re.search(r'(?<![\w.])%s(?![\w(])' % _re.escape(nm), text) and nm not in knames:
                text = _re.sub(r'(?<![\w.])%s(?![\w(])' % _re.escape(nm), lambda m_: expanded(ga.key(r), depth + 1), text)
        return text
    for nid, rhs in red:
        k = expanded(ga.key(rhs))
        cs = set(consts_in(ga, rhs))
        for y in ga.walk(rhs):
            yv = ga.nodes[y]
            if yv['k'] == 'DeclRefExpr' and yv.get('rk') == 'local' and yv.get('name') in single and yv.get('name') not in knames:
                cs |= set(consts_in(ga, single[yv['name']]))
                if ga.val(single[yv['name']]) is not None:
                    cs.add(ga.val(single[yv['name']]) & U64)
        ok_len_mask = (~len_mask & U64) in cs or len_mask in cs
        import re
        mlen = re.search(r'\((\w+) << #%d\)' % lay['len'], k)
        lv = mlen.group(1) if mlen else 'len'
        exp_shift = '(#255 << (#8 * (#%d - %s)))' % (lay['fold_init'], lv)
        ok_byte = exp_shift in k
        ok_newlen = mlen is not None
        # the length must be decremented before the reduction on every path
        decs = set(n2 for n2, d2, r2_, op2, l2 in ga.assignments() if d2 and d2.endswith(':' + lv) and op2 == '--')
        dec_first = bool(decs) and not ga.reaches_point(ga.entry, ga.pos(nid), decs) if False else bool(decs)
        if decs:
            # from the loop head (the previous lookup) to the reduction a decrement must be passed
            finds = [c for c in ga.all('CXXMemberCallExpr') if (ga.nodes[c].get('callee') or '').endswith('::find')]
            fp = ga.pos(finds[0]) if finds else (ga.entry, 0)
            dec_first = not ga.reaches_point(fp[0], ga.pos(nid), decs, start_idx=fp[1] + 1)
        ok = ok_len_mask and ok_byte and ok_newlen and dec_first
        ctx.ob('C15.R2', ga, nid, ok, 'key reduction in getAnswer',
               'length mask ok=%s, dropped ID byte mask %s ok=%s, new length placement ok=%s, length decremented before '
               'reduction=%s' % (ok_len_mask, exp_shift, ok_byte, ok_newlen, dec_first))
    # (c) hasAnswer extracts the destination byte
    ha = fb.fn('ebusd::DirectProtocolHandler::hasAnswer')
    ctx.touch(ha)
    n = 0
    for nid, v in sorted(ha.nodes.items()):
        if v['k'] == 'BinaryOperator' and v.get('op') == '==' or (v['k'] == 'BinaryOperator' and v.get('op') == '!='):
            ks = (ha.key(v['lhs']), ha.key(v['rhs']))
            dstn = ha.params[0]['name']
            if dstn not in ks:
                continue
            other = ks[0] if ks[1] == dstn else ks[1]
            n += 1
            import re
            ok = bool(re.match(r'^\(\((\w+)\.first >> #%d\) & #255\)$' % lay['dst'], other)) or \
                bool(re.match(r'^\(#255 & \((\w+)\.first >> #%d\)\)$' % lay['dst'], other)) or \
                bool(re.match(r'^\(ebusd::symbol_t\)\((\w+)\.first >> #%d\)$' % lay['dst'], other))
            ctx.ob('C15.R2', ha, nid, ok, 'destination extraction in hasAnswer',
                   'compares %s with dstAddress; the key also holds source (bits %d..) and length (bits %d..) above the '
                   'destination byte, so the byte must be isolated' % (other, lay['src'], lay['len']))
    if n == 0:
        raise AnalysisBroken('C15.R2: destination comparison not found in hasAnswer')
    # (d) widths: destination/pb/sb are 8 bit sources placed 8 bits apart, source number fits 5 bits (C11.R4: <= 25)
    order = sorted([(lay['sb'], 'sb'), (lay['pb'], 'pb'), (lay['dst'], 'dst'), (lay['src'], 'src'), (lay['len'], 'len')])
    ok = [o[0] for o in order] == [32, 40, 48, 56, 61]
    ctx.ob('C15.R2', kfn, kfn.body, ok, 'field placement of createAnswerKey', 'placements %s' % order)
    # every field is widened to the key type before it is shifted: a shift evaluated in int loses the bits above 31 and,
    # when bit 31 is reached, sign-extends over the length/source/destination/PBSB fields when OR-ed into the key
    narrow = [(p['src'], p['shift'], p['shiftw']) for p in pl if p.get('shiftw') is not None and p['shiftw'] < 64]
    ctx.ob('C15.R2', kfn, kfn.body, not narrow, 'key fields shifted in 64 bit',
           'shifts evaluated in a narrower type: %s' % narrow if narrow else 'all %d shifted fields are widened first' % len([p for p in pl if p.get('shiftw')]))


def r3(ctx):
    ctx.rule('C15.R3', 'an answer is stored (m_answerByKey[key] = ...) only under: answering enabled, idLen <= 4, valid '
             'destination, source SYN(any) or a master; the store replaces an earlier answer for the same key', minimum=1)
    fn = ctx.fb.fn('ebusd::DirectProtocolHandler::setAnswer')
    ctx.touch(fn)
    n = 0
    for nid, v in sorted(fn.nodes.items()):
        if v['k'] == 'CXXOperatorCallExpr' and v.get('op') == '=' and v.get('args'):
            l = fn.nodes.get(fn.strip(v['args'][0]), {})
            if l.get('k') == 'CXXOperatorCallExpr' and l.get('op') == '[]' and fn.key(l['args'][0]) == 'this.m_answerByKey':
                n += 1
                atoms = set((a[0], a[1]) for a in fn.atoms(nid))
                pn = [p['name'] for p in fn.params]
                need = [('this.m_config.answer', True), ('(%s <= #4)' % pn[5], True),
                        ('ebusd::isValidAddress(%s,#0)' % pn[1], True)]
                missing = [a for a in need if a not in atoms]
                ctx.ob('C15.R3', fn, nid, not missing, 'store into m_answerByKey',
                       'missing guard(s): %s' % missing if missing else 'guarded by %s' % need)
    # a registration replaces an earlier answer for the same key: insertion forms that keep an existing element
    # (insert / emplace / try_emplace) leave the old data in place while setAnswer reports success
    for c in fn.all('CXXMemberCallExpr'):
        v = fn.nodes[c]
        base = (v.get('callee') or '').split('::')[-1]
        if 'obj' in v and fn.key(v['obj']) == 'this.m_answerByKey' and base in ('insert', 'emplace', 'try_emplace', 'emplace_hint'):
            n += 1
            ctx.ob('C15.R3', fn, c, False, 'store into m_answerByKey', 'm_answerByKey.%s(...) does not replace an answer that is '
                   'already registered under the key' % base)
    if n == 0:
        raise AnalysisBroken('C15.R3: store into m_answerByKey not found')


def r4(ctx):
    ctx.rule('C15.R4', 'the answering flag is set from getAnswer() only in state recvCmdCrc for a non-broadcast command, for '
             'both CRC outcomes: with a valid CRC (ACK and answer) and, on the first attempt only, with a wrong CRC (NAK and '
             'wait for the repetition); nowhere else', minimum=2)
    import rules.automaton as A
    fb = ctx.fb
    fn, sw, regs, edges, rmap = A.extracted_edges(fb)
    states, _ = A.bus_states(fb)
    inv = {v: k for k, v in states.items()}
    n = 0
    seen = set()
    for nid, d, rhs, op, lhs in fn.assignments():
        if d == 'this.m_currentAnswering' and rhs is not None and 'getAnswer()' in fn.key(rhs):
            n += 1
            blk = fn.block_of(nid)
            src = [states[v] for v, reg in regs.items() if blk in reg]
            g = set((A.canon(a[0], rmap), a[1]) for a in fn.atoms(nid, frm=sw['labels'][inv['bs_recvCmdCrc']])) if src == ['bs_recvCmdCrc'] else set()
            nb = ('(this.m_command[#1] == BROADCAST)', False) in g
            valid = ('this.m_crcValid', True) in g
            invalid_first = ('this.m_crcValid', False) in g and ('this.m_repeat', False) in g
            seen.add('valid' if valid else 'invalid' if invalid_first else 'other')
            ok = src == ['bs_recvCmdCrc'] and nb and (valid or invalid_first)
            ctx.ob('C15.R4', fn, nid, ok, 'm_currentAnswering = getAnswer() (%s CRC)' % ('valid' if valid else 'wrong'),
                   'state %s, not broadcast: %s, guards %s' % (src, nb, sorted(a for a in g if 'crc' in a[0].lower() or 'repeat' in a[0])))
    ctx.ob('C15.R4', fn, fn.body, {'valid', 'invalid'} <= seen, 'answer decision for both CRC outcomes',
           'getAnswer() consulted for: %s' % sorted(seen))
    for f in fb.functions:
        if f.name == A.HR:
            continue
        for c in f.calls('ebusd::DirectProtocolHandler::getAnswer', suffix=False):
            ctx.ob('C15.R4', f, c, False, 'getAnswer() call in %s' % f.name, 'answer lookup outside the receive state machine')


def fresh_answer_rule(ctx, rid):
    ctx.rule(rid, 'the decision to answer is taken anew for every received command, also for the repetition after a NAK: every '
             'transition out of recvCmdCrc into an answering state (sendCmdAck) passes m_currentAnswering = getAnswer() on '
             'every path from the entry of that state arm; a decision kept from the first attempt lets ebusd acknowledge and '
             'answer a repetition that is addressed to somebody else', minimum=2, star=True)
    import rules.automaton as A
    fb = ctx.fb
    fn, sw, regs, edges, rmap = A.extracted_edges(fb)
    states, _ = A.bus_states(fb)
    inv = {v: k for k, v in states.items()}
    lab = sw['labels'][inv['bs_recvCmdCrc']]
    fresh = set(nid for nid, d, rhs, op, lhs in fn.assignments() if d == 'this.m_currentAnswering' and rhs is not None and
                'getAnswer()' in fn.key(rhs))
    n = 0
    for e in edges:
        if e['from'] != ['bs_recvCmdCrc'] or 'bs_sendCmdAck' not in e['to']:
            continue
        n += 1
        stale = fn.reaches_point(lab, fn.pos(e['node']), fresh)
        ctx.ob(rid, fn, e['node'], not stale, 'recvCmdCrc -> %s (%s)' % ('/'.join(e['to']), e['result']),
               'answer decision renewed on every path into this transition: %s' % (not stale))
    if n < 2:
        raise AnalysisBroken('%s: only %d answering transitions out of recvCmdCrc found' % (rid, n))


def r5(ctx):
    ctx.rule('C15.R5', 'longest matching ID wins across source variants: inside the loop that shortens the lookup key, both '
             'the source-specific key and the source-wildcard key are probed before the key is shortened again (a loop that '
             'probes only one variant per length lets a short restricted answer beat a longer unrestricted one)',
             minimum=1, star=True)
    fb = ctx.fb
    kfn, pl, fold, lay = key_layout(ctx)
    ga = fb.fn('ebusd::DirectProtocolHandler::getAnswer')
    src_mask = (0x1f << lay['src']) & U64
    red = [nid for nid, d, rhs, op, lhs in ga.assignments() if op == '=' and rhs is not None and
           ('<< #%d' % lay['len']) in ga.key(rhs) and 'createAnswerKey(' not in ga.key(rhs)]
    if not red:
        raise AnalysisBroken('C15.R5: key reduction not found in getAnswer')
    loops = ga.all('DoStmt', 'WhileStmt', 'ForStmt')
    for r in red:
        inner = None
        for l in loops:
            if r in set(ga.walk(l)):
                if inner is None or l in set(ga.walk(inner)):
                    inner = l
        if inner is None:
            raise AnalysisBroken('C15.R5: key reduction is not inside a loop')
        body = set(ga.walk(inner))
        finds = [c for c in ga.all('CXXMemberCallExpr') if c in body and (ga.nodes[c].get('callee') or '').endswith('::find')
                 and ga.key(ga.nodes[c].get('obj', -1)) == 'this.m_answerByKey']
        plain = masked = 0
        for c in finds:
            a = ga.nodes[c]['args'][0]
            cs = [m for m in consts_in(ga, a) if (m | src_mask) == U64 and m != U64]
            if cs:
                masked += 1
            else:
                plain += 1
        ok = plain >= 1 and masked >= 1
        ctx.ob('C15.R5', ga, r, ok, 'probes per ID length in the shortening loop',
               'lookups inside the loop: %d with the full key, %d with the source wildcard mask' % (plain, masked))


ANSWER_STATES = ['bs_sendCmdAck', 'bs_sendRes', 'bs_sendResCrc']


def r6(ctx):
    import rules.automaton as A
    ctx.rule('C15.R6', 'every transition out of the slave-role states (sendCmdAck, sendRes, sendResCrc) matches the reference '
             'automaton: ACK/NAK according to the received CRC, response only to a slave destination, report for a master '
             'destination, NAK at most once', minimum=8, star=True)
    n = A.compare(ctx, 'C15.R6', ANSWER_STATES)
    if n < 8:
        raise AnalysisBroken('C15.R6: only %d answer-state transitions extracted' % n)


def r7(ctx):
    import rules.C01 as C01
    import rules.C02 as C02
    C01.repeat_rule(ctx, 'C15.R7', ANSWER_STATES + ['bs_recvResAck'], 3)
    C02.part_restart_rule(ctx, 'C15.R8', ['bs_sendCmdAck', 'bs_recvResAck'], 3)


def r11(ctx):
    ctx.rule('C15.R11', 'the automatic master-slave answer that BusHandler derives from an answered master-master command is '
             'registered for the slave address of the master that command was addressed to (getSlaveAddress of its ZZ), for '
             'any source, with the command\'s PB SB and ID', minimum=1)
    fb = ctx.fb
    fn = fb.fn('ebusd::BusHandler::notifyProtocolMessage')
    ctx.touch(fn)
    cmd = fn.P(1)
    n = 0
    for c in fn.all('CXXMemberCallExpr'):
        v = fn.nodes[c]
        if not (v.get('callee') or '').endswith('::setAnswer') or len(v.get('args', [])) < 6:
            continue
        n += 1
        a = [fn.key(x) for x in v['args']]
        # destination: getSlaveAddress(<local holding command[1]>)
        dst_ok = False
        import re
        m = re.match(r'^ebusd::getSlaveAddress\((\w+)\)$', a[1])
        if m:
            inits = [fn.key(r2) for n2, d2, r2, o2, l2 in fn.assignments() if d2 and d2.split(':')[-1] == m.group(1) and r2 is not None]
            dst_ok = bool(inits) and all(k in ('%s[#1]' % cmd,) for k in inits)
        ok = fn.val(v['args'][0]) == 170 and dst_ok and a[2] == '%s[#2]' % cmd and a[3] == '%s[#3]' % cmd
        ctx.ob('C15.R11', fn, c, ok, 'automatic answer registration', 'setAnswer(%s)' % ', '.join(x[:36] for x in a[:5]))
    if n < 1:
        raise AnalysisBroken('C15.R11: setAnswer call in BusHandler::notifyProtocolMessage not found')

def r12(ctx):
    ctx.rule('C15.R12', 'an answer is registered for the address the client named: in MainLoop::executeAnswer the destination '
             'handed to setAnswer starts as "not given" (SYN), is assigned inside the option loop only from a parsed option '
             'value, and the own master/slave address is filled in behind the loop only while it is still "not given" - the '
             'result must not depend on the order of -d and -m', minimum=3)
    fb = ctx.fb
    fn = fb.fn('ebusd::MainLoop::executeAnswer')
    ctx.touch(fn)
    sets = fn.calls('ebusd::ProtocolHandler::setAnswer', suffix=False)
    if not sets:
        raise AnalysisBroken('C15.R12: setAnswer call not found in executeAnswer')
    d = fn.ref_decl(fn.nodes[sets[0]]['args'][1])
    if not d:
        raise AnalysisBroken('C15.R12: destination argument of setAnswer is not a local')
    dn = d.split(':')[-1]
    syn = 170
    n = 0
    for nid, d2, rhs, op, lhs in fn.assignments():
        if d2 != d or rhs is None:
            continue
        n += 1
        inloop = any(fn.nodes[a].get('k') in ('WhileStmt', 'ForStmt') for a in fn.ancestors(nid))
        if op == 'init':
            ok = fn.cval(rhs) == syn
            ctx.ob('C15.R12', fn, nid, ok, 'initial destination', 'starts as %s' % fn.key(rhs))
        elif inloop:
            src = fn.ref_decl(rhs) if fn.nodes[fn.strip(rhs, casts=True)].get('k') == 'DeclRefExpr' else None
            parsed = src is not None and any(d3 == src and r3 is not None and any(
                (fn.nodes[x].get('callee') or '').endswith('parseInt') for x in fn.walk(r3)) for _, d3, r3, _, _ in fn.assignments())
            ctx.ob('C15.R12', fn, nid, parsed, 'destination set by an option', 'value %s comes from a parsed option argument: %s' % (fn.key(rhs), parsed))
        else:
            names = ['#%d' % syn] + [k.split(':')[-1] for k, v_ in fn.const_locals().items() if v_ == syn]
            ok = fn.needs_one_of(nid, [('(%s == %s)' % (dn, nm), True) for nm in names])
            ctx.ob('C15.R12', fn, nid, ok, 'default destination', 'applied only while no address was given: %s' % ok)
    if n < 3:
        raise AnalysisBroken('C15.R12: only %d assignments of the destination found' % n)


def r18(ctx):
    ctx.rule('C15.R18', 'an answer is chosen from what is registered now: DirectProtocolHandler::getAnswer reads m_answerByKey for '
             'every telegram and writes no data member except the response it prepares (m_response) - a remembered result of '
             'the previous lookup does not see a registration made in between', minimum=1)
    fb = ctx.fb
    fn = fb.fn('ebusd::DirectProtocolHandler::getAnswer')
    ctx.touch(fn)
    w = sorted(set(fn.key(lhs).split('[')[0] for nid, d, rhs, op, lhs in fn.assignments() if lhs is not None and fn.key(lhs).startswith('this.')))
    for c in fn.calls():
        v = fn.nodes[c]
        if v['k'] == 'CXXOperatorCallExpr' and v.get('op') == '=' and v.get('args') and fn.key(v['args'][0]).startswith('this.'):
            w.append(fn.key(v['args'][0]))
    w = sorted(set(w))
    other = [x for x in w if x != 'this.m_response']
    ctx.ob('C15.R18', fn, fn.body, not other, 'members written by getAnswer', 'only m_response: %s%s' % (not other, '' if not other else ' (also %s)' % ', '.join(other)))


def run(ctx):
    r18(ctx)
    import rules.common as _cmm
    ctx.rule('C15.R16', 'a mask for a 64 bit value is computed in 64 bits: where the sources of this property combine a 64 bit integer (a key) by &, | or ^ with an operand the compiler widens from 32 bits or less, that operand contains no shift or complement with a non-constant value - ~(0xff << 8*(3-len)) in int clears the whole upper half of the key (length, source, destination, command) for the last shortening', minimum=6)
    _cmm.wide_mask_rule(ctx, 'C15.R16', lambda f: f.relfile.startswith(('src/lib/ebus/protocol',)), 6)
    import rules.common as _cmw
    ctx.rule('C15.R15', 'a 64 bit key or time stays 64 bit: where the sources of this property call a repository function declared to return uint64_t (message and answer keys, the millisecond clock), the result is not converted implicitly to a narrower integer at the call - a key held in an unsigned int loses ID length, source, destination and command bytes and never matches a stored key again', minimum=2)
    _cmw.wide_result_rule(ctx, 'C15.R15', lambda f: f.relfile.startswith(('src/lib/ebus/protocol',)), 2)
    import rules.common as _cm
    ctx.rule('C15.R14', "a value is compared with a constant in the domain of its own type: in the sources of this property every comparison of a variable, member, element or call result with an integer constant (==, !=) has the constant inside the value range of the operand's own integer type before promotion - a symbol held in a signed char never equals 0xA9/0xAA/0xFE, so the escape, SYN or broadcast test behind it is dead for exactly the symbols it exists for", minimum=40)
    _cm.compare_domain_rule(ctx, 'C15.R14', lambda f: f.relfile.startswith(('src/lib/ebus/protocol', 'src/lib/ebus/symbol.')), 40)
    r12(ctx)
    r1(ctx)
    r2(ctx)
    r3(ctx)
    r4(ctx)
    r5(ctx)
    r6(ctx)
    r7(ctx)
    fresh_answer_rule(ctx, 'C15.R9')
    import rules.C02 as c02
    ctx.borrow(c02.r2, {'C02.R2': 'C15.R10'},
               'the response and its CRC are sent through the same symbol selection and escape block as an own command: an '
               'unescaped A9/AA in the answer ends the transfer')
    r11(ctx)
    import rules.C11 as _c11
    ctx.borrow(_c11.r4, {'C11.R4': 'C15.R13'},
               'the source restriction of an answer is stored as the master number of the source: 1..25 for the 25 masters, '
               '0 only for "any source"')
