"""extraction of the built-in data type table from DataTypeList::DataTypeList (and contrib registration)"""
from facts import AnalysisBroken


def flag_values(fb):
    out = {}
    for name, g in fb.globals.items():
        pass
    # flags are enumerators or constants in datatype.h; find by name through any DeclRefExpr in the constructor
    return out


def extract(fb):
    fn = fb.fn('ebusd::DataTypeList::DataTypeList')
    rows = []
    for n in fn.all('CXXNewExpr'):
        v = fn.nodes[n]
        init = v.get('init')
        if init is None:
            continue
        iv = fn.nodes[init]
        args = iv.get('args', [])
        cls = v.get('newt', '').split('::')[-1]
        vals = []
        for a in args:
            s = fn.strip(a, casts=True)
            sv = fn.nodes.get(s, {})
            if sv.get('k') == 'StringLiteral':
                vals.append(sv.get('str'))
            elif sv.get('k') == 'CXXConstructExpr' and sv.get('args'):
                s2 = fn.strip(sv['args'][0], casts=True)
                vals.append(fn.nodes.get(s2, {}).get('str'))
            elif sv.get('k') == 'CXXDefaultArgExpr':
                vals.append('<default>')
            else:
                x = fn.val(a)
                vals.append(x)
        row = {'class': cls, 'line': fn.line_of(n), 'node': n, 'sig': iv.get('sig', '')}
        if cls == 'NumberDataType':
            if 'int16_t,int' in iv.get('sig', '').replace(' ', '') and len([a for a in vals if a != '<default>']) == 6:
                keys = ['id', 'bits', 'flags', 'replacement', 'firstBit', 'divisor']
            else:
                keys = ['id', 'bits', 'flags', 'replacement', 'min', 'max', 'divisor']
        elif cls == 'StringDataType':
            keys = ['id', 'bits', 'flags', 'replacement', 'isHex']
        elif cls == 'DateTimeDataType':
            keys = ['id', 'bits', 'flags', 'replacement', 'hasDate', 'hasTime', 'resolution']
        else:
            keys = ['id']
        for k, x in zip(keys, vals):
            if x != '<default>':
                row[k] = x
        if cls == 'StringDataType' and 'isHex' not in row:
            row['isHex'] = 0
        rows.append(row)
    return fn, rows


FLAG_NAMES = ('ADJ', 'BCD', 'REV', 'SIG', 'IGN', 'FIX', 'REQ', 'HCD', 'EXP', 'DAY', 'NUM', 'DAT', 'SPE', 'DUP', 'REZ')


def flags(fb):
    """flag name -> value, evaluated from the macros of datatype.h through the probe translation unit"""
    import facts
    res = facts.macro_values(['lib/ebus/datatype.h'], FLAG_NAMES + ('MAX_LEN', 'MAX_DIVISOR', 'MAX_VALUE', 'REMAIN_LEN'))
    if len([k for k in res if k in FLAG_NAMES]) < 12:
        raise AnalysisBroken('data type flag macros not found (%s)' % sorted(res))
    return res
