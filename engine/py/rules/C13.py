"""C13 - conditional availability (structural clauses).

C13.R1 (core) composite delegation polarity: DataFieldSet::hasField = exists child.hasField ; CombinedCondition::isTrue = all
C13.R2        cached verdict is not keyed by a 1 s clock with strict compare and unconditional stamp update
C13.R3        resolve binds the message only after message-found and field-existence checks
"""
import facts
from facts import AnalysisBroken
import rules.common as common


def composite(ctx, rid, qname, mode):
    fb = ctx.fb
    fn = fb.fn(qname)
    ctx.touch(fn)
    m = qname.split('::')[-1]
    inner = [c for c in fn.all('CXXMemberCallExpr') if (fn.nodes[c].get('callee') or '').endswith('::' + m)]
    loops = fn.all('CXXForRangeStmt', 'ForStmt', 'WhileStmt')
    if inner and not loops:
        # the delegated query is there but not inside a loop over the children (and not in the predicate of an algorithm,
        # which would be a function of its own): it is asked of ONE child that was picked by something else
        for c in inner:
            ctx.ob(rid, fn, c, False, 'delegated %s in %s' % (m, qname),
                   'asked of a single child outside any loop over the children: the other children are never asked')
        return
    if not inner or not loops:
        raise AnalysisBroken('%s: composite %s is no longer a loop over children with a delegated call' % (rid, qname))
    cks = set(fn.key(c) for c in inner)
    rets = fn.all('ReturnStmt')
    inloop = set()
    for l in loops:
        inloop |= set(fn.walk(l))
    early = [r for r in rets if r in inloop]
    final = [r for r in rets if r not in inloop]
    if not early or not final:
        raise AnalysisBroken('%s: %s shape not recognised (early returns %d, final returns %d)' % (rid, qname, len(early), len(final)))
    want_early = 1 if mode == 'exists' else 0
    pol = (mode == 'exists')
    for r in early:
        rv = fn.val(fn.nodes[r].get('val'))
        atoms = set((a[0], a[1]) for a in fn.atoms(r))
        # a return inside a loop over the children ends the search: it must be the deciding constant, taken exactly when
        # the delegated call on the current child has the deciding truth value (a loop that returns the first child's own
        # result, or the other constant, lets one child decide for all)
        ok = rv == want_early and any((ck, pol) in atoms for ck in cks)
        got = [a for a in atoms if any(ck in a[0] for ck in cks)]
        ctx.ob(rid, fn, r, ok, 'early return in %s' % qname,
               ('returns %s under %s; %s-semantics needs "return %s" exactly when a child %s' % (
                   rv if rv is not None else fn.key(fn.nodes[r].get('val', -1))[:60], got, mode, 'true' if want_early else 'false',
                   'matches' if pol else 'does not hold')))
    for f_ in final[1:]:
        rv = fn.val(fn.nodes[f_].get('val'))
        ctx.ob(rid, fn, f_, rv == 1 - want_early, 'further fall-through return in %s' % qname, 'returns %s' % rv)
    rv = fn.val(fn.nodes[final[0]].get('val'))
    ctx.ob(rid, fn, final[0], rv == 1 - want_early, 'final return in %s' % qname,
           'fall-through returns %s' % rv)


def r1(ctx):
    ctx.rule('C13.R1', 'a composite boolean query delegates to its children with the right polarity: '
             'DataFieldSet::hasField returns true exactly when some child hasField(...) is true (else false); '
             'CombinedCondition::isTrue returns false exactly when some child isTrue() is false (else true)',
             minimum=4, star=True)
    composite(ctx, 'C13.R1', 'ebusd::DataFieldSet::hasField', 'exists')
    composite(ctx, 'C13.R1', 'ebusd::CombinedCondition::isTrue', 'all')
    # leaf semantics: conjunction of kind and name match
    fn = ctx.fb.fn('ebusd::SingleDataField::hasField')
    ctx.touch(fn)
    rets = fn.all('ReturnStmt')
    ok = False
    detail = ''
    if len(rets) == 1:
        k = fn.key(fn.nodes[rets[0]]['val'])
        detail = k
        ok = '&&' in k and 'isNumeric' in (k + ' '.join(fn.key(r) for nid, d, r, op, l in fn.assignments() if r)) and \
            'fieldName' in k and 'this.m_name' in k
    ctx.ob('C13.R1', fn, rets[0] if rets else fn.body, ok, 'leaf hasField', 'leaf = kind matches and (no name or name matches): ' + detail)


TIME_SOURCES = ('time', 'clock_gettime', 'gettimeofday', 'clockGettime', 'ebusd::clockGettime')


def r2(ctx):
    ctx.rule('C13.R2', 'SimpleCondition::isTrue re-evaluates whenever the referenced message may have changed since the '
             'cached verdict: with a change stamp of one second granularity a strict ">" against the stored stamp is only '
             'acceptable if the stored stamp is not advanced to the change stamp while the current second can still see '
             'further changes (i.e. the function consults the current time), or the comparison is non-strict, or the '
             'stamp is a change counter', minimum=1)
    fb = ctx.fb
    fn = fb.fn('ebusd::SimpleCondition::isTrue')
    ctx.touch(fn)
    # the re-evaluation guard: a comparison whose one side is this.m_lastCheckTime
    guards = []
    for nid, v in fn.nodes.items():
        if v['k'] == 'BinaryOperator' and v.get('op') in ('<', '>', '<=', '>=', '!=', '=='):
            ks = (fn.key(v['lhs']), fn.key(v['rhs']))
            if 'this.m_lastCheckTime' in ks:
                guards.append(nid)
    if not guards:
        raise AnalysisBroken('C13.R2: re-evaluation guard on m_lastCheckTime not found')
    # stamp provenance: which Message member feeds getLastChangeTime, and is it assigned from time()?
    second_granular = False
    getter = fb.fn('ebusd::Message::getLastChangeTime', required=False)
    member = None
    if getter is not None:
        for r in getter.all('ReturnStmt'):
            member = getter.key(getter.nodes[r]['val'])
    if member and member.startswith('this.'):
        # follow assignments member = other member ... = time()
        seen = set()
        work = [member]
        while work:
            m = work.pop()
            if m in seen:
                continue
            seen.add(m)
            for f in fb.functions:
                if f.cls != 'ebusd::Message':
                    continue
                for nid, d, rhs, op, lhs in f.assignments():
                    if d == m and rhs is not None:
                        k = f.key(rhs)
                        if k.startswith('this.'):
                            work.append(k)
                for c in f.calls('time', suffix=False):
                    a = f.nodes[c].get('args', [])
                    if a and f.key(a[0]) == '&' + m:
                        second_granular = True
    # how is the stored stamp advanced?  Accepted when the change stamp itself is stored only if the current time
    # is already later (otherwise something strictly smaller is stored, forcing another evaluation)
    def is_now(n):
        n = fn.strip(n, casts=True)
        v = fn.nodes.get(n, {})
        if v.get('k') == 'CallExpr' and (v.get('callee') or '').split('::')[-1] in TIME_SOURCES:
            return True
        if v.get('k') == 'DeclRefExpr' and v.get('rk') == 'local':
            for nid2, d, rhs, op, lhs in fn.assignments():
                if d == v.get('decl') and rhs is not None and is_now(rhs):
                    return True
            for c in fn.calls(*TIME_SOURCES):
                a = fn.nodes[c].get('args', [])
                if a and fn.key(a[0]) == '&' + v.get('name', '?'):
                    return True
        return False

    def later_than(cond, stampkey):
        # cond establishes now > stamp when true
        c = fn.nodes.get(fn.strip(cond), {})
        if c.get('k') != 'BinaryOperator':
            return False
        if c['op'] == '>' and is_now(c['lhs']) and fn.key(c['rhs']) == stampkey:
            return True
        if c['op'] == '<' and is_now(c['rhs']) and fn.key(c['lhs']) == stampkey:
            return True
        return False

    def smaller(expr, stampkey):
        e = fn.nodes.get(fn.strip(expr), {})
        return e.get('k') == 'BinaryOperator' and e.get('op') == '-' and fn.key(e['lhs']) == stampkey and \
            (fn.val(e['rhs']) or 0) > 0

    uses_now = False
    stamp_writes = [(nid, rhs) for nid, d, rhs, op, lhs in fn.assignments() if d == 'this.m_lastCheckTime' and rhs is not None]
    if not stamp_writes:
        raise AnalysisBroken('C13.R2: no assignment to m_lastCheckTime in isTrue')
    change_keys = set()
    for g in guards:
        v = fn.nodes[g]
        for side in (v['lhs'], v['rhs']):
            if fn.key(side) != 'this.m_lastCheckTime':
                change_keys.add(fn.key(side))
    careful = True
    for nid, rhs in stamp_writes:
        r = fn.nodes.get(fn.strip(rhs), {})
        rk = fn.key(rhs)
        if rk in change_keys or 'getLastChangeTime()' in rk and r.get('k') != 'ConditionalOperator':
            # plain store of the change stamp: must be guarded by now > stamp
            atoms = fn.guards(nid)
            if not any(pol is True and later_than(c, rk) for c, pol, b in atoms if c is not None):
                careful = False
        elif r.get('k') == 'ConditionalOperator':
            ck = [k for k in change_keys if k == fn.key(r['then']) or k == fn.key(r['else'])]
            okc = False
            for k in ck:
                if later_than(r['cond'], k) and fn.key(r['then']) == k and smaller(r['else'], k):
                    okc = True
            if not okc:
                careful = False
        else:
            careful = False
    uses_now = careful
    for g in guards:
        v = fn.nodes[g]
        strict = v['op'] in ('<', '>')
        ok = (not second_granular) or (not strict) or uses_now
        ctx.ob('C13.R2', fn, g, ok, 'staleness guard on m_lastCheckTime',
               'change stamp is second-granular (time()): %s; comparison %s is strict: %s; stored stamp advanced to the change stamp '
               'only once the clock has moved past it: %s%s' % (second_granular, v['op'], strict, uses_now,
                                          '' if ok else ' -- a second change inside the same second is never re-evaluated'))


def r3(ctx):
    ctx.rule('C13.R3', 'SimpleCondition::resolve assigns m_message only on paths where the referenced message was found '
             '(non-null) and, when the condition has values, the field existence check hasField(...) succeeded', minimum=1)
    fb = ctx.fb
    fn = fb.fn('ebusd::SimpleCondition::resolve')
    ctx.touch(fn)
    n = 0
    for nid, d, rhs, op, lhs in fn.assignments():
        if d != 'this.m_message':
            continue
        n += 1
        ex_ok = []
        mv = fn.key(rhs)   # the local that is bound (whatever its name)

        # path exploration: typestate (found, fieldok)
        from facts import Explorer
        res = {'bad': None, 'good': 0}

        def on_edge(user, b, j, dnf):
            st = set(user)
            allc = None
            for conj in dnf:
                here = set()
                for a in conj:
                    k, p = facts.atom_key(fn, a)
                    if k in (mv, '(%s == #0)' % mv):
                        if (k == mv and p) or (k != mv and not p):
                            here.add('found')
                    elif k.startswith('(') and k.endswith(' == #0)') and not p:
                        here.add('nn:' + k[1:-7])
                    elif k.isidentifier() and p:
                        here.add('nn:' + k)
                    if ('%s.hasField(' % mv) in k and p:
                        here.add('field')
                    if k == 'this.m_hasValues' and not p:
                        here.add('field')
                allc = here if allc is None else (allc & here)
            return frozenset(st | (allc or set()))

        def on_elem(user, e, path):
            if e == nid:
                if 'found' in user and 'field' in user:
                    res['good'] += 1
                elif res['bad'] is None:
                    res['bad'] = (user, path)
                return None
            v = fn.nodes[e]
            # re-assignment of the local message invalidates "found"
            if v['k'] == 'BinaryOperator' and v.get('op') == '=' and fn.key(v['lhs']) == mv:
                st = set(x for x in user if x != 'found')
                r = fn.nodes.get(fn.strip(v['rhs']), {})
                if r.get('k') == 'DeclRefExpr':
                    if 'nn:' + r.get('name', '?') in user:
                        st.add('found')
                elif r.get('k') in ('CXXMemberCallExpr', 'CallExpr') and \
                        (r.get('callee') or '').split('::')[-1] in ('derive', 'clone'):
                    st.add('found')   # factory functions returning a fresh object
                elif r.get('k') == 'CXXNewExpr':
                    st.add('found')
                return frozenset(st)
            return user

        ex = Explorer(fn, on_elem=on_elem, on_edge=on_edge)
        ex.run(fn.entry, 0, frozenset())
        ok = res['bad'] is None and res['good'] > 0
        ctx.ob('C13.R3', fn, nid, ok, 'm_message = %s' % fn.key(rhs),
               'bound only after found+field checks on %d path class(es)' % res['good'] if ok else
               'm_message bound on a path missing %s' % sorted({'found', 'field'} - set(res['bad'][0]) if res['bad'] else []),
               witness=ex.describe_path(res['bad'][1]) if res['bad'] else None)
    if n == 0:
        raise AnalysisBroken('C13.R3: assignment to m_message not found')


def r4(ctx):
    ctx.rule('C13.R4', 'splitValues turns a comparison into the inclusive from-to pair the matcher tests with <= on both '
             'sides: "<N" ends at N-1, ">N" starts at N+1, "<=N"/">=N" use N itself (decided for the four combinations of '
             'the two flags on every path from the parsed number to the stored bound)', minimum=4)
    fb = ctx.fb
    fn = [f for f in fb.fns('ebusd::splitValues') if 'unsigned int' in f.sig]
    if len(fn) != 1:
        raise AnalysisBroken('C13.R4: splitValues(valueList, ranges) not found')
    fn = fn[0]
    ctx.touch(fn)
    from facts import Explorer
    uptos = fn.local_where(lambda k, r: k.endswith('[#0] == #60)'))
    incls = fn.local_where(lambda k, r: k.endswith('[#1] == #61)'))
    if len(uptos) != 1 or len(incls) != 1:
        raise AnalysisBroken('C13.R4: the "<" / "=" flags of splitValues not recognised (%s, %s)' % (uptos, incls))
    upto, incl = uptos[0], incls[0]
    # the parsed number in the comparison branch: local initialised from parseInt under the atom (upto || '>')
    vdecl = None
    for nid, d, rhs, op, lhs in fn.assignments():
        if op == 'init' and rhs is not None and 'parseInt(' in fn.key(rhs) and incl in fn.key(rhs):
            vdecl, vnode = d, nid
    if vdecl is None:
        raise AnalysisBroken('C13.R4: parsed bound of a comparison not recognised')
    val = vdecl.split(':')[-1]
    pushes = [c for c in fn.all('CXXMemberCallExpr') if (fn.nodes[c].get('callee') or '').endswith('::push_back') and
              fn.nodes[c].get('args') and any(fn.nodes[x].get('k') == 'DeclRefExpr' and fn.nodes[x].get('decl') == vdecl
                                              for x in fn.walk(fn.nodes[c]['args'][0]))]
    if not pushes:
        raise AnalysisBroken('C13.R4: store of the parsed bound not found')

    def ev(x, st):
        """value of expression x relative to the parsed number: ('v', delta) | ('c', const) | None"""
        x = fn.strip(x, casts=True)
        v = fn.nodes[x]
        if fn.val(x) is not None:
            return ('c', fn.val(x))
        if v['k'] == 'DeclRefExpr':
            if v.get('decl') == vdecl:
                return ('v', st[2])
            if v.get('name') == upto and st[0] is not None:
                return ('c', 1 if st[0] else 0)
            if v.get('name') == incl and st[1] is not None:
                return ('c', 1 if st[1] else 0)
            return None
        if v['k'] == 'ConditionalOperator':
            c = ev(v['cond'], st)
            if c is None or c[0] != 'c':
                return None
            return ev(v['then'] if c[1] else v['else'], st)
        if v['k'] == 'UnaryOperator' and v.get('op') == '!':
            c = ev(v['ch'][0], st)
            return ('c', 0 if c[1] else 1) if c and c[0] == 'c' else None
        if v['k'] == 'UnaryOperator' and v.get('op') == '-':
            c = ev(v['ch'][0], st)
            return ('c', -c[1]) if c and c[0] == 'c' else None
        if v['k'] == 'BinaryOperator' and v.get('op') in ('+', '-'):
            a, b = ev(v['lhs'], st), ev(v['rhs'], st)
            if a is None or b is None:
                return None
            sg = 1 if v['op'] == '+' else -1
            if a[0] == 'v' and b[0] == 'c':
                return ('v', a[1] + sg * b[1])
            if a[0] == 'c' and b[0] == 'c':
                return ('c', a[1] + sg * b[1])
            if a[0] == 'c' and b[0] == 'v' and sg == 1:
                return ('v', a[1] + b[1])
        return None
    results = {}

    def on_elem(user, e, path):
        u, i, dlt, live = user
        v = fn.nodes[e]
        if e == vnode or (v['k'] == 'DeclStmt' and any(dd['decl'] == vdecl for dd in v.get('decls', []))):
            return (u, i, 0, True)
        if not live:
            return user
        if v['k'] == 'UnaryOperator' and v.get('op') in ('++', '--') and fn.ref_decl(v['ch'][0]) == vdecl:
            return (u, i, dlt + (1 if v['op'] == '++' else -1), True)
        if v['k'] == 'CompoundAssignOperator' and fn.ref_decl(v['lhs']) == vdecl and fn.val(v['rhs']) is not None and v.get('op') in ('+=', '-='):
            return (u, i, dlt + (fn.val(v['rhs']) if v['op'] == '+=' else -fn.val(v['rhs'])), True)
        if v['k'] == 'BinaryOperator' and v.get('op') == '=' and fn.ref_decl(v['lhs']) == vdecl:
            r = ev(v['rhs'], (u, i, dlt))
            return (u, i, r[1], True) if r and r[0] == 'v' else (u, i, None, True)
        if e in pushes:
            r = ev(v['args'][0], (u, i, dlt)) if dlt is not None else None
            results.setdefault((u, i), set()).add(r[1] if r and r[0] == 'v' else None)
            return (u, i, dlt, False)
        return user

    def on_edge(user, b, j, dnf):
        u, i, dlt, live = user
        if len(dnf) == 1:
            for a in dnf[0]:
                k, p = facts.atom_key(fn, a)
                if k == upto:
                    if u is not None and u != p:
                        return None
                    u = p
                if k == incl:
                    if i is not None and i != p:
                        return None
                    i = p
        return (u, i, dlt, live)

    for u0 in (True, False):
        for i0 in (True, False):
            ex = Explorer(fn, on_elem=on_elem, on_edge=on_edge)
            ex.run(fn.block_of(vnode), 0, (u0, i0, None, False))
    for u0 in (True, False):
        for i0 in (True, False):
            want = 0 if i0 else (-1 if u0 else 1)
            got = results.get((u0, i0), set())
            what = '%s%sN' % ('<' if u0 else '>', '=' if i0 else '')
            ctx.ob('C13.R4', fn, pushes[0], got == {want}, 'bound stored for "%s"' % what,
                   'stores N%+d on the explored paths: %s (the inclusive pair needs N%+d)' % (
                       sorted(got, key=str)[0] if len(got) == 1 and None not in got else 0, sorted(got, key=str), want))
    # the matcher is inclusive on both sides
    mt = fb.fn('ebusd::SimpleNumericCondition::checkValue') if fb.fns('ebusd::SimpleNumericCondition::checkValue') else None
    if mt is not None:
        ks = [mt.key(x) for x in mt.all('BinaryOperator') if mt.nodes[x].get('op') in ('<', '<=', '>', '>=')]
        ok = sum(1 for k in ks if 'm_valueRanges[' in k and '<=' in k) >= 2
        ctx.ob('C13.R4', mt, mt.body, ok, 'matcher compares inclusively', '%s' % ks[:4])


def r6(ctx):
    ctx.rule('C13.R6', 'Message::isAvailable is exactly "no condition, or the condition holds": its result is true iff m_condition '
             'is null or m_condition->isTrue() (virtual, so combined conditions evaluate all their parts); no other state '
             'decides availability', minimum=1, star=True)
    fb = ctx.fb
    fn = fb.fn('ebusd::Message::isAvailable')
    ctx.touch(fn)
    n = 0
    for r in fn.all('ReturnStmt'):
        rv = fn.nodes[r].get('val')
        if rv is None:
            continue
        n += 1
        dnf = facts.implied(fn, rv, True)
        norm = set()
        for conj in dnf:
            ks = frozenset(facts.atom_key(fn, a) for a in conj)
            norm.add(frozenset(k for k in ks if k != ('(this.m_condition == #0)', False) and k != ('this.m_condition', True)))
        want = {frozenset([('(this.m_condition == #0)', True)]), frozenset([('this.m_condition.isTrue()', True)])}
        alt = {frozenset([('this.m_condition', False)]), frozenset([('this.m_condition.isTrue()', True)])}
        ok = norm in (want, alt) and not fn.atoms(r)
        ctx.ob('C13.R6', fn, r, ok, 'isAvailable result', 'true iff %s' % sorted(sorted(c) for c in norm))
    if n != 1:
        raise AnalysisBroken('C13.R6: Message::isAvailable has %d value returns' % n)

def r7(ctx):
    ctx.rule('C13.R7', 'a combined condition is registered for reuse only when it is complete: combineAnd() extends the object in '
             'place, so inside the loop of MessageMap::readConditions that combines the parts no store of the running '
             'combination into m_conditions may occur (a prefix registered early silently grows further parts)', minimum=1)
    fb = ctx.fb
    fn = fb.fn('ebusd::MessageMap::readConditions')
    ctx.touch(fn)
    comb = [c for c in fn.all('CXXMemberCallExpr') if (fn.nodes[c].get('callee') or '').endswith('::combineAnd')]
    if not comb:
        raise AnalysisBroken('C13.R7: combineAnd call not found in readConditions')
    loops = [l for l in fn.all('WhileStmt', 'ForStmt', 'DoStmt') if comb[0] in set(fn.walk(l))]
    inloop = set()
    for l in loops:
        inloop |= set(fn.walk(l))
    cond = fn.P(len(fn.params) - 1)
    n = 0
    for nid, v in sorted(fn.nodes.items()):
        if v['k'] == 'BinaryOperator' and v.get('op') == '=' and fn.key(v['lhs']).startswith('this.m_conditions['):
            n += 1
            rk = fn.key(v['rhs'])
            running = rk == '*' + cond
            ok = not (running and nid in inloop)
            ctx.ob('C13.R7', fn, nid, ok, 'store %s into m_conditions' % rk, 'running combination stored inside the combining loop: %s' % (not ok))
    if n < 2:
        raise AnalysisBroken('C13.R7: only %d stores into m_conditions found' % n)

def _linear(fn, x):
    """x as (terms: key -> coefficient, constant) for sums/differences of calls, names and integer constants"""
    x = fn.strip(x, casts=True)
    v = fn.nodes[x]
    if fn.val(x) is not None and v['k'] != 'DeclRefExpr':
        return {}, fn.val(x)
    if v['k'] == 'BinaryOperator' and v['op'] in ('+', '-'):
        ta, ca = _linear(fn, v['lhs'])
        tb, cb = _linear(fn, v['rhs'])
        sg = 1 if v['op'] == '+' else -1
        t = dict(ta)
        for k, c in tb.items():
            t[k] = t.get(k, 0) + sg * c
        return t, ca + sg * cb
    return {fn.key(x): 1}, 0


def r9(ctx):
    ctx.rule('C13.R9', 'lengths are compared in one unit: m_id counts PB SB and the further ID bytes, the data size of a telegram '
             '(getDataSize / getCalculatedDataSize) counts from the byte behind NN, i.e. the ID bytes behind PB SB and the data. '
             'Wherever message.cpp compares the two, the constants on both sides differ by exactly the 2 bytes PB SB (0 when '
             'getIdLength() is used): otherwise the arrival of a read request with master data is not time-stamped and a '
             'condition on it keeps a stale verdict', minimum=1)
    fb = ctx.fb
    seen = set()
    n = 0
    for fn in fb.functions:
        if not fn.relfile.startswith('src/lib/ebus/message.') or not fn.nodes or (fn.name, fn.sig) in seen:
            continue
        seen.add((fn.name, fn.sig))
        for x, v in sorted(fn.nodes.items()):
            if v['k'] != 'BinaryOperator' or v['op'] not in ('<', '<=', '>', '>='):
                continue
            ta, ca = _linear(fn, v['lhs'])
            tb, cb = _linear(fn, v['rhs'])
            t = dict(ta)
            for k, c in tb.items():
                t[k] = t.get(k, 0) - c
            t = {k: c for k, c in t.items() if c}
            ds = [k for k in t if k.endswith('.getDataSize()') or k.endswith('.getCalculatedDataSize()')]
            ids = [k for k in t if k in ('this.m_id.size()', 'this.getIdLength()')]
            if len(ds) != 1 or len(ids) != 1 or len(t) != 2:
                continue
            n += 1
            ctx.touch(fn)
            # ds*cd + id*ci + (ca - cb) op 0 with cd = -ci: data + k op id  <=>  k = (ca - cb) / cd
            cd, ci = t[ds[0]], t[ids[0]]
            k = (ca - cb) * (1 if cd > 0 else -1)
            # normal form "data + K > id" (or its negation): with data on the greater side of >= / lesser side of < add 1
            op = v['op'] if cd > 0 else {'<': '>', '<=': '>=', '>': '<', '>=': '<='}.get(v['op'], v['op'])
            if op in ('>=', '<'):
                k += 1
            want = 2 if ids[0] == 'this.m_id.size()' else 0
            ok = cd == -ci and abs(cd) == 1 and k == want
            ctx.ob('C13.R9', fn, x, ok, 'data size against ID length in %s' % fn.name.split('::')[-1],
                   'data size %+d compared with %s, the units differ by %d' % (k, ids[0].replace('this.', ''), want))
    if n < 1:
        raise AnalysisBroken('C13.R9: no comparison of a data size with the ID length found in message.cpp')


def tolower_rule(ctx, rid):
    ctx.mark('tolower', rid)
    ctx.rule(rid, 'names are compared without regard to case for every letter: FileReader::tolower, which builds the name keys of '
             'the message map and folds the references of conditions, either applies the C library ::tolower to the whole string '
             '(std::transform over begin..end) or, evaluated on a string holding all 256 byte values, maps each of A..Z to a..z '
             'and leaves every other ASCII character alone', minimum=1)
    import tinyeval
    fb = ctx.fb
    fn = fb.fn('ebusd::FileReader::tolower')
    ctx.touch(fn)
    tr = [c for c in fn.all('CallExpr') if (fn.nodes[c].get('callee') or '').startswith('std::transform') and len(fn.nodes[c].get('args', [])) == 4]
    if tr:
        c = tr[0]
        a = [fn.key(x) for x in fn.nodes[c]['args']]
        st = fn.P(0)
        import re
        a = [re.sub(r'^[\w:]+\{(.*)\}$', r'\1', x) for x in a]
        ok = a[0] in ('%s.begin()' % st, '(*%s).begin()' % st) and a[1] in ('%s.end()' % st, '(*%s).end()' % st) and a[2] == a[0] and \
            a[3].lstrip('&') in ('tolower', '::tolower')
        ctx.ob(rid, fn, c, ok, 'case folding by the C library', 'transform(%s)' % ', '.join(a))
        return
    data = [b if b < 128 else b - 256 for b in range(256)]
    model = list(data)
    try:
        tinyeval.Machine(fn, {}, [model]).call()
    except tinyeval.Unknown as e:
        raise AnalysisBroken('%s: FileReader::tolower uses a construct the evaluation does not model (%s)' % (rid, e))
    bad = []
    for b in range(128):
        want = b + 32 if 65 <= b <= 90 else b
        if (model[b] & 0xff) != want:
            bad.append('%r -> %r' % (chr(b), chr(model[b] & 0xff)))
    ctx.ob(rid, fn, fn.body, not bad and len(model) == 256, 'case folding loop', '; '.join(bad[:4]) or 'A..Z folded, the rest unchanged')


def r11(ctx):
    ctx.rule('C13.R11', 'a default that is looked up for a condition reaches the condition: in message.cpp every value fetched from a '
             'map of defaults (iterator->second behind a find) and assigned to a local is read afterwards on some path - a store '
             'nobody reads put the value into the wrong variable (the default circuit of the file has to become the circuit '
             'of a condition without one, or the condition binds to a message of that name in another circuit)', minimum=3)
    common.dead_store_rule(ctx, 'C13.R11', lambda f: f.relfile.startswith('src/lib/ebus/message.'),
                           lambda f, rhs: f.key(rhs).endswith('.second') or '.second}' in f.key(rhs)[-12:], 3)


def r12(ctx):
    ctx.rule('C13.R12', 'an optional name is tested on itself: in message.cpp every "x.length() > 0 ? y.c_str() : nullptr" (pass '
             'the name if there is one, otherwise none) tests the string it passes (x is y) - a condition without field name '
             'refers to the first field of the kind, which the null pointer selects; an empty string selects a field '
             'without name', minimum=1)
    fb = ctx.fb
    n = 0
    seen = set()
    for fn in fb.functions:
        if not fn.relfile.startswith('src/lib/ebus/message.') or not fn.nodes or (fn.name, fn.sig) in seen:
            continue
        seen.add((fn.name, fn.sig))
        for x, v in sorted(fn.nodes.items()):
            if v['k'] != 'ConditionalOperator':
                continue
            t, e = fn.key(v['then']), fn.key(v['else'])
            if not (t.endswith('.c_str()') and e == '#0' or e.endswith('.c_str()') and t == '#0'):
                continue
            n += 1
            ctx.touch(fn)
            passed = (t if t.endswith('.c_str()') else e)[:-len('.c_str()')]
            ck = fn.key(v['cond'])
            ok = ck.startswith('(%s.length() ' % passed) or ck.startswith('(%s.size() ' % passed) or ck in ('!%s.empty()' % passed, '%s.empty()' % passed) or \
                ck.startswith('(!%s.empty()' % passed)
            ctx.ob('C13.R12', fn, x, ok, 'optional name in %s' % fn.name.split('::')[-1], 'passes %s under %s' % (passed, ck))
    if n < 1:
        raise AnalysisBroken('C13.R12: no optional name argument found in message.cpp')


def r13(ctx):
    ctx.rule('C13.R13', 'the cached verdict of a condition is the verdict it last gave: on every path through SimpleCondition::isTrue '
             'that advances m_lastCheckTime (a re-evaluation), m_isTrue is written too and the value returned is that cached '
             'value (or the same constant); otherwise the next call takes the "unchanged" shortcut and returns a stale verdict',
             minimum=1)
    fb = ctx.fb
    fn = fb.fn('ebusd::SimpleCondition::isTrue')
    ctx.touch(fn)
    adv = set(nid for nid, d, rhs, op, lhs in fn.assignments() if d == 'this.m_lastCheckTime')
    sets = dict((nid, rhs) for nid, d, rhs, op, lhs in fn.assignments() if d == 'this.m_isTrue' and rhs is not None)
    if not adv or not sets:
        raise AnalysisBroken('C13.R13: m_lastCheckTime / m_isTrue not written in SimpleCondition::isTrue')
    bad = []

    def on_elem(user, e, path):
        advanced, cached = user
        if e in adv:
            advanced = True
        if e in sets:
            c = fn.val(sets[e])
            cached = ('c', c) if c is not None else ('e', fn.key(sets[e]))
        v = fn.nodes[e]
        if v['k'] == 'ReturnStmt':
            if advanced:
                rv = v.get('val')
                rk = fn.key(rv) if rv is not None else None
                ok = cached is not None and (rk == 'this.m_isTrue' or (cached[0] == 'c' and fn.val(rv) == cached[1]) or
                                             (cached[0] == 'e' and rk == cached[1]))
                if not ok:
                    bad.append(e)
            return None
        return (advanced, cached)
    facts.Explorer(fn, on_elem=on_elem).run(fn.entry, 0, (False, None))
    ctx.ob('C13.R13', fn, fn.body, not bad, 'verdict returned by a re-evaluation',
           'returns without caching the verdict at line(s) %s' % sorted(set(fn.line_of(x) for x in bad)) if bad else
           'every re-evaluating path caches what it returns')


def r14(ctx):
    ctx.rule('C13.R14', 'the change time is the time of THIS update: wherever a function of message.cpp copies m_lastUpdateTime '
             'into m_lastChangeTime (data differs from the stored data), no write of m_lastUpdateTime is reachable behind the '
             'copy in the same call (time(&m_lastUpdateTime) comes first) - otherwise the change carries the time of the '
             'previous update, and the lazy re-evaluation of a condition, which compares the change time with the time of its '
             'last check, misses the change', minimum=3)
    fb = ctx.fb
    n = 0
    seen = set()
    for fn in fb.functions:
        if not fn.relfile.startswith('src/lib/ebus/message.') or not fn.blocks or (fn.name, fn.sig) in seen:
            continue
        seen.add((fn.name, fn.sig))
        copies = [nid for nid, d, rhs, op, lhs in fn.assignments() if lhs is not None and rhs is not None and op == '=' and
                  fn.key(lhs).endswith('m_lastChangeTime') and fn.key(rhs).endswith('m_lastUpdateTime')]
        if not copies:
            continue
        writes = set(nid for nid, d, rhs, op, lhs in fn.assignments() if lhs is not None and op != 'init' and fn.key(lhs).endswith('m_lastUpdateTime'))
        for c in fn.calls():
            if any(fn.key(a) in ('&this.m_lastUpdateTime',) or fn.key(a).endswith('&this.m_lastUpdateTime') for a in fn.nodes[c].get('args', [])):
                writes.add(c)
        for c in copies:
            n += 1
            ctx.touch(fn)
            late = [w for w in writes if fn.block_of(w) is not None and fn.reaches_point(fn.pos(c)[0], fn.pos(w), set(), start_idx=fn.pos(c)[1] + 1)]
            before = [w for w in writes if fn.block_of(w) is not None and fn.reaches_point(fn.pos(w)[0], fn.pos(c), set(), start_idx=fn.pos(w)[1] + 1)]
            ok = not late and bool(before)
            ctx.ob('C13.R14', fn, c, ok, 'm_lastChangeTime = m_lastUpdateTime in %s' % fn.name.split('::', 1)[1],
                   'the update time is taken before the copy: %s; written again behind it: %s' % (bool(before), bool(late)))
    if n < 3:
        raise AnalysisBroken('C13.R14: only %d copies of the update time into the change time found' % n)


def r16(ctx):
    ctx.rule('C13.R16', 'a guarded definition creates a guarded message, whatever its kind: every message object that '
             'Message::create constructs (plain or chained) is handed the condition parameter of create as an explicit '
             'argument - a constructor parameter with a default '
             'value (Condition* condition = nullptr) compiles without the argument and leaves a chained message of a '
             'conditional definition always available', minimum=2)
    fb = ctx.fb
    fn = fb.fn('ebusd::Message::create')
    ctx.touch(fn)
    cond = [p_['name'] for p_ in fn.params if 'Condition' in (p_.get('t') or '')]
    if len(cond) != 1:
        raise AnalysisBroken('C13.R16: the condition parameter of Message::create was not recognised')
    sites = []
    for x, v in sorted(fn.nodes.items()):
        if v['k'] == 'CXXNewExpr' and (v.get('newt') or '').endswith('Message') and v.get('init') is not None:
            ce = fn.nodes[fn.strip(v['init'], casts=True)]
            keys = [fn.key(a) for a in ce.get('args', []) if fn.nodes[fn.strip(a, casts=True)].get('k') != 'CXXDefaultArgExpr']
            sites.append((x, v['newt'], keys))
    if len(sites) < 2:
        raise AnalysisBroken('C13.R16: the constructions of Message and ChainedMessage in Message::create were not found')
    common_args = None
    for x, t, keys in sites:
        common_args = set(keys) if common_args is None else common_args | set(keys)
    for x, t, keys in sites:
        has = cond[0] in keys
        # what a sibling is handed and this one is not (beyond the arguments that only one kind has)
        ctx.ob('C13.R16', fn, x, has, 'new %s in Message::create' % t.split('::')[-1],
               'is handed the condition of the definition: %s' % has)


def r17(ctx):
    ctx.rule('C13.R17', 'the comparison operator of an on-the-fly condition ([name<5], [name>=3]) reaches the value parser: '
             'MessageMap::readConditions finds the first of the characters = < > behind the name and hands derive() the text '
             'FROM that position on (substr(sep), the operator included) - the value parser recognises < > <= >= at the start '
             'of a value; handed the text behind the separator, [mode<5] silently means mode == 5', minimum=1)
    fb = ctx.fb
    fn = fb.fn('ebusd::MessageMap::readConditions')
    ctx.touch(fn)
    n = 0
    for c in fn.calls('derive'):
        v = fn.nodes[c]
        if not v.get('args'):
            continue
        def unwrap(x):
            a_ = fn.nodes[fn.def_expr(x)]
            while a_.get('k') in ('CXXConstructExpr', 'CXXBindTemporaryExpr', 'MaterializeTemporaryExpr', 'ExprWithCleanups') and (a_.get('args') or a_.get('ch')):
                a_ = fn.nodes[fn.def_expr((a_.get('args') or a_.get('ch'))[0])]
            return a_
        a = unwrap(v['args'][0])
        if a.get('k') == 'DeclRefExpr' and a.get('rk') == 'local':
            # a local that is initialised once stands for its initialiser
            ds = [r2 for n2, d2, r2, o2, l2 in fn.assignments() if d2 == a.get('decl')]
            if len(ds) == 1 and ds[0] is not None:
                a = unwrap(ds[0])
        if a.get('k') != 'CXXMemberCallExpr' or not (a.get('callee') or '').endswith('::substr') or not a.get('args'):
            continue
        start = a['args'][0]
        src = fn.nodes[fn.def_expr(start)]
        sk = fn.key(fn.def_expr(start))
        # the position searched with a set of operator characters
        pos_local = fn.nodes[fn.strip(start, casts=True)]
        found = None
        if pos_local.get('k') == 'DeclRefExpr':
            for nid, d, rhs, op, lhs in fn.assignments():
                if d == pos_local.get('decl') and rhs is not None and 'find_first_of' in fn.key(rhs):
                    found = fn.key(rhs)
        n += 1
        ops = found is not None and '<' in found and '>' in found
        ok = pos_local.get('k') == 'DeclRefExpr' and ops
        ctx.ob('C13.R17', fn, c, ok, 'text handed to derive()',
               'starts at the position of the operator found by find_first_of("=<>"): %s (start %s)' % (ok, fn.key(start)))
    if n < 1:
        raise AnalysisBroken('C13.R17: the derivation of an on-the-fly condition was not found in readConditions')


def r18(ctx):
    ctx.rule('C13.R18', 'a condition is checked against the text of the value stored now: the checkValue functions of the '
             'conditions decode the referenced field into a stream that is a local of the function (a fresh one per check) - a '
             'reused member stream that is only rewound keeps the tail of an earlier, longer text (on after off reads onf)',
             minimum=1)
    fb = ctx.fb
    n = 0
    for fn in fb.functions:
        if not fn.name.endswith('Condition::checkValue') or not fn.nodes:
            continue
        for c in fn.calls('decodeLastData', 'decodeLastDataField', 'decode'):
            v = fn.nodes[c]
            outs = [a for a in v.get('args', []) if fn.key(a).startswith('&') and 'ostringstream' in (fn.nodes[fn.strip(fn.nodes[fn.strip(a, casts=True)].get('ch', [a])[0], casts=True)].get('t') or '')]
            for a in outs:
                t = fn.nodes[fn.strip(fn.nodes[fn.strip(a, casts=True)]['ch'][0], casts=True)]
                n += 1
                ctx.touch(fn)
                ok = t.get('k') == 'DeclRefExpr' and t.get('rk') == 'local'
                ctx.ob('C13.R18', fn, c, ok, 'stream the value is decoded into in %s' % fn.name.split('::', 1)[1],
                       'a local of the function: %s (%s)' % (ok, fn.key(a)))
    if n < 1:
        raise AnalysisBroken('C13.R18: no decode into a string stream found in the checkValue functions')


def r19(ctx):
    ctx.rule('C13.R19', 'a change of the stored data is noticed: SymbolString::compareTo answers "only the master address differs" '
             '(2, for which Message::storeLastData keeps the change time) only after the symbols behind the first one were '
             'compared and found equal (std::equal over the rest) or when there are none (size() == 1) - answered as soon as '
             'the first symbol differs, an update that changes sender and value at once does not advance the change time and '
             'the conditions that depend on the message are not evaluated again', minimum=1)
    fb = ctx.fb
    fn = fb.fn('ebusd::SymbolString::compareTo')
    ctx.touch(fn)
    loops = fn.all('ForStmt', 'WhileStmt', 'DoStmt', 'CXXForRangeStmt')
    n = 0
    for r in fn.all('ReturnStmt'):
        val = fn.nodes[r].get('val')
        if val is None or fn.val(val) != 2:
            continue
        n += 1
        atoms = set((a[0], a[1]) for a in fn.atoms(r))
        rest = any(pol and 'equal(' in k and '#1' in k for k, pol in atoms)
        single = any(pol and k in ('(this.m_data.size() == #1)', '(this.m_data.size() <= #1)', '(this.m_data.size() < #2)') for k, pol in atoms)
        if not rest and not single and loops:
            raise AnalysisBroken('C13.R19: compareTo compares in a loop, the rule does not follow it')
        ctx.ob('C13.R19', fn, r, rest or single, 'compareTo answers "only the master address differs"',
               'behind a comparison of the rest (%s) or with a single symbol (%s)' % (rest, single))
    if n < 1:
        raise AnalysisBroken('C13.R19: no return of 2 in SymbolString::compareTo')


def r20(ctx):
    ctx.rule('C13.R20', 'a condition that guards another message is not extended: in MessageMap::readConditions a combination '
             'taken directly out of the stored conditions (*condition = <entry of m_conditions>) is handed out as it is - from '
             'such a store no call of combineAnd on *condition is reachable; the receiver of combineAnd is the simple '
             'condition of the first bracket or a combination created in this call - CombinedCondition::combineAnd appends in '
             'place, and a further part appended to a stored [a][b] makes the messages guarded by [a][b] depend on it too', minimum=1)
    fb = ctx.fb
    fn = fb.fn('ebusd::MessageMap::readConditions')
    ctx.touch(fn)
    out = '*' + fn.P(3)
    combs = [c for c in fn.calls('combineAnd') if fn.key(c).startswith(out + '.combineAnd(') or fn.key(c).startswith('(' + out + ').combineAnd(')]
    if not combs:
        raise AnalysisBroken('C13.R20: the call of combineAnd on the condition handed out was not found')
    n = 0
    asg = list(fn.assignments())
    writes = set(nid for nid, d, rhs, op, lhs in asg if lhs is not None and fn.key(lhs) == out)
    for nid, d, rhs, op, lhs in asg:
        if lhs is None or fn.key(lhs) != out or rhs is None:
            continue
        rk = fn.xkey(rhs)
        if not (rk.endswith('.second') and 'operator->' in rk or '.second' in rk and 'm_conditions' in rk):
            continue
        n += 1
        b, i = fn.pos(nid)
        bad = [c for c in combs if fn.reaches_point(b, fn.pos(c), writes - {nid}, start_idx=i + 1)]
        ctx.ob('C13.R20', fn, nid, not bad, 'stored condition handed out', 'no combineAnd on it is reachable: %s%s' % (
            not bad, '' if not bad else ' (line %d)' % fn.line_of(bad[0])))
    if n < 1:
        raise AnalysisBroken('C13.R20: the reuse of a stored condition was not found in readConditions')


def run(ctx):
    r20(ctx)
    r19(ctx)
    r18(ctx)
    r17(ctx)
    r16(ctx)
    import rules.common as _cmw
    ctx.rule('C13.R15', 'a 64 bit key or time stays 64 bit: where the sources of this property call a repository function declared to return uint64_t (message and answer keys, the millisecond clock), the result is not converted implicitly to a narrower integer at the call - a key held in an unsigned int loses ID length, source, destination and command bytes and never matches a stored key again', minimum=6)
    _cmw.wide_result_rule(ctx, 'C13.R15', lambda f: f.relfile.startswith(('src/lib/ebus/message.',)), 6)
    r14(ctx)
    r13(ctx)
    r12(ctx)
    r11(ctx)
    tolower_rule(ctx, 'C13.R10')
    r9(ctx)
    r1(ctx)
    r2(ctx)
    r3(ctx)
    r4(ctx)
    import rules.C10 as c10
    ctx.borrow(c10.r1, {'C10.R1': 'C13.R5'},
               'a numeric condition reads the referenced field through the numeric DataFieldSet::read; it must locate the '
               'field at the same byte/bit position as the length computation and the text decoder do')
    r6(ctx)
    r7(ctx)
    ctx.rule('C13.R8', 'a derived or combined condition refers to the same message as the condition it was made from: at every '
             'call in message.cpp whose arguments are named like parameters of the callee (circuit, level, name, ...) no two '
             'of them are passed crosswise', minimum=8)
    common.swapped_args_rule(ctx, 'C13.R8', ('src/lib/ebus/message.',), 8)
