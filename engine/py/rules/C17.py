"""C17 - polling is starvation-free and proportional to priority (necessary structural conditions only; weak claim).

C17.R1 the poll comparator is a lexicographic (hence strict weak) order over (poll order, priority, last poll time)
C17.R2 every selection advances the selected message's virtual time by its priority, raises the global high-water mark and
       re-inserts the message; lock pairing
C17.R3 a message that gets its first priority (or whose order lies ahead) is anchored at high-water mark + priority
"""
import itertools

import facts
from facts import AnalysisBroken
import rules.locks as locks


def r1(ctx):
    ctx.rule('C17.R1', 'Message::isLessPollWeight decides by comparing corresponding members of the two messages only, and on '
             'the 27 sign vectors of (this - other) for (m_pollOrder, m_pollPriority, m_lastPollTime) it is exactly the '
             'lexicographic order "larger value = less weight": irreflexive, asymmetric and transitive, as required of the '
             'priority queue comparator', minimum=27)
    fb = ctx.fb
    fn = fb.fn('ebusd::Message::isLessPollWeight')
    ctx.touch(fn)
    fields = []
    conds = {}
    oth = fn.P(0) + '.'
    for b in sorted((bb for bb in fn.blocks.values() if bb.cond is not None), key=lambda bb: fn.line_of(bb.cond)):
        c = fn.effective_cond(b.id)
        v = fn.nodes[c]
        if v['k'] != 'BinaryOperator' or v['op'] not in ('<', '>', '<=', '>=', '==', '!='):
            raise AnalysisBroken('C17.R1: unexpected condition %s' % fn.key(c))
        l, r = fn.key(v['lhs']), fn.key(v['rhs'])
        if not (l.startswith('this.') and r == oth + l[5:]):
            if r.startswith('this.') and l == oth + r[5:]:
                l, r = r, l
                op = facts.CMP_MIRROR[v['op']]
            elif {l.split('.')[0] + '.', r.split('.')[0] + '.'} == {'this.', oth}:
                ctx.ob('C17.R1', fn, c, False, 'corresponding members', 'condition compares different members of the two messages: %s' % fn.key(c))
                return
            else:
                raise AnalysisBroken('C17.R1: unexpected condition %s' % fn.key(c))
        else:
            op = v['op']
        f = l[5:]
        if f not in fields:
            fields.append(f)
        conds[b.id] = (f, op)
    # return expressions that are comparisons
    def eval_ret(r, sign):
        rv = fn.nodes[r].get('val')
        x = fn.val(rv)
        if x is not None:
            return bool(x)
        v = fn.nodes[fn.strip(rv)]
        if v['k'] == 'BinaryOperator':
            l, rr = fn.key(v['lhs']), fn.key(v['rhs'])
            if l.startswith('this.') and rr == oth + l[5:]:
                f = l[5:]
                if f not in fields:
                    fields.append(f)
                return cmp_sign(sign.get(f, 0), v['op'])
        raise AnalysisBroken('C17.R1: unexpected return %s' % fn.key(rv))

    def cmp_sign(s, op):
        return {'<': s < 0, '>': s > 0, '<=': s <= 0, '>=': s >= 0, '==': s == 0, '!=': s != 0}[op]
    # collect fields from returns first
    for r in fn.all('ReturnStmt'):
        rv = fn.nodes[r].get('val')
        if fn.val(rv) is None:
            v = fn.nodes[fn.strip(rv)]
            if v['k'] == 'BinaryOperator' and fn.key(v['lhs']).startswith('this.'):
                f = fn.key(v['lhs'])[5:]
                if f not in fields:
                    fields.append(f)
    if fields != ['m_pollOrder', 'm_pollPriority', 'm_lastPollTime']:
        ctx.ob('C17.R1', fn, fn.body, False, 'comparison keys', 'keys compared in order %s (expected m_pollOrder, m_pollPriority, '
               'm_lastPollTime)' % fields)
        return

    def run_vec(sign):
        b = fn.entry
        steps = 0
        while steps < 200:
            steps += 1
            blk = fn.blocks[b]
            for e in blk.elems:
                if fn.nodes[e]['k'] == 'ReturnStmt':
                    return eval_ret(e, sign)
            if b in conds:
                f, op = conds[b]
                t = cmp_sign(sign[f], op)
                b = blk.succs[0 if t else 1]
            else:
                nxt = [s for s in blk.succs if s is not None]
                if not nxt:
                    raise AnalysisBroken('C17.R1: fell off the comparator')
                b = nxt[0]
        raise AnalysisBroken('C17.R1: comparator does not terminate')
    for vec in itertools.product((-1, 0, 1), repeat=3):
        sign = dict(zip(fields, vec))
        got = run_vec(sign)
        first = next((s for s in vec if s != 0), 0)
        want = first > 0
        ctx.ob('C17.R1', fn, fn.body, got == want, 'sign vector %s' % (vec,), 'less=%s, lexicographic order gives %s' % (got, want),
               nontrivial=(first != 0))


def r2(ctx):
    ctx.rule('C17.R2', 'in MessageMap::getNextPoll every path that returns a message passes: the comparison/update of the '
             'global high-water mark g_lastPollOrder with the selected message\'s order, the advance m_pollOrder += '
             'm_pollPriority, the time stamp, and - if the message was popped - its re-insertion; lock and unlock are paired',
             minimum=4)
    fb = ctx.fb
    fn = fb.fn('ebusd::MessageMap::getNextPoll')
    ctx.touch(fn)
    rets = [r for r in fn.all('ReturnStmt') if fn.nodes[r].get('val') is not None and fn.key(fn.nodes[r]['val']) not in ('#0',)]
    if not rets:
        raise AnalysisBroken('C17.R2: no message-returning path in getNextPoll')
    hw_tests = set(b.id for b in fn.blocks.values() if b.cond is not None and 'g_lastPollOrder' in fn.key(b.cond) and 'm_pollOrder' in fn.key(b.cond))
    adv = set(nid for nid, d, rhs, op, lhs in fn.assignments() if op == '+=' and lhs is not None and fn.key(lhs).endswith('.m_pollOrder') and
              rhs is not None and 'm_pollPriority' in fn.key(rhs))
    pops = set(c for c in fn.all('CXXMemberCallExpr') if (fn.nodes[c].get('callee') or '').endswith('::pop'))
    pushes = set(c for c in fn.all('CXXMemberCallExpr') if (fn.nodes[c].get('callee') or '').endswith('::push'))
    for r in rets:
        rp = fn.pos(r)
        ok_hw = bool(hw_tests) and rp[0] not in fn.reach([fn.entry], cut_blocks=hw_tests)
        ok_adv = bool(adv) and not fn.reaches_point(fn.entry, rp, adv)
        ctx.ob('C17.R2', fn, r, ok_hw, 'high-water mark maintained before returning', 'g_lastPollOrder compared with the selected order on every path: %s' % ok_hw)
        ctx.ob('C17.R2', fn, r, ok_adv, 'virtual time advanced before returning', 'm_pollOrder += m_pollPriority on every path: %s' % ok_adv)
        ok_re = True
        for p in pops:
            pp = fn.pos(p)
            if fn.reaches_point(pp[0], rp, pushes, start_idx=pp[1] + 1):
                ok_re = False
        ctx.ob('C17.R2', fn, r, ok_re and bool(pushes), 're-insertion after pop', 'every popped message is pushed again: %s' % ok_re)
    is_lock = lambda f, e: f.nodes[e]['k'] == 'CXXMemberCallExpr' and (f.nodes[e].get('callee') or '').endswith('::lock')
    is_unlock = lambda f, e: f.nodes[e]['k'] == 'CXXMemberCallExpr' and (f.nodes[e].get('callee') or '').endswith('::unlock')
    problems, ex = locks.pairing(fn, is_lock, is_unlock)
    ctx.ob('C17.R2', fn, fn.body, not problems, 'lock pairing', '; '.join('%s at line %d' % (k, fn.line_of(e)) for k, e, p in problems) or 'paired')


def r3(ctx):
    ctx.rule('C17.R3', 'Message::setPollPriority anchors m_pollOrder at g_lastPollOrder + priority whenever the message gets '
             'its first priority (flag computed from old priority == 0 and new priority > 0) or its order lies beyond that '
             'value: the first-priority flag is tested and its true edge leads to the anchoring assignment; otherwise the order is only pulled in', minimum=2)
    fb = ctx.fb
    fn = fb.fn('ebusd::Message::setPollPriority')
    ctx.touch(fn)
    import rules.common as common
    env = common.IntervalEnv(fn)

    def expand(rhs):
        k = fn.key(rhs)
        r = fn.nodes.get(fn.strip(rhs, casts=True), {})
        if r.get('k') == 'DeclRefExpr' and r.get('rk') == 'local':
            init = env.single_def(r.get('decl'))
            if init is not None:
                return fn.key(init)
        return k
    anchor = [nid for nid, d, rhs, op, lhs in fn.assignments() if d == 'this.m_pollOrder' and rhs is not None and
              'g_lastPollOrder' in expand(rhs) and 'm_pollPriority' in expand(rhs)]
    if not anchor:
        ctx.ob('C17.R3', fn, fn.body, False, 'anchoring assignment', 'm_pollOrder = g_lastPollOrder + priority not found')
        return
    # the first-priority flag: bool local initialised from (m_pollPriority == 0 && ... > 0)
    flag = None
    for nid, d, rhs, op, lhs in fn.assignments():
        if op == 'init' and rhs is not None and '(this.m_pollPriority == #0)' in fn.key(rhs):
            flag = d.split(':')[-1]
    if flag is None:
        ctx.ob('C17.R3', fn, fn.body, False, 'first-priority flag', 'flag (old priority == 0 && new priority > 0) not found')
        return
    edges = fn.edges_with_atom(flag, True)
    ok = bool(edges)
    for (b, j) in edges:
        tgt = fn.blocks[b].succs[j]
        # from the true edge every path to the exit passes the anchor
        if fn.reaches_point(tgt, (fn.exit, 0), set(anchor)):
            ok = False
    ctx.ob('C17.R3', fn, anchor[0], ok, 'first priority is anchored', 'flag %s tested and its true edge always reaches the anchoring '
           'assignment: %s' % (flag, ok))
    rk = expand(fn.nodes[anchor[0]]['rhs'])
    aop = [op for nid, d, rhs, op, lhs in fn.assignments() if nid == anchor[0]][0]
    ctx.ob('C17.R3', fn, anchor[0], 'g_lastPollOrder' in rk and 'm_pollPriority' in rk and '+' in rk and aop in ('=', 'init'),
           'anchor value', 'm_pollOrder %s %s' % (aop, rk))
    # apart from the first priority, the order is only pulled in: the assignment is taken when the current order lies beyond
    # the very value that is assigned (a weaker test pushes a queued message back on every priority change)
    raw = fn.key(fn.nodes[anchor[0]]['rhs'])
    cands = {rk, raw}
    alts = [(flag, True)]
    for c_ in cands:
        alts += [('(this.m_pollOrder <= %s)' % c_, False), ('(%s < this.m_pollOrder)' % c_, True)]
    okc = fn.needs_one_of(anchor[0], alts)
    ctx.ob('C17.R3', fn, anchor[0], okc, 'anchor only pulls the order in',
           'taken only for a first priority or when m_pollOrder > %s: %s' % (rk, okc))


def r4(ctx):
    ctx.rule('C17.R4', 'the global poll order high-water mark (g_lastPollOrder, the virtual time new priorities are anchored at) '
             'only grows: it is written only in MessageMap::getNextPoll, from the order of the selected message and under '
             'the test that this order is larger; any other write (a reset) makes later anchored messages jump the queue',
             minimum=1)
    fb = ctx.fb
    n = 0
    for fn in fb.functions:
        if not fn.relfile.startswith('src/lib/ebus/message.') or not fn.blocks:
            continue
        for nid, d, rhs, op, lhs in fn.assignments():
            if not d or not d.endswith('g_lastPollOrder') or op == 'init':
                continue
            n += 1
            ok = fn.name == 'ebusd::MessageMap::getNextPoll' and op == '=' and rhs is not None
            why = 'written in %s' % fn.name
            if ok:
                rk = fn.key(rhs)
                atoms = set((a[0], a[1]) for a in fn.atoms(nid))
                grows = ('(%s < %s)' % (fn.key(lhs), rk), True) in atoms or ('(%s <= %s)' % (rk, fn.key(lhs)), False) in atoms
                ok = rk.endswith('.m_pollOrder') and grows
                why = 'assigned %s under %s' % (rk, sorted(a for a in atoms if 'g_lastPollOrder' in a[0]))
            ctx.ob('C17.R4', fn, nid, ok, 'write of g_lastPollOrder in %s' % fn.name.split('::')[-1], why)
    if n < 1:
        raise AnalysisBroken('C17.R4: no write of g_lastPollOrder found')


def r5(ctx):
    ctx.rule('C17.R5', 'a message enters the poll queue exactly when it gets its first priority: in the client and sink sources every '
             'addPollMessage(false, m) is reached only where m->setPollPriority(...) has just returned true (addPollMessage '
             'ignores a message without priority, so the order matters), and no result of setPollPriority is discarded - a '
             'true result always leads to the addPollMessage call', minimum=4)
    fb = ctx.fb
    n = 0
    seen = set()
    for fn in fb.functions:
        if not fn.relfile.startswith('src/ebusd/') or not fn.blocks or (fn.name, fn.sig) in seen:
            continue
        seen.add((fn.name, fn.sig))
        adds = [c for c in fn.all('CXXMemberCallExpr') if (fn.nodes[c].get('callee') or '').endswith('MessageMap::addPollMessage')]
        sets = [c for c in fn.all('CXXMemberCallExpr') if (fn.nodes[c].get('callee') or '').endswith('Message::setPollPriority')]
        # a local that holds the result of a setPollPriority call stands for that call
        flag = {}
        for nid, d, rhs, op, lhs in fn.assignments():
            if d and ':' in d and rhs is not None and fn.strip(rhs, casts=True) in sets:
                defs = [1 for _, d2, _, _, _ in fn.assignments() if d2 == d]
                if len(defs) == 1:
                    flag[d.split(':')[-1]] = fn.strip(rhs, casts=True)
        for c in adds:
            n += 1
            ctx.touch(fn)
            m = fn.key(fn.nodes[c]['args'][1])
            ok = any((k.startswith('%s.setPollPriority(' % m) or (k in flag and fn.key(fn.nodes[flag[k]]['obj']) == m)) and p
                     for k, p in ((a[0], a[1]) for a in fn.atoms(c)))
            ctx.ob('C17.R5', fn, c, ok, 'addPollMessage(%s)' % m, 'reached only after %s.setPollPriority() returned true: %s' % (m, ok))
        for c in sets:
            n += 1
            ctx.touch(fn)
            par = fn.nodes.get(fn.parent(c), {})
            if par.get('k') in ('CompoundStmt', 'IfStmt', 'ForStmt', 'WhileStmt', 'CXXForRangeStmt') and par.get('cond') != c and c not in flag.values():
                ctx.ob('C17.R5', fn, c, False, 'result of setPollPriority', 'discarded: a first priority does not queue the message')
                continue
            m = fn.key(fn.nodes[c]['obj'])
            mine = set(a for a in adds if fn.key(fn.nodes[a]['args'][1]) == m)
            edges = fn.edges_with_atom(fn.key(c), True)
            for nm, cc in flag.items():
                if cc == c:
                    edges = fn.edges_with_atom(nm, True)
            ok = bool(edges) and bool(mine) and all(not fn.reaches_point(fn.blocks[b].succs[j], (fn.exit, 0), mine) or
                                                    _loops_back(fn, fn.blocks[b].succs[j], mine) for b, j in edges)
            ctx.ob('C17.R5', fn, c, ok, 'true result of %s.setPollPriority()' % m, 'leads to addPollMessage on every path: %s' % ok)
    if n < 4:
        raise AnalysisBroken('C17.R5: only %d poll queue call sites found' % n)


def _loops_back(fn, start, mine):
    """inside a loop the exit is always reachable through the back edge; what matters is that the add call is executed before
    the body is left: the first element reached from the true edge is (in) the block of an add call"""
    blk = fn.blocks[start]
    return any(fn.pos(a) is not None and fn.pos(a)[0] == start for a in mine)


def r6(ctx):
    ctx.rule('C17.R6', 'a message that is polled from its creation joins the queue at the current virtual time: the constructor of '
             'Message that takes a poll priority initialises m_pollOrder with the high-water mark g_lastPollOrder when that '
             'priority is set (0 only for a message without priority) - starting at 0 after hours of polling lets a message '
             'added at run time be selected over and over until it has caught up, and after a reload it starves every message '
             'that is anchored at the mark by a later priority change', minimum=1)
    fb = ctx.fb
    n = 0
    seen = set()
    for f in fb.functions:
        if f.name != 'ebusd::Message::Message' or (f.name, f.sig) in seen:
            continue
        seen.add((f.name, f.sig))
        prio = [p for p in f.params if 'priority' in (p.get('name') or '').lower()]
        if not prio:
            continue
        for i in f.inits:
            if i.get('member') != 'm_pollOrder':
                continue
            n += 1
            ctx.touch(f)
            k = f.key(i['init'])
            x = f.nodes[f.strip(i['init'], casts=True)]
            ok = 'g_lastPollOrder' in k
            if x.get('k') == 'ConditionalOperator':
                ck = f.key(x['cond'])
                pn = prio[0]['name']
                pos = 'g_lastPollOrder' in f.key(x['then'])
                ok = pn in ck and ((pos and (' <= #0)' in ck or ' == #0)' in ck) is False) or (not pos and 'g_lastPollOrder' in f.key(x['else'])))
            ctx.ob('C17.R6', f, i['init'], ok, 'initial poll order of a message created with a priority', 'm_pollOrder(%s)' % k)
    if n < 1:
        raise AnalysisBroken('C17.R6: constructor initialiser of m_pollOrder not found')


def r7(ctx):
    ctx.rule('C17.R7', 'a message that a condition depends on is polled: SimpleCondition::resolve gives the referenced message the '
             'condition priority (setUsedByCondition) and puts it into the poll queue (addPollMessage) on every path on which '
             'it is a named, non-scan message, and the priority is set before the message is queued (the queue ignores a message '
             'without priority); a message with a priority that is not queued is never selected', minimum=2)
    fb = ctx.fb
    res = fb.fn('ebusd::SimpleCondition::resolve')
    ctx.touch(res)
    # the two calls may have been moved into a helper that resolve() calls (extract function)
    cands = [res] + [g for g in fb.functions if g.blocks and g.relfile.startswith('src/lib/ebus/message.') and
                     g.name in set(res.nodes[c].get('callee') for c in res.all('CallExpr', 'CXXMemberCallExpr') if res.nodes[c].get('repo'))]
    fn = None
    for g in cands:
        if any((g.nodes[c].get('callee') or '').endswith('::setUsedByCondition') for c in g.all('CXXMemberCallExpr')) and \
                any((g.nodes[c].get('callee') or '').endswith('::addPollMessage') for c in g.all('CXXMemberCallExpr')):
            fn = g
            break
    if fn is None:
        # the priority is given but nothing queues the message: that is the violation itself, not an unknown shape
        for g in cands:
            us = [c for c in g.all('CXXMemberCallExpr') if (g.nodes[c].get('callee') or '').endswith('::setUsedByCondition')]
            if us:
                ctx.touch(g)
                for u in us:
                    ctx.ob('C17.R7', g, u, False, 'true result / effect of %s.setUsedByCondition()' % g.key(g.nodes[u]['obj']),
                           'leads to addPollMessage: False (no addPollMessage in %s)' % g.name.split('::', 1)[1])
                return
        raise AnalysisBroken('C17.R7: setUsedByCondition / addPollMessage not found in SimpleCondition::resolve or a helper it calls')
    ctx.touch(fn)
    used = [c for c in fn.all('CXXMemberCallExpr') if (fn.nodes[c].get('callee') or '').endswith('::setUsedByCondition')]
    adds = set(c for c in fn.all('CXXMemberCallExpr') if (fn.nodes[c].get('callee') or '').endswith('::addPollMessage'))
    # addPollMessage ignores a message without priority, and setUsedByCondition is what gives a message without own priority
    # one: the priority is set first on every path
    for a in sorted(adds):
        m = fn.key(fn.nodes[a]['args'][1])
        mine = set(u for u in used if fn.key(fn.nodes[u]['obj']) == m)
        early = fn.reaches_point(fn.entry, fn.pos(a), mine)
        ctx.ob('C17.R7', fn, a, bool(mine) and not early, 'queueing of a message used by a condition',
               'reached only behind setUsedByCondition(): %s' % (bool(mine) and not early))
    for u in used:
        m = fn.key(fn.nodes[u]['obj'])
        cut = list(fn.edges_with_atom('%s.isScanMessage()' % m, True))
        cut += list(fn.edges_with_atom('(this.m_name.length() <= #0)', True)) + list(fn.edges_with_atom('this.m_name.empty()', True))
        # in a helper the "named message" test arrives as a bool parameter
        for prm in fn.params:
            if (prm.get('t') or '') in ('bool', 'const bool'):
                cut += list(fn.edges_with_atom(prm['name'], False))
        pu = fn.pos(u)
        skipped = fn.reaches_point(pu[0], (fn.exit, 0), adds, start_idx=pu[1] + 1, cut_edges=cut)
        ctx.ob('C17.R7', fn, u, not skipped, 'message used by a condition', 'queued for polling on every path for a named non-scan message: %s' % (not skipped))


def r8(ctx):
    ctx.rule('C17.R8', 'only messages with a poll priority are in the poll queue: every m_pollMessages.push(m) is a re-insertion '
             'of the entry just taken from the queue, or is reached only with m->getPollPriority() > 0 - tested in the pushing '
             'function, or at every call of it. A message with priority 0 never advances its virtual time in getNextPoll and '
             'stays on top of the queue, so that no other message is polled any more (a condition on a passive message puts '
             'such a message to the front)', minimum=2)
    fb = ctx.fb
    n = 0
    seen = set()
    for fn in fb.functions:
        if not fn.relfile.startswith('src/lib/ebus/message.') or not fn.blocks or (fn.name, fn.sig) in seen:
            continue
        seen.add((fn.name, fn.sig))
        for c in fn.calls('push', 'push_back', 'emplace', 'insert'):
            v = fn.nodes[c]
            if 'obj' not in v or 'm_pollMessages' not in fn.key(v['obj']) or not v.get('args'):
                continue
            n += 1
            ctx.touch(fn)
            m = fn.key(v['args'][-1])
            d = fn.def_expr(v['args'][-1])
            if 'm_pollMessages.top()' in fn.key(d):
                ctx.ob('C17.R8', fn, c, True, 're-insertion in %s' % fn.name.split('::', 1)[1], 'the entry taken from the queue')
                continue
            local = fn.needs_one_of(c, [('(%s.getPollPriority() <= #0)' % m, False), ('(%s.getPollPriority() == #0)' % m, False),
                                        ('(%s.m_pollPriority <= #0)' % m, False), ('(%s.m_pollPriority == #0)' % m, False)])
            ok = local
            how = 'tested in the function'
            if not local:
                pidx = [i for i, p_ in enumerate(fn.params) if p_['name'] == m]
                sites = fb.call_sites(fn.name)
                ok = bool(pidx) and bool(sites)
                how = 'tested at all %d call sites' % len(sites)
                for g, cc in sites:
                    args = g.nodes[cc].get('args', [])
                    if not pidx or len(args) <= pidx[0] or g.block_of(cc) is None:
                        ok = False
                        continue
                    a = g.key(args[pidx[0]])
                    if not g.needs_one_of(cc, [('(%s.getPollPriority() <= #0)' % a, False), ('(%s.getPollPriority() == #0)' % a, False)]):
                        ok = False
                        how = 'not tested in the function and not at the call in %s (line %d)' % (g.name.split('::', 1)[-1], g.line_of(cc))
            ctx.ob('C17.R8', fn, c, ok, 'm_pollMessages.push(%s) in %s' % (m, fn.name.split('::', 1)[1]),
                   'only with a poll priority above 0: %s (%s)' % (ok, how))
    if n < 2:
        raise AnalysisBroken('C17.R8: only %d insertions into the poll queue found' % n)


def r9(ctx):
    ctx.rule('C17.R9', 'the virtual poll time has one domain: Message::m_pollOrder (the time of the next poll of a message) and '
             'g_lastPollOrder (the time of the last selection, which new and re-prioritised messages start from) have the same '
             'integer type, at least 32 bits wide; a narrower member wraps around long before the mark does, the message that '
             'wrapped sorts in front of all others and is selected thousands of times in a row', minimum=1)
    fb = ctx.fb
    cls = fb.classes.get('ebusd::Message')
    g = fb.globals.get('ebusd::g_lastPollOrder')
    if cls is None or g is None:
        raise AnalysisBroken('C17.R9: Message or g_lastPollOrder not found')
    f = [x for x in cls.get('fields', []) if x['name'] == 'm_pollOrder']
    if not f:
        raise AnalysisBroken('C17.R9: Message::m_pollOrder not found')
    f = f[0]
    ok = f.get('w') == g.get('w') and bool(f.get('sg')) == bool(g.get('sg')) and (f.get('w') or 0) >= 32
    fn = fb.fn('ebusd::MessageMap::getNextPoll')
    ctx.touch(fn)
    ctx.ob('C17.R9', fn, fn.body, ok, 'type of m_pollOrder and of g_lastPollOrder',
           'm_pollOrder is %s (%s bit), g_lastPollOrder is %s (%s bit): same domain of at least 32 bit: %s' % (
               f.get('t'), f.get('w'), g.get('t'), g.get('w'), ok))


def r10(ctx):
    ctx.rule('C17.R10', 'a priority is given together with a place in the virtual time: every store of a value that may be non-zero '
             'into Message::m_pollPriority stands in a function that also anchors m_pollOrder of the same message (that is '
             'Message::setPollPriority, whose anchoring C17.R3 decides; a store of the constant 0 takes the message out of '
             'polling and needs no place) - a priority assigned directly leaves the order at 0, far behind the virtual time '
             'of a long-running queue, and the message is selected history / priority times in a row', minimum=1)
    fb = ctx.fb
    n = 0
    for fn in fb.functions:
        if not fn.blocks or not fn.relfile.startswith('src/'):
            continue
        asg = list(fn.assignments())
        for nid, d, rhs, op, lhs in asg:
            if lhs is None:
                continue
            lk = fn.key(lhs)
            if not (lk == 'this.m_pollPriority' or lk.endswith('.m_pollPriority') or lk.endswith('->m_pollPriority')):
                continue
            if rhs is not None and op == '=' and fn.val(rhs) == 0:
                continue
            n += 1
            ctx.touch(fn)
            obj = lk[:-len('m_pollPriority')]
            anch = [n2 for n2, d2, r2, o2, l2 in asg if l2 is not None and fn.key(l2) == obj + 'm_pollOrder']
            ok = bool(anch)
            ctx.ob('C17.R10', fn, nid, ok, 'store into %s in %s' % (lk, fn.name.split('::')[-1]),
                   'the function also anchors %sm_pollOrder: %s' % (obj, ok))
    if n < 1:
        raise AnalysisBroken('C17.R10: no store into m_pollPriority found')


def run(ctx):
    r10(ctx)
    r9(ctx)
    r8(ctx)
    r7(ctx)
    r6(ctx)
    r5(ctx)
    r1(ctx)
    r2(ctx)
    r3(ctx)
    r4(ctx)
