"""extraction of bit-field placements from key builder functions (A6/A7): which source is OR/XOR-ed into which bit
position of an accumulator, and the schedule of a folding loop"""
import facts
from facts import AnalysisBroken


def _shift_parts(fn, nid):
    """decompose E into (source node, shift description) where E = (cast) X << S ; otherwise (E, 0)"""
    s = fn.strip(nid, casts=True)
    v = fn.nodes.get(s, {})
    if v.get('k') == 'BinaryOperator' and v.get('op') == '<<':
        sh = fn.val(v['rhs'])
        if sh is None:
            sh = fn.key(v['rhs'])
        return v['lhs'], sh
    return nid, 0


def shift_width(fn, nid):
    """bit width in which the shift of E = (cast) X << S is evaluated (the promoted type of X), None if E is no shift"""
    s = fn.strip(nid, casts=True)
    v = fn.nodes.get(s, {})
    if v.get('k') == 'BinaryOperator' and v.get('op') == '<<':
        return v.get('w')
    return None


def src_width(fn, nid):
    """bit width of the value before widening casts"""
    s = fn.strip(nid, casts=True)
    v = fn.nodes.get(s, {})
    if 'v' in v:
        return max(1, int(v['v']).bit_length())
    if v.get('bool'):
        return 1
    return v.get('w')


def placements(fn, acc):
    """list of dicts {op, shift, src, width, node} for every write `acc (=|\\|=|^=|&=) ...` in source order.
    Conditional expressions contribute one entry per arm (tagged with the same node)."""
    out = []
    for nid, d, rhs, op, lhs in sorted(fn.assignments(), key=lambda t: (fn.line_of(t[0]), t[0])):
        name = d.split(':')[-1] if d and not d.startswith('this.') else d
        if name != acc or rhs is None:
            continue
        arms = [rhs]
        r = fn.nodes.get(fn.strip(rhs, casts=True), {})
        if r.get('k') == 'ConditionalOperator':
            arms = []
            stack = [fn.strip(rhs, casts=True)]
            while stack:
                x = stack.pop()
                xv = fn.nodes.get(fn.strip(x, casts=True), {})
                if xv.get('k') == 'ConditionalOperator':
                    stack.append(xv['else'])
                    stack.append(xv['then'])
                else:
                    arms.append(x)
        for a in arms:
            src, sh = _shift_parts(fn, a)
            out.append({'op': '=' if op == 'init' else op, 'shift': sh, 'src': fn.key(fn.strip(src, casts=True)),
                        'const': fn.val(a), 'width': src_width(fn, src), 'shiftw': shift_width(fn, a), 'node': nid,
                        'line': fn.line_of(nid)})
    return out


def fold_schedule(fn, counter):
    """(initial value, step, wrap reset value or None) of a shift counter variable like `exp`"""
    init = None
    steps = set()
    resets = []
    for nid, d, rhs, op, lhs in fn.assignments():
        name = d.split(':')[-1] if d and not d.startswith('this.') else d
        if name != counter:
            continue
        if op == 'init':
            init = fn.val(rhs)
        elif op in ('++', '--'):
            steps.add(1 if op == '++' else -1)
        elif op == '=':
            # reset under a guard on the counter
            atoms = [(a[0], a[1]) for a in fn.atoms(nid)]
            resets.append((fn.val(rhs), [a for a in atoms if counter in a[0]]))
        else:
            steps.add(op)
    return {'init': init, 'steps': sorted(steps, key=str), 'resets': resets}


def accumulator(fn):
    """name of the local that the key builder returns (the accumulator the fields are OR-ed into)"""
    cands = {}
    for r in fn.all('ReturnStmt'):
        rv = fn.nodes[r].get('val')
        if rv is None:
            continue
        x = fn.nodes.get(fn.strip(rv, casts=True), {})
        if x.get('k') == 'DeclRefExpr' and x.get('rk') == 'local':
            cands[x['name']] = cands.get(x['name'], 0) + 1
    if cands:
        return sorted(cands.items(), key=lambda kv: -kv[1])[0][0]
    # otherwise: the 64 bit local that receives |= / ^= of shifted values
    for nid, d, rhs, op, lhs in fn.assignments():
        if op in ('|=', '^=') and d and rhs is not None and '<<' in fn.key(rhs):
            return d.split(':')[-1]
    return None


def fold_counter(fn, acc):
    """name of the variable that is post-decremented inside the shift amount of a fold into acc"""
    for p in placements(fn, acc):
        if not isinstance(p['shift'], int):
            import re
            m = re.search(r'(\w+)--', p['shift'])
            if m:
                return m.group(1)
    return None
