"""C18 - client request parsing (structural clauses).

C18.R1 (core) printf/scanf-family format arguments on the request path are literals (or provably '%'-free)
C18.R2 (core) the percent-decode loop advances past a decoded byte before searching again (decode exactly once)
C18.R3 (core) every file open whose path derives from the request URI is dominated by the traversal guard, the URI is
              not modified after the guard, and percent decoding exists only in RequestImpl::add
C18.R4        HTTP splitting constants: first '?' then newline
"""
import facts
from facts import AnalysisBroken, Explorer
import rules.fmt as fmt

FILES = ('src/ebusd/request.cpp', 'src/ebusd/mainloop.cpp', 'src/lib/ebus/stringhelper.cpp',
         'src/ebusd/mqtthandler.cpp', 'src/ebusd/network.cpp', 'src/ebusd/request.h', 'src/ebusd/mainloop.h')


def r1(ctx):
    ctx.rule('C18.R1', 'every call of a printf/scanf-family function or repository printf-style wrapper in the request '
             'handling sources passes a string literal as format (or text proven free of \'%\' by provenance: literals, '
             'numbers, streams built from those); for the scanf family only a literal is accepted', minimum=50, star=True)
    n, fams = fmt.check(ctx, 'C18.R1', lambda f: f.relfile in FILES)
    if fams.get('scanf', 0) < 1:
        raise AnalysisBroken('C18.R1: the sscanf site of the percent decoder was not found')
    ctx.note('C18.R1 format call sites by family: %s' % fams)


def find_calls(fn, first_arg_val=None):
    out = []
    for c in fn.all('CXXMemberCallExpr'):
        v = fn.nodes[c]
        cal = v.get('callee') or ''
        if cal.endswith('::find') and 'basic_string' in cal and v.get('args'):
            if first_arg_val is None or fn.val(v['args'][0]) == first_arg_val:
                out.append(c)
    return out


def r2(ctx):
    ctx.rule('C18.R2', 'in a loop that searches the request for \'%\' starting at a cursor and overwrites the found '
             'position with the decoded byte, every path from that store back to the next search increments the cursor; '
             'otherwise a decoded \'%\' is decoded again (%2541 -> A)', minimum=1, star=True)
    fb = ctx.fb
    n = 0
    for fn in fb.functions:
        if not fn.relfile.startswith('src/ebusd/') or not fn.blocks:
            continue
        finds = find_calls(fn, 37)
        for fc in finds:
            v = fn.nodes[fc]
            if len(v['args']) < 2:
                continue
            cur = fn.ref_decl(v['args'][1])
            strkey = fn.key(v['obj'])
            if cur is None:
                continue
            # the result must be assigned to the same cursor
            par = fc
            assigned = False
            for a in fn.ancestors(fc):
                av = fn.nodes[a]
                if av['k'] == 'BinaryOperator' and av.get('op') == '=' and fn.ref_decl(av['lhs']) == cur:
                    assigned = True
                    break
                if av['k'] not in facts.STRIP_KINDS:
                    break
            if not assigned:
                continue
            # stores string[cursor] = ...
            stores = []
            for nid, v2 in fn.nodes.items():
                if v2['k'] in ('BinaryOperator',) and v2.get('op') == '=':
                    l = fn.strip(v2['lhs'])
                    lv = fn.nodes.get(l, {})
                    if lv.get('k') == 'CXXOperatorCallExpr' and lv.get('op') == '[]' and len(lv.get('args', [])) == 2 and \
                            fn.key(lv['args'][0]) == strkey and fn.ref_decl(lv['args'][1]) == cur:
                        stores.append(nid)
            # in-place rewrites at the cursor through string members: X.replace(cursor, ...), X.erase/insert(cursor...)
            for c2 in fn.all('CXXMemberCallExpr'):
                cv = fn.nodes[c2]
                base = (cv.get('callee') or '').split('::')[-1]
                if base in ('replace', 'insert', 'assign') and 'obj' in cv and fn.key(cv['obj']) == strkey and cv.get('args') and \
                        fn.ref_decl(cv['args'][0]) == cur:
                    stores.append(c2)
            # ... or through a helper that is handed the string and the cursor and rewrites the string at that position
            for c2 in fn.all('CallExpr'):
                cv = fn.nodes[c2]
                if not cv.get('repo') or len(cv.get('args', [])) < 2:
                    continue
                ak = [fn.key(a) for a in cv['args']]
                if not (('&' + strkey) in ak or strkey in ak) or not any(fn.ref_decl(a) == cur for a in cv['args']):
                    continue
                si = [i for i, k in enumerate(ak) if k in ('&' + strkey, strkey)][0]
                ci = [i for i, a in enumerate(cv['args']) if fn.ref_decl(a) == cur][0]
                for g in fb.functions:
                    if g.name != cv.get('callee') or g.sig != cv.get('sig') or not g.blocks or len(g.params) <= max(si, ci):
                        continue
                    sp_, cp_ = g.params[si]['name'], g.params[ci]['decl']
                    hit = False
                    for x, gv in g.nodes.items():
                        if gv['k'] == 'CXXMemberCallExpr' and (gv.get('callee') or '').split('::')[-1] in ('replace', 'insert', 'assign') and \
                                'obj' in gv and g.key(gv['obj']).lstrip('*(').rstrip(')') == sp_ and gv.get('args') and g.ref_decl(gv['args'][0]) == cp_:
                            hit = True
                        if gv['k'] == 'CXXOperatorCallExpr' and gv.get('op') == '[]' and len(gv.get('args', [])) == 2 and \
                                g.key(gv['args'][0]).lstrip('*(').rstrip(')') == sp_ and g.ref_decl(gv['args'][1]) == cp_:
                            par_ = g.nodes.get(g.parent(x), {})
                            if par_.get('k') == 'BinaryOperator' and par_.get('op') == '=' and g.strip(par_['lhs']) == x:
                                hit = True
                    if hit:
                        stores.append(c2)
                    break
            if not stores:
                continue
            ctx.touch(fn)
            # increments of the cursor
            incs = set()
            for nid, d, rhs, op, lhs in fn.assignments():
                if d != cur:
                    continue
                vv = fn.nodes[nid]
                if op == '++':
                    incs.add(nid)
                elif op == '+=' and rhs is not None and (fn.val(rhs) or 0) > 0:
                    incs.add(nid)
                elif op == '=' and rhs is not None:
                    rk = fn.key(rhs)
                    name = cur.split(':')[-1]
                    r = fn.nodes.get(fn.strip(rhs), {})
                    if r.get('k') == 'BinaryOperator' and r.get('op') == '+' and name in (fn.key(r['lhs']), fn.key(r['rhs'])):
                        other = r['rhs'] if fn.key(r['lhs']) == name else r['lhs']
                        if (fn.val(other) or 0) > 0:
                            incs.add(nid)
            # the remaining-length test of the loop admits an escape that ends exactly at the end of the request ("%41" as
            # the last three characters): evaluated at cursor = length - 3
            import re as _re
            name = cur.split(':')[-1]
            lens = set()
            for b_ in fn.blocks.values():
                if b_.cond is not None and len(b_.succs) == 2:
                    for j_ in (0, 1):
                        for a_ in fn.norm_atom(fn.effective_cond(b_.id), j_ == 0):
                            m_ = _re.match(r'^\(\(%s \+ #(\d+)\) (<|<=) %s\.(?:length|size)\(\)\)$' % (_re.escape(name), _re.escape(strkey)), a_[0])
                            m2_ = _re.match(r'^\(%s (<|<=) \(%s\.(?:length|size)\(\) - #(\d+)\)\)$' % (_re.escape(name), _re.escape(strkey)), a_[0])
                            if m_:
                                lens.add((int(m_.group(1)), m_.group(2)))
                            if m2_:
                                lens.add((int(m2_.group(2)), m2_.group(1)))
            for k_, op_ in sorted(lens):
                L_ = 100
                admits = (L_ - 3 + k_ < L_) if op_ == '<' else (L_ - 3 + k_ <= L_)
                n += 1
                ctx.ob('C18.R2', fn, fc, admits, 'remaining-length test of the %-decode loop',
                       'cursor + %d %s length admits an escape at the very end of the request: %s' % (k_, op_, admits))
            target = fn.pos(fc)
            for st in stores:
                sp = fn.pos(st)
                reach = fn.reaches_point(sp[0], target, incs, start_idx=sp[1] + 1)
                n += 1
                ctx.ob('C18.R2', fn, st, not reach, 'store %s[%s] in %%-decode loop' % (strkey, cur.split(':')[-1]),
                       'the next find(\'%\', cursor) is reachable from the store without advancing the cursor: the byte just '
                       'decoded is searched again' if reach else 'cursor advanced on every path back to the search')
    if n == 0:
        raise AnalysisBroken('C18.R2: percent-decode loop not recognised (no find(\'%\', cursor) loop with a store at the cursor)')


def r3(ctx):
    ctx.rule('C18.R3', 'every file open in the HTTP GET handler whose path derives from the URI is dominated by the guard '
             'uri[0]==\'/\' and uri.find("..")==npos and uri.find("//")==npos; between guard and open the URI is not '
             'written; percent decoding (a search for \'%\') exists in the HTTP path sources (request/network/mainloop) only in RequestImpl::add, i.e. before '
             'the guard is evaluated', minimum=2, star=True)
    fb = ctx.fb
    fn = fb.fn('ebusd::MainLoop::executeGet')
    ctx.touch(fn)
    opens = [c for c in fn.all('CXXMemberCallExpr') if (fn.nodes[c].get('callee') or '').endswith('::open') and
             'fstream' in (fn.nodes[c].get('callee') or '')]
    opens += [c for c in fn.all('CallExpr') if (fn.nodes[c].get('callee') or '') in ('fopen', 'open', 'openat')]
    # ifstream constructed with a file name
    for c in fn.all('CXXConstructExpr', 'CXXTemporaryObjectExpr'):
        if 'fstream' in (fn.nodes[c].get('callee') or '') and fn.nodes[c].get('args'):
            opens.append(c)
    if not opens:
        raise AnalysisBroken('C18.R3: no file open found in MainLoop::executeGet')
    # uri variable: local initialised from args[...]
    uri = None
    uname = None
    for c in fn.all('CXXMemberCallExpr'):
        v = fn.nodes[c]
        if (v.get('callee') or '').endswith('::find') and v.get('args') and fn.key(v['args'][0]) == '".."' and 'obj' in v:
            uname = fn.key(v['obj'])
            uri = fn.ref_decl(v['obj'])
    if uri is None:
        # no ".." test at all: take the local initialised from the request arguments
        for nid, d, rhs, op, lhs in fn.assignments():
            if op == 'init' and rhs is not None and fn.key(rhs).startswith(fn.params[0]['name'] + '[') and d:
                uri = d
                uname = d.split(':')[-1]
                break
    if uri is None:
        raise AnalysisBroken('C18.R3: URI variable not recognised in executeGet')
    tainted, expr_tainted = fn.taint(lambda f, x: f.nodes[x]['k'] == 'DeclRefExpr' and f.nodes[x].get('decl') == uri)
    for o in opens:
        v = fn.nodes[o]
        dep = any(expr_tainted(a) for a in v.get('args', []))
        if not dep:
            ctx.ob('C18.R3', fn, o, True, 'open(%s)' % ','.join(fn.key(a) for a in v.get('args', [])[:1]),
                   'path does not derive from the URI', nontrivial=False)
            continue
        atoms = fn.atoms(o)
        ks = set((a[0], a[1]) for a in atoms)
        need = {
            'no ".."': ('(%s.find("..",#0) == #18446744073709551615)' % uname, True),
            'no "//"': ('(%s.find("//",#0) == #18446744073709551615)' % uname, True),
            'leading "/"': ('(%s[#0] == #47)' % uname, True),
        }
        missing = [nm for nm, a in need.items() if a not in ks]
        # URI writes after the guard: any assignment to uri on a path between guard blocks and the open
        guard_blocks = [a[3] for a in atoms if a[0] in [x[0] for x in need.values()]]
        wr = []
        for nid, d, rhs, op, lhs in fn.assignments():
            if d == uri and op != 'init':
                # is it reachable after a guard block and before the open?
                for gb in guard_blocks:
                    wp = fn.pos(nid)
                    if wp and wp[0] in fn.reach([gb]) and fn.block_of(o) in fn.reach([wp[0]]):
                        wr.append(fn.loc(nid))
        for c in fn.all('CXXMemberCallExpr'):
            cv = fn.nodes[c]
            if 'obj' in cv and fn.ref_decl(cv['obj']) == uri and not (cv.get('sig') or '').endswith(' const'):
                for gb in guard_blocks:
                    wp = fn.pos(c)
                    if wp and wp[0] in fn.reach([gb]) and wp[0] != gb and fn.block_of(o) in fn.reach([wp[0]]):
                        wr.append(fn.loc(c))
        ok = not missing and not wr
        why = 'guarded by leading-slash, "..", "//" tests; URI unchanged after the guard'
        if missing:
            why = 'file open not dominated by: ' + ', '.join(missing)
        elif wr:
            why = 'URI modified after the traversal guard at ' + ', '.join(sorted(set(wr)))
        ctx.ob('C18.R3', fn, o, ok, 'open(%s)' % fn.key(v.get('args', [None])[0]), why)
    # decoding only before the guard: who searches for '%' in src/ebusd
    n = 0
    for f in fb.functions:
        if f.relfile not in ('src/ebusd/request.cpp', 'src/ebusd/mainloop.cpp', 'src/ebusd/network.cpp',
                             'src/ebusd/request.h', 'src/ebusd/mainloop.h', 'src/ebusd/network.h'):
            continue
        for c in find_calls(f, 37):
            n += 1
            ok = f.name == 'ebusd::RequestImpl::add'
            ctx.ob('C18.R3', f, c, ok, 'search for %% in %s' % f.name,
                   'percent decoding happens while the request is accumulated, before split and before the traversal guard'
                   if ok else 'a second percent-decoding site: text decoded after the traversal guard can re-introduce ".."')
        for c in f.calls('sscanf', 'strtol', 'strtoul', suffix=False):
            pass
    if n == 0:
        raise AnalysisBroken('C18.R3: no percent-decoding site found at all')


def r4(ctx):
    ctx.rule('C18.R4', 'RequestImpl::split switches the HTTP delimiter to \'?\' after the first token and to newline '
             'afterwards (constants), and splits command lines at blanks', minimum=1)
    fn = ctx.fb.fn('ebusd::RequestImpl::split')
    ctx.touch(fn)
    vals = set()
    # the delimiter variable is the third argument of getline(stream, token, delimiter)
    dname = None
    for c in fn.all('CallExpr'):
        v = fn.nodes[c]
        if (v.get('callee') or '').endswith('getline') and len(v.get('args', [])) == 3:
            dname = fn.ref_decl(v['args'][2])
    if dname is None:
        raise AnalysisBroken('C18.R4: getline(stream, token, delimiter) not found in RequestImpl::split')
    for nid, d, rhs, op, lhs in fn.assignments():
        if d == dname and rhs is not None:
            r = fn.nodes.get(fn.strip(rhs), {})
            if r.get('k') == 'ConditionalOperator':
                vals.add(('cond', fn.val(r['then']), fn.val(r['else'])))
            else:
                vals.add(('v', fn.val(rhs)))
    ok = ('v', 32) in vals and ('cond', 63, 10) in vals
    ctx.ob('C18.R4', fn, fn.body, ok, 'delimiter schedule', 'delimiters %s' % sorted(vals, key=str), nontrivial=False)


def r5(ctx):
    ctx.rule('C18.R5', 'StringReplacer::match (MQTT topic -> circuit/name/field) walks the topic with one cursor: the end of a '
             'field value is found by searching the whole next constant of the template from the cursor (string::find, not a '
             'character-set search), the value and a compared constant are taken at the cursor, and the cursor advances only '
             'by the length of the text just consumed there', minimum=4)
    fb = ctx.fb
    fn = fb.fn('ebusd::StringReplacer::match')
    ctx.touch(fn)
    import re
    nxt = fn.local_where(lambda k, r: re.search(r'this\.m_parts\[\(\w+ \+ #1\)\]\.first', k) is not None)
    searches = []
    for c in fn.all('CXXMemberCallExpr'):
        v = fn.nodes[c]
        base = (v.get('callee') or '').split('::')[-1]
        if (v.get('callee') or '').startswith('std::basic_string') and base.startswith(('find', 'rfind')) and len(v.get('args', [])) >= 2 and \
                fn.key(v['args'][0]) in nxt:
            searches.append((c, base))
    if nxt and not searches:
        # the next constant is fetched but the topic is searched for something else: the end of the field value is not
        # where the template says
        others = [c for c in fn.all('CXXMemberCallExpr') if (fn.nodes[c].get('callee') or '').startswith('std::basic_string') and
                  (fn.nodes[c].get('callee') or '').split('::')[-1].startswith(('find', 'rfind')) and len(fn.nodes[c].get('args', [])) >= 2 and
                  'm_parts' not in fn.key(fn.nodes[c].get('obj', -1)) and fn.key(fn.nodes[c]['args'][0]) not in nxt]
        for c in others:
            ctx.ob('C18.R5', fn, c, False, 'search for the end of a field value', 'searches for %s, not for the next constant of the template (%s)' % (
                fn.key(fn.nodes[c]['args'][0]), ', '.join(nxt)))
        if others:
            return
    if not nxt or not searches:
        raise AnalysisBroken('C18.R5: search for the next constant part not recognised in StringReplacer::match')
    cursor = fn.key(fn.nodes[searches[0][0]]['args'][1])
    subject = fn.key(fn.nodes[searches[0][0]]['obj'])
    for c, base in searches:
        ok = base == 'find' and fn.key(fn.nodes[c]['args'][1]) == cursor
        ctx.ob('C18.R5', fn, c, ok, 'search for the next constant', '%s.%s(%s)' % (subject, base, ', '.join(fn.key(a) for a in fn.nodes[c]['args'])))
    # texts taken at the cursor
    taken = set()
    for nid, d, rhs, op, lhs in fn.assignments():
        if d and rhs is not None and op in ('=', 'init') and fn.key(rhs).startswith('%s.substr(%s,' % (subject, cursor)):
            taken.add(d.split(':')[-1])
    parts = fn.local_where(lambda k, r: re.search(r'this\.m_parts\[\w+\]', k) is not None and '+ #1' not in k)
    # constant parts compared at the cursor: subject.substr(cursor, P.first.length()) != P.first
    compared = set()
    for x in fn.all('CXXOperatorCallExpr'):
        k = fn.key(x)
        for pn in parts:
            if '%s.substr(%s,%s.first.length())' % (subject, cursor, pn) in k and '%s.first' % pn in k.replace('%s.first.length()' % pn, ''):
                compared.add(pn)
    n = 0
    for nid, d, rhs, op, lhs in fn.assignments():
        if not d or d.split(':')[-1] != cursor or op == 'init':
            continue
        n += 1
        rk = fn.key(rhs) if rhs is not None else ''
        ok = op == '+=' and (any(rk == '%s.length()' % t or rk == '%s.size()' % t for t in taken) or
                             any(rk in ('%s.first.length()' % pn, '%s.first.size()' % pn) for pn in compared))
        ctx.ob('C18.R5', fn, nid, ok, 'cursor advance', '%s %s %s (texts taken at the cursor: %s, constants compared at the cursor: %s)' % (
            cursor, op, rk, sorted(taken), sorted(compared)))
    if n < 2:
        raise AnalysisBroken('C18.R5: only %d cursor updates found' % n)
    # a topic that ends before the template does still yields the identifiers it contains: when the next constant is not
    # found, the rest of the topic is handed out before the function reports the incomplete match
    outs0 = set(nid for nid, d, rhs, op, lhs in fn.assignments() if lhs is not None and fn.key(lhs).startswith('*') and rhs is not None)
    for c, base in searches:
        posv = None
        for nid, d, rhs, op, lhs in fn.assignments():
            if rhs is not None and fn.strip(rhs, casts=True) == c and d:
                posv = d.split(':')[-1]
        if posv is None:
            continue
        edges = fn.edges_with_atom('(%s == #18446744073709551615)' % posv, True)
        if not edges:
            raise AnalysisBroken('C18.R5: test of the search result against npos not found')
        # the hand-out: the switch whose arms store the value into the out-parameters
        hand = [b2.id for b2 in fn.blocks.values() if b2.tk == 'SwitchStmt' and
                any(fn.block_of(o) in fn.reach([x for x in b2.succs if x is not None], cut_blocks=[b2.id]) for o in outs0)]
        if not hand:
            raise AnalysisBroken('C18.R5: hand-out switch of StringReplacer::match not found')
        lost = False
        for (b_, j) in edges:
            tgt = fn.blocks[b_].succs[j]
            free = fn.reach([tgt], cut_blocks=hand)
            for r in fn.all('ReturnStmt'):
                if fn.block_of(r) in free:
                    lost = True
        ctx.ob('C18.R5', fn, c, not lost, 'shortened topic keeps its identifiers',
               'after a failed search for the next constant every exit passes the hand-out of the remaining text: %s' % (not lost))
    # every value handed out is one of the texts taken at the cursor
    outs = [(nid, rhs) for nid, d, rhs, op, lhs in fn.assignments() if lhs is not None and fn.key(lhs).startswith('*') and rhs is not None]
    for nid, rhs in outs:
        ctx.ob('C18.R5', fn, nid, fn.key(rhs) in taken, 'value handed out', '%s = %s' % (fn.key(fn.nodes[nid]['lhs']) if 'lhs' in fn.nodes[nid] else '*out', fn.key(rhs)),
               nontrivial=False)


def r6(ctx):
    ctx.rule('C18.R6', 'RequestImpl::split keeps the text inside quotes as the client wrote it: an empty token (two blanks in a '
             'row) is dropped only while no quote is open, and the last character of a token is inspected only if the token '
             'is not empty', minimum=2)
    fb = ctx.fb
    fn = fb.fn('ebusd::RequestImpl::split')
    ctx.touch(fn)
    gl = [c for c in fn.all('CallExpr') if (fn.nodes[c].get('callee') or '').endswith('getline') and len(fn.nodes[c].get('args', [])) >= 2]
    if not gl:
        raise AnalysisBroken('C18.R6: getline loop of RequestImpl::split not found')
    tok = fn.key(fn.nodes[gl[0]]['args'][1])
    escs = fn.local_where(lambda k, r: k == '%s[#0]' % tok)
    if len(escs) != 1:
        raise AnalysisBroken('C18.R6: open-quote variable of RequestImpl::split not recognised (%s)' % escs)
    esc = escs[0]
    n = 0
    for c in fn.all('ContinueStmt'):
        atoms = set((a[0], a[1]) for a in fn.atoms(c))
        empty = any(k in ('(%s.length() == #0)' % tok, '%s.empty()' % tok, '(%s.size() == #0)' % tok, '(%s.length() <= #0)' % tok,
                          '(%s.length() < #1)' % tok) and p for k, p in atoms)
        if not empty:
            continue
        n += 1
        ok = (esc, False) in atoms or ('(%s == #0)' % esc, True) in atoms
        ctx.ob('C18.R6', fn, c, ok, 'empty token dropped', 'only while no quote is open (%s false): %s' % (esc, ok))
    import re
    for x in fn.all('CXXOperatorCallExpr'):
        v = fn.nodes[x]
        if v.get('op') == '[]' and len(v.get('args', [])) == 2 and fn.key(v['args'][0]) == tok and \
                re.match(r'^\(%s\.(length|size)\(\) - #1\)$' % re.escape(tok), fn.key(v['args'][1])):
            n += 1
            ok = fn.needs_one_of(x, [('(%s.length() == #0)' % tok, False), ('%s.empty()' % tok, False), ('(%s.size() == #0)' % tok, False),
                                     ('(%s.length() <= #0)' % tok, False), ('(%s.size() <= #0)' % tok, False),
                                     ('(%s.length() < #1)' % tok, False), ('(%s.size() < #1)' % tok, False)])
            ctx.ob('C18.R6', fn, x, ok, 'last character of the token', 'read only from a non-empty token: %s' % ok)
    for x in fn.calls('back'):
        v = fn.nodes[x]
        if v['k'] == 'CXXMemberCallExpr' and 'obj' in v and fn.key(v['obj']) == tok:
            n += 1
            ok = fn.needs_one_of(x, [('(%s.length() == #0)' % tok, False), ('%s.empty()' % tok, False), ('(%s.size() == #0)' % tok, False),
                                     ('(%s.length() <= #0)' % tok, False), ('(%s.size() <= #0)' % tok, False),
                                     ('(%s.length() < #1)' % tok, False), ('(%s.size() < #1)' % tok, False)])
            ctx.ob('C18.R6', fn, x, ok, 'last character of the token', 'read only from a non-empty token: %s' % ok)
    # an opening quote is removed before the token is tested for a closing quote: otherwise a token that consists of the
    # quote character alone (an argument starting with a blank) counts as opening and closing quote at once
    opens = [nid for nid, d, rhs, op, lhs in fn.assignments() if d and d.split(':')[-1] == esc and rhs is not None and
             fn.key(rhs) == '%s[#0]' % tok]
    strip = set(c for c in fn.all('CXXMemberCallExpr') if (fn.nodes[c].get('callee') or '').endswith('::erase') and
                fn.key(fn.nodes[c].get('obj', -1)) == tok and [fn.val(a_) for a_ in fn.nodes[c].get('args', [])][:2] == [0, 1])
    lastcmp = [x for x in fn.all('BinaryOperator') if fn.nodes[x].get('op') == '==' and
               (re.match(r'^\(%s\[\(%s\.(length|size)\(\) - #1\)\] == %s\)$' % (re.escape(tok), re.escape(tok), re.escape(esc)), fn.key(x)) or
                fn.key(x) == '(%s.back() == %s)' % (tok, esc))]
    for o in opens:
        po = fn.pos(o)
        early = any(fn.reaches_point(po[0], fn.pos(x), strip, start_idx=po[1] + 1) for x in lastcmp)
        n += 1
        ctx.ob('C18.R6', fn, o, bool(strip) and not early, 'opening quote removed before the closing-quote test',
               'every path from the opening quote to a closing-quote test passes %s.erase(0, 1): %s' % (tok, bool(strip) and not early))
    if n < 3:
        raise AnalysisBroken('C18.R6: only %d sites found in RequestImpl::split' % n)


def r7(ctx):
    ctx.rule('C18.R7', 'the connection hands every received byte to the request: the receive call of Connection::run asks for at '
             'most sizeof(buffer) - 1 bytes, so that the terminator is written behind the data and not over its last byte', minimum=1)
    fb = ctx.fb
    fn = fb.fn('ebusd::Connection::run')
    ctx.touch(fn)
    n = 0
    for c in fn.all('CXXMemberCallExpr', 'CallExpr'):
        v = fn.nodes[c]
        if not (v.get('callee') or '').endswith('recv') or len(v.get('args', [])) < 2:
            continue
        b0 = fn.nodes.get(fn.strip(v['args'][0], casts=True), {})
        cap = b0.get('arr')
        if not cap:
            continue
        n += 1
        size = fn.val(v['args'][1])
        ok = size is not None and size <= cap - 1
        # the terminator is stored at the index the receive call returned
        res = [d for nid, d, rhs, op, lhs in fn.assignments() if rhs is not None and fn.strip(rhs, casts=True) == c and d]
        rewr = [nid for nid, d, rhs, op, lhs in fn.assignments() if res and d == res[0] and op != 'init' and fn.strip(rhs, casts=True) != c] if res else []
        ctx.ob('C18.R7', fn, c, ok and not rewr, 'receive into %s[%d]' % (fn.key(v['args'][0]), cap),
               'asks for %s bytes (capacity %d, one byte is needed for the terminator); received length modified afterwards: %s' % (size, cap, bool(rewr)))
    if n < 1:
        raise AnalysisBroken('C18.R7: receive call of Connection::run not recognised')


def r8(ctx):
    ctx.rule('C18.R8', 'a position searched in a request, URI or topic string is used on the same content: no path leads from '
             'pos = s.find...() through a statement that replaces or shortens s to a use of pos as start of '
             's.substr/at/erase/insert/replace or as subscript, unless pos is searched again (substr and at throw beyond the '
             'end, which ends the daemon; a silent shift cuts the argument at the wrong place)', minimum=20)
    import rules.common as common
    common.stale_position_rule(ctx, 'C18.R8', lambda f: f.relfile.startswith(
        ('src/ebusd/request.', 'src/ebusd/mainloop.', 'src/ebusd/mqtthandler.', 'src/lib/ebus/stringhelper.', 'src/ebusd/network.')), 20)


def r9(ctx):
    ctx.rule('C18.R9', 'hex arguments are taken byte-wise as the client wrote them: where MainLoop::parseHexMaster joins elements '
             'of the argument vector into the string that is parsed as hex, every joined element was tested for an even '
             'number of digits itself (a test on the joined string lets two odd arguments fuse into other bytes)', minimum=1)
    import re
    fb = ctx.fb
    fn = fb.fn('ebusd::MainLoop::parseHexMaster')
    ctx.touch(fn)
    av = fn.P(0)
    n = 0
    for c in fn.all('CXXOperatorCallExpr'):
        v = fn.nodes[c]
        if v.get('op') != '<<' or len(v.get('args', [])) != 2:
            continue
        k = fn.key(v['args'][1])
        m = re.match(r'^%s\[(\w+)(\+\+)?\]$' % re.escape(av), k)
        el = None
        if m:
            el = '%s[%s]' % (av, m.group(1))
        else:
            # a reference local bound to an element of the argument vector
            an = fn.nodes[fn.strip(v['args'][1], casts=True)]
            if an.get('k') == 'DeclRefExpr' and an.get('rk') == 'local':
                for nid, d, rhs, op, lhs in fn.assignments():
                    if d == an.get('decl') and op == 'init' and rhs is not None and fn.key(rhs).startswith(av + '['):
                        el = an.get('name')
        if el is None:
            continue
        n += 1
        want = [('((%s.%s() %% #2) == #0)' % (el, f), True) for f in ('length', 'size')] + \
               [('((%s.%s() & #1) == #0)' % (el, f), True) for f in ('length', 'size')]
        ok = fn.needs_one_of(c, want)
        ctx.ob('C18.R9', fn, c, ok, 'argument joined into the hex string', 'even length of %s tested before: %s' % (el, ok))
    if n < 1:
        raise AnalysisBroken('C18.R9: no argument is joined into a stream in parseHexMaster')


def r12(ctx):
    ctx.rule('C18.R12', 'the request grows only by what the client sent: every pass of the loop in Connection::run that hands the '
             'receive buffer to RequestImpl::add() has written that buffer in the same pass - the received bytes with their '
             'terminator, or an empty string when the pass was not triggered by new data (listen mode ticks); a buffer left over '
             'from an earlier pass would be appended again', minimum=1)
    fb = ctx.fb
    fn = fb.fn('ebusd::Connection::run')
    ctx.touch(fn)
    adds = [c for c in fn.all('CXXMemberCallExpr') if (fn.nodes[c].get('callee') or '').endswith('RequestImpl::add') or
            (fn.nodes[c].get('callee') or '').endswith('Request::add')]
    if not adds:
        raise AnalysisBroken('C18.R12: the call of add() not found in Connection::run')
    heads = [b for b in fn.blocks.values() if b.tk == 'WhileStmt' and len(b.succs) == 2]
    for c in adds:
        buf = fn.key(fn.nodes[c]['args'][0])
        # terminating writes buf[i] = 0 of this pass
        terms = set(nid for nid, d, rhs, op, lhs in fn.assignments() if lhs is not None and rhs is not None and op == '=' and
                    fn.nodes[fn.strip(lhs)].get('k') == 'ArraySubscriptExpr' and fn.key(fn.nodes[fn.strip(lhs)]['base']) == buf and fn.val(rhs) == 0)
        pc = fn.pos(c)
        outer = [h for h in heads if fn.reaches_point(h.succs[0], pc, set())]
        if not outer:
            raise AnalysisBroken('C18.R12: loop around add() not found')
        # the outermost loop that contains the call: from the start of its body every path to add() passes a terminating write
        stale = any(fn.reaches_point(h.succs[0], pc, terms) for h in outer)
        ctx.ob('C18.R12', fn, c, bool(terms) and not stale, 'buffer handed to add()', 'written in the same pass on every path: %s' % (bool(terms) and not stale))


def r13(ctx):
    ctx.rule('C18.R13', 'a percent escape is "%" and exactly two hex digits: in RequestImpl::add the characters erased behind the '
             'decoded byte are exactly the characters the conversion is guaranteed to have consumed - every conversion of the '
             'sscanf that guards the erase has width 1 (a field width is a maximum, "%2x" also accepts one digit), all of '
             'them must have matched (result < number of conversions leaves the loop) and their number equals the erased '
             'length', minimum=1)
    import re
    fb = ctx.fb
    n = 0
    seen = set()
    for fn in fb.functions:
      if not fn.relfile.startswith('src/ebusd/request.') or not fn.blocks or (fn.name, fn.sig) in seen:
        continue
      seen.add((fn.name, fn.sig))
      for c in fn.all('CXXMemberCallExpr'):
        v = fn.nodes[c]
        cal_ = (v.get('callee') or '').split('::')[-1]
        if cal_ == 'erase' and len(v.get('args', [])) == 2 and fn.val(v['args'][1]) is not None:
            count = fn.val(v['args'][1])
        elif cal_ == 'replace' and len(v.get('args', [])) == 4 and fn.val(v['args'][1]) is not None and fn.val(v['args'][2]) is not None:
            count = fn.val(v['args'][1]) - fn.val(v['args'][2])    # characters removed: the "%" stands for the decoded byte
        else:
            continue
        ctx.touch(fn)
        guards = [(k, p) for k, p in ((a[0], a[1]) for a in fn.atoms(c)) if k.startswith('(sscanf(')]
        if not guards:
            continue
        n += 1
        k, pol = guards[0]
        m = re.match(r'^\(sscanf\(.*?,"((?:[^"\\]|\\.)*)",.*\) (<|<=|==) #(\d+)\)$', k)
        if not m:
            ctx.ob('C18.R13', fn, c, False, 'erase behind the decoded byte', 'guard %s not understood' % k)
            continue
        convs = re.findall(r'%(\d*)([a-zA-Z])', m.group(1))
        need = int(m.group(3)) if m.group(2) == '<' else int(m.group(3)) + 1
        ok = bool(convs) and all(w == '1' and t in 'xX' for w, t in convs) and len(convs) == count and \
            m.group(2) in ('<', '<=') and not pol and need == len(convs)
        ctx.ob('C18.R13', fn, c, ok, 'erase of %d characters behind the decoded byte' % count,
               'guarded by %d conversion(s) %s, all required: %s' % (len(convs), ['%%%s%s' % x for x in convs], need == len(convs)))
    if n < 1:
        raise AnalysisBroken('C18.R13: erase guarded by an sscanf not found in RequestImpl::add')


def r14(ctx):
    ctx.rule('C18.R14', 'the parts of a topic template are classified the same way everywhere: StringReplacer stores a constant '
             'part with a negative index and a field with its index 0 (circuit), 1 (name), 2 (field)...; every comparison of '
             'that index with 0 in stringhelper.cpp is a sign test (< 0 or >= 0). A test "> 0" takes %circuit for a constant: '
             'the matchability check then accepts templates whose fields are adjacent, and a topic cannot be mapped back',
             minimum=4)
    import re
    fb = ctx.fb
    n = 0
    seen = set()
    for fn in fb.functions:
        if not fn.relfile.startswith('src/lib/ebus/stringhelper.') or not fn.nodes or (fn.name, fn.sig) in seen:
            continue
        seen.add((fn.name, fn.sig))
        for x, v in sorted(fn.nodes.items()):
            if v['k'] != 'BinaryOperator' or v.get('op') not in ('<', '<=', '>', '>=', '==', '!='):
                continue
            lk, rk = fn.key(v['lhs']), fn.key(v['rhs'])
            if not (lk.endswith('.second') and fn.val(v['rhs']) == 0 or rk.endswith('.second') and fn.val(v['lhs']) == 0):
                continue
            n += 1
            ctx.touch(fn)
            op = v['op'] if lk.endswith('.second') else {'<': '>', '>': '<', '<=': '>=', '>=': '<='}.get(v['op'], v['op'])
            ctx.ob('C18.R14', fn, x, op in ('<', '>='), 'kind test of a template part in %s' % fn.name.split('::')[-1], 'index %s 0' % op)
    if n < 4:
        raise AnalysisBroken('C18.R14: only %d kind tests found in stringhelper.cpp' % n)


def r17(ctx):
    ctx.rule('C18.R17', 'a command line is executed when the client finished it: RequestImpl::add reports a request as complete '
             '(returns true) only on the path on which the line terminator was found in the accumulated text, or - the idle '
             'wake-up of a listening client - when nothing at all is pending (m_request empty); every other return is false. '
             'With "nothing arrived in this call" instead of "nothing pending" a wake-up between two TCP chunks executes the '
             'first half of a line as a command of its own', minimum=2)
    fb = ctx.fb
    fn = fb.fn('ebusd::RequestImpl::add')
    ctx.touch(fn)
    finds = [(nid, d) for nid, d, rhs, op, lhs in fn.assignments() if rhs is not None and d and
             (fn.nodes[fn.strip(rhs, casts=True)].get('callee') or '').split('::')[-1] == 'find' and
             'm_request' in fn.key(rhs)]
    if not finds:
        raise AnalysisBroken('C18.R17: the search for the line terminator in RequestImpl::add was not recognised')
    pn = finds[0][1].split(':')[-1]
    n = 0
    for r in fn.all('ReturnStmt'):
        val = fn.nodes[r].get('val')
        if val is None:
            continue
        n += 1
        if fn.val(val) == 0 and fn.nodes[fn.strip(val, casts=True)].get('k') != 'DeclRefExpr':
            ctx.ob('C18.R17', fn, r, True, 'return false', 'not complete')
            continue
        found = fn.needs_one_of(r, [('(%s == #18446744073709551615)' % pn, False)])
        if found:
            ctx.ob('C18.R17', fn, r, True, 'return behind the found terminator', 'complete line')
            continue
        dnf = facts.implied(fn, val, True)
        empty = ('(this.m_request.length() == #0)', 'this.m_request.empty()', '(this.m_request.size() == #0)')
        ok = bool(dnf) and all(any(facts.atom_key(fn, a)[0] in empty and facts.atom_key(fn, a)[1] for a in conj) for conj in dnf)
        # or the emptiness was tested on the way (early return for a pending partial line)
        ok = ok or fn.needs_one_of(r, [(k, True) for k in empty])
        ctx.ob('C18.R17', fn, r, ok, 'return without a terminator', 'true only when nothing is pending (m_request empty): %s (%s)' % (ok, fn.key(val)[:90]))
    if n < 2:
        raise AnalysisBroken('C18.R17: returns of RequestImpl::add not recognised')


def r19(ctx):
    ctx.rule('C18.R19', 'a topic built from the completed template can be taken apart again: StringReplacer::ensureDefault appends '
             'a missing variable (%circuit, %name) only behind a constant part - on every path to an emplace_back of a variable '
             'part (index >= 0) the last part is known to be a constant (tested by back().second < 0, or a separator / constant '
             'was appended just before); two variables in a row give topics like ebusd/Status01bai that match() cannot split',
             minimum=2)
    fb = ctx.fb
    fn = fb.fn('ebusd::StringReplacer::ensureDefault')
    ctx.touch(fn)
    sites = {}
    for c in fn.calls('emplace_back', 'push_back'):
        v = fn.nodes[c]
        if 'obj' not in v or not fn.key(v['obj']).endswith('m_parts') or len(v.get('args', [])) < 2:
            continue
        idx = fn.val(v['args'][-1])
        if idx is None:
            continue
        sites[c] = 'var' if idx >= 0 else 'const'
    varsites = [c for c, k in sites.items() if k == 'var']
    if len(varsites) < 2:
        raise AnalysisBroken('C18.R19: the variable parts appended by ensureDefault were not recognised')
    bad = {}

    def on_elem(user, e, path):
        v = fn.nodes[e]
        if e in sites:
            if sites[e] == 'var' and user != 'const':
                bad.setdefault(e, path)
            return sites[e]
        if v['k'] in ('CXXOperatorCallExpr', 'BinaryOperator') and v.get('op') == '=':
            k = fn.key(e)
            if 'm_parts[' in k.split('=')[0] or 'm_parts.back()' in k.split('=')[0]:
                return 'const' if ',#-1}' in k.replace(' ', '') or k.rstrip(')').endswith('#-1}') else user
        return user

    flags = {}
    for nid, d, rhs, op, lhs in fn.assignments():
        if op == 'init' and d and rhs is not None and not any(d2 == d and o2 != 'init' for n2, d2, r2, o2, l2 in fn.assignments()):
            flags[d.split(':')[-1]] = rhs

    def on_edge(user, b, j, dnf):
        blk = fn.blocks.get(b)
        if blk is not None and blk.cond is not None and len(blk.succs) == 2:
            cv = fn.nodes[fn.strip(blk.cond, casts=True)]
            if cv.get('k') == 'DeclRefExpr' and cv.get('name') in flags:
                # the condition is a bool local defined once: what its initialiser says on this edge
                sub = facts.implied(fn, flags[cv['name']], j == 0)
                if len(sub) == 1:
                    for a2 in sub[0]:
                        k2, p2 = facts.atom_key(fn, a2)
                        if k2 == '(this.m_parts.back().second < #0)':
                            return 'const' if p2 else 'var'
        if len(dnf) == 1:
            for a in dnf[0]:
                k, pol = facts.atom_key(fn, a)
                if k in flags:
                    # a bool local defined once: what its initialiser says
                    sub = facts.implied(fn, flags[k], pol)
                    if len(sub) == 1:
                        for a2 in sub[0]:
                            k2, p2 = facts.atom_key(fn, a2)
                            if k2 == '(this.m_parts.back().second < #0)':
                                return 'const' if p2 else 'var'
                if k == '(this.m_parts.back().second < #0)':
                    return 'const' if pol else 'var'
        return user
    ex = Explorer(fn, on_elem=on_elem, on_edge=on_edge)
    ex.run(fn.entry, 0, '?')
    for c in sorted(varsites):
        ctx.ob('C18.R19', fn, c, c not in bad, 'variable part %s appended' % fn.key(fn.nodes[c]['args'][0]),
               'only behind a constant part: %s' % (c not in bad), witness=ex.describe_path(bad[c]) if c in bad else None)


def r20(ctx):
    ctx.rule('C18.R20', 'a quoted argument ends at the quote character that opened it: RequestImpl::split stores the opening character '
             'in a variable (assigned from the first character of a token) and gives up the "inside quotes" state (assigns 0 to '
             'that variable) only under a comparison of a character of the token with the stored character - closed by any '
             'quote character, an argument in double quotes ends at an apostrophe inside it', minimum=2)
    fb = ctx.fb
    fn = fb.fn('ebusd::RequestImpl::split')
    ctx.touch(fn)
    opener = None
    for nid, d, rhs, op, lhs in fn.assignments():
        if op == '=' and rhs is not None and d and ':' in d:
            k = fn.key(rhs)
            if k.endswith('[#0]') or k.endswith('.front()') or k.endswith('.at(#0)'):
                opener = d
    if opener is None:
        raise AnalysisBroken('C18.R20: the variable that keeps the opening quote was not recognised in RequestImpl::split')
    nm = opener.split(':')[-1]
    resets = [nid for nid, d, rhs, op, lhs in fn.assignments() if d == opener and op == '=' and rhs is not None and fn.val(rhs) == 0]
    if len(resets) < 2:
        raise AnalysisBroken('C18.R20: only %d place(s) where split leaves the quoted state' % len(resets))
    import re
    for r in resets:
        atoms = [(a[0], a[1]) for a in fn.atoms(r)]
        ok = any(p_ and re.match(r'^\((.+[\[(].*) == %s\)$' % re.escape(nm), k) or p_ and re.match(r'^\(%s == (.+[\[(].*)\)$' % re.escape(nm), k)
                 for k, p_ in atoms)
        ctx.ob('C18.R20', fn, r, bool(ok), 'end of a quoted argument', 'only where a character of the token equals the stored opening character %s: %s' % (nm, bool(ok)))


def r21(ctx):
    ctx.rule('C18.R21', 'the end of a request is found wherever the chunks were cut: RequestImpl::add searches the accumulated text '
             'for the terminator from its beginning (find without start position, or 0) - searched from the previous length on, '
             'the two-character HTTP terminator is missed when a chunk ends between its characters and the client waits for ever',
             minimum=1)
    fb = ctx.fb
    fn = fb.fn('ebusd::RequestImpl::add')
    ctx.touch(fn)
    n = 0
    for c in fn.calls('find'):
        v = fn.nodes[c]
        if 'obj' not in v or not fn.key(v['obj']).endswith('m_request') or not v.get('args'):
            continue
        k0 = fn.key(v['args'][0])
        if '"\\n' not in k0 and '\\n' not in k0 and '#10' not in k0:
            continue
        n += 1
        start = v['args'][1] if len(v['args']) > 1 else None
        ok = start is None or fn.nodes[fn.strip(start, casts=True)].get('k') == 'CXXDefaultArgExpr' or fn.val(start) == 0
        ctx.ob('C18.R21', fn, c, ok, 'search for the line terminator', 'from the beginning of the accumulated request: %s' % ok)
    if n < 1:
        raise AnalysisBroken('C18.R21: the search for the terminator in RequestImpl::add was not found')


def r22(ctx):
    ctx.rule('C18.R22', 'a topic template has no empty constant part: StringReplacer::addPart stores a part that is not a field '
             '(push_back / emplace_back into m_parts behind the "append to the previous constant" case) only if its text is not '
             'empty - an empty constant behind the last field makes match() search for "" and return an empty field value',
             minimum=1)
    fb = ctx.fb
    fn = fb.fn('ebusd::StringReplacer::addPart')
    ctx.touch(fn)
    n = 0
    infield = fn.P(1)
    sv = None
    for nid, d, rhs, op, lhs in fn.assignments():
        if op == 'init' and rhs is not None and '.str()' in fn.key(rhs):
            sv = d.split(':')[-1]
    if sv is None:
        raise AnalysisBroken('C18.R22: the text of the part was not recognised in addPart')
    for c in fn.calls('push_back', 'emplace_back'):
        v = fn.nodes[c]
        if 'obj' not in v or not fn.key(v['obj']).endswith('m_parts'):
            continue
        n += 1
        ok = fn.needs_one_of(c, [('%s.empty()' % sv, False), ('(%s.length() == #0)' % sv, False), ('(%s.size() == #0)' % sv, False),
                                 ('(%s == #0)' % infield, False), ('(%s <= #0)' % infield, False)])
        ctx.ob('C18.R22', fn, c, ok, 'part stored by addPart', 'a constant part only with non-empty text: %s' % ok)
    if n < 1:
        raise AnalysisBroken('C18.R22: no store into m_parts found in addPart')


def r23(ctx):
    ctx.rule('C18.R23', 'a variable of the topic template ends at the first character that is not a letter or an underscore: the '
             'test in StringReplacer::parse that ends a field name on an "invalid field character" is evaluated from the typed '
             'AST for every character value and both field forms (%name, %{name}); the characters it lets pass as part of a '
             'name contain every character of the known names circuit / name / field and nothing but letters and "_" - a '
             'digit or punctuation taken into the name turns %circuit2 or %name1 into an unknown variable and the topic built '
             'from such a template can no longer be mapped back to circuit and name', minimum=1)
    import tinyeval
    fb = ctx.fb
    fn = fb.fn('ebusd::StringReplacer::parse')
    ctx.touch(fn)
    loops = [l for l in fn.all('CXXForRangeStmt') if fn.key(fn.nodes[l]['range']) == fn.P(0)]
    if len(loops) != 1:
        raise AnalysisBroken('C18.R23: the loop over the template characters was not found')
    lv = fn.nodes[loops[0]]['loopvar']
    lname = lv.split(':')[-1]
    inside = set(fn.walk(fn.nodes[loops[0]]['body']))
    cands = []
    for i in fn.all('IfStmt'):
        v = fn.nodes[i]
        if i not in inside or v.get('else') is not None or v.get('then') is None:
            continue
        refs = [fn.nodes[x] for x in fn.walk(v['cond']) if fn.nodes[x]['k'] == 'DeclRefExpr']
        if not any(r.get('decl') == lv for r in refs):
            continue
        if not any((fn.nodes[c].get('callee') or '').endswith('StringReplacer::addPart') for c in fn.walk(v['then']) if fn.nodes[c]['k'] in ('CallExpr', 'CXXMemberCallExpr')):
            continue
        state = [r.get('decl') for r in refs if r.get('decl') != lv and r.get('rk') == 'local']
        cands.append((i, state))
    if len(cands) != 1 or len(set(cands[0][1])) != 1:
        raise AnalysisBroken('C18.R23: the test that ends a field name at an invalid character was not recognised')
    i, state = cands[0]
    known = fb.globals.get('ebusd::knownFieldNames', {}).get('init')
    if not known or fb.globals['ebusd::knownFieldNames'].get('file', '').split('/')[-1] != 'stringhelper.cpp':
        raise AnalysisBroken('C18.R23: the known field names of the string replacer were not found')
    need = set(''.join(known))
    import string as _s
    allowed = set(_s.ascii_letters + '_')
    acc = None
    try:
        for form in (1, 2):
            a = set()
            for chv in range(-128, 128):
                m = tinyeval.Machine(fn, {}, [], max_steps=2000)
                cc = lambda x: chr(x & 0xff)
                m.free = {'isalnum': lambda x, *r: int(cc(x).isalnum() and (x & 0xff) < 128), 'isalpha': lambda x, *r: int(cc(x).isalpha() and (x & 0xff) < 128),
                          'isdigit': lambda x, *r: int(cc(x) in '0123456789'), 'islower': lambda x, *r: int('a' <= cc(x) <= 'z'),
                          'isupper': lambda x, *r: int('A' <= cc(x) <= 'Z')}
                m.free.update({'std::' + k: f for k, f in list(m.free.items())})
                m.locals[lv] = chv
                m.locals[state[0]] = form
                if not m.rv(fn.nodes[i]['cond']):
                    a.add(chv)
            acc = a if acc is None else (acc | a)
            missing = sorted(c for c in need if ord(c) not in a)
            extra = sorted(chr(c & 0xff) if 32 <= c < 127 else '\\x%02x' % (c & 0xff) for c in a if not (0 <= c < 128 and chr(c) in allowed))
            ok = not missing and not extra
            ctx.ob('C18.R23', fn, i, ok, 'characters of a field name in the form %s' % ('%name' if form == 1 else '%{name}'),
                   '%d characters pass as part of a name; all characters of %s among them: %s; nothing but letters and "_": %s%s' % (
                       len(a), '/'.join(known), not missing, not extra, '' if not extra else ' (also %s)' % ' '.join(extra[:12])))
    except tinyeval.Unknown as e:
        raise AnalysisBroken('C18.R23: the field character test is not evaluable (%s)' % e)


def r24(ctx):
    ctx.rule('C18.R24', 'what addPart stores it has taken out of the parse buffer: in StringReplacer::addPart every store of the '
             'collected text into m_parts (push_back, or += on the previous constant) is reached only behind the clearing of '
             'the buffer (stack.str("")), on every path - text left in the buffer after it was appended to the previous '
             'constant (%_ or %% behind a constant) becomes the prefix of the next variable name, the variable is unknown '
             'and topics built from the template cannot be matched back', minimum=2)
    fb = ctx.fb
    fn = fb.fn('ebusd::StringReplacer::addPart')
    ctx.touch(fn)
    buf = fn.P(0)
    clears = set(c for c in fn.calls('str') if fn.nodes[c].get('args') and fn.key(c).startswith(buf + '.str('))
    stores = []
    for x, v in sorted(fn.nodes.items()):
        if v['k'] == 'CXXMemberCallExpr' and (v.get('callee') or '').endswith('::push_back') and fn.key(x).startswith('this.m_parts.'):
            stores.append(x)
        if v['k'] == 'CXXOperatorCallExpr' and v.get('op') == '+=' and v.get('args') and 'this.m_parts' in fn.key(v['args'][0]):
            stores.append(x)
    if not clears or len(stores) < 2:
        raise AnalysisBroken('C18.R24: clearing of the parse buffer (%d) / stores into m_parts (%d) not recognised' % (len(clears), len(stores)))
    for x in stores:
        ok = not fn.reaches_point(fn.entry, fn.pos(x), clears)
        ctx.ob('C18.R24', fn, x, ok, 'store into m_parts: %s' % fn.key(x)[:60], 'reached only behind the clearing of the parse buffer: %s' % ok)


def run(ctx):
    r24(ctx)
    r23(ctx)
    r21(ctx)
    r22(ctx)
    r20(ctx)
    r19(ctx)
    import rules.common as _cmc
    ctx.rule('C18.R18', "a value is compared in the domain of its own type: in the client request sources every comparison (==, !=) of a variable, member, element or call result with an integer constant has the constant inside the value range of the operand's own type, and no variable of type bool is compared with a character or number that is not a constant - RequestImpl::split keeps the quote character that opened an argument in a variable and looks for that character at the end of a token; as a bool it is 1 and never found", minimum=40)
    _cmc.compare_domain_rule(ctx, 'C18.R18', lambda f: f.relfile.startswith(('src/ebusd/request.', 'src/ebusd/mainloop.', 'src/lib/ebus/stringhelper.', 'src/ebusd/mqtthandler.', 'src/ebusd/network.')), 40)
    r17(ctx)
    r14(ctx)
    r13(ctx)
    r12(ctx)
    r9(ctx)
    r8(ctx)
    r1(ctx)
    r2(ctx)
    r3(ctx)
    r4(ctx)
    r5(ctx)
    r6(ctx)
    r7(ctx)
    import rules.common as _common
    ctx.rule('C18.R10', 'arguments keep their roles across calls: at every call of a repository function in the client-facing sources (what was parsed as circuit, name, field or data reaches the handler in that role) whose arguments are named like parameters of the callee, no two of them are passed crosswise (argument i named like parameter j and argument j like parameter i)', minimum=15)
    _common.swapped_args_rule(ctx, 'C18.R10', ('src/ebusd/',), 15)
    ctx.rule('C18.R11', 'a request is cut at positions that exist: every s.substr(k, ...) with a constant start k > 0 in the request, '
             'command and topic handling is reached only with at least k characters known for s (size tests, prefix comparison, '
             'character test, successful find); a weaker test lets a short request end the daemon with std::out_of_range',
             minimum=3)
    _common.substr_bound_rule(ctx, 'C18.R11', lambda f: f.relfile.startswith(('src/ebusd/request.', 'src/ebusd/mainloop.', 'src/ebusd/mqtthandler.', 'src/ebusd/network.')), 1)
    ctx.rule('C18.R15', 'the closing quote of an argument is looked for in a token that has a last character: s.length() - k used '
             'as a position of s in the request sources is reached only with at least k characters in s (for an empty token the '
             'difference wraps around)', minimum=1)
    _common.size_minus_rule(ctx, 'C18.R15', lambda f: f.relfile.startswith(('src/ebusd/request.', 'src/ebusd/mainloop.', 'src/ebusd/network.')), 1)
    ctx.rule('C18.R16', 'a search result is a position only if something was found: in the request, command and topic handling a '
             'result of find/rfind used as it is as the start of erase/substr/at/insert/replace is reached only behind a test '
             'that excludes npos', minimum=1)
    _common.find_result_rule(ctx, 'C18.R16', lambda f: f.relfile.startswith(('src/ebusd/request.', 'src/ebusd/mainloop.', 'src/ebusd/mqtthandler.', 'src/ebusd/network.')), 1)
