"""C01 - passive reception reports exactly the valid telegrams (structural clauses over the extracted automaton).

C01.R1 (core) receive-state transitions are contained in the reference automaton and every required one exists
C01.R2 (core) every messageCompleted() report is guarded by CRC validity and the acknowledge the eBUS rule demands
C01.R3 (core) address validation dominates every append of QQ / ZZ to the command
C01.R4        CRC is updated over raw (still escaped) symbols in exactly the data states; m_crcValid only from the compare
C01.R6        state entry resets in setState
C01.R8        symbol delivery of PlainDevice::recv (consume exactly one byte, RESULT_CONTINUE iff more buffered)
"""
import facts
from facts import AnalysisBroken
import rules.automaton as A

PASSIVE = ['bs_noSignal', 'bs_skip', 'bs_ready', 'bs_recvCmd', 'bs_recvCmdCrc', 'bs_recvCmdAck', 'bs_recvRes',
           'bs_recvResCrc', 'bs_recvResAck']
ACK, NAK, SYN, ESC, BROADCAST = 0x00, 0xFF, 0xAA, 0xA9, 0xFE


def r1(ctx):
    ctx.rule('C01.R1', 'every setState() transition out of a receive state (ready, recvCmd, recvCmdCrc, recvCmdAck, recvRes, '
             'recvResCrc, recvResAck, noSignal) has the target, result class, repetition flag and guard atoms of a row of '
             'the reference automaton (engine/spec/bus_automaton.json), and every reference row is implemented', minimum=30,
             star=True)
    n = A.compare(ctx, 'C01.R1', PASSIVE)
    if n < 30:
        raise AnalysisBroken('C01.R1: only %d receive-state transitions extracted' % n)


def r2(ctx):
    ctx.rule('C01.R2', 'each messageCompleted() call in the state machine is reached only with a valid CRC (m_crcValid, or the '
             'echo-verified own broadcast in sendCmdCrc) and with the acknowledge required for its telegram kind: broadcast '
             '-> none; master-master -> ACK received (or sent, when answering) and master destination; master-slave -> '
             'response CRC valid and ACK received / sent', minimum=7, star=True)
    fb = ctx.fb
    fn, sw, regs, edges, rmap = A.extracted_edges(fb)
    states, _ = A.bus_states(fb)
    inv = {v: k for k, v in states.items()}
    calls = fn.calls('ebusd::DirectProtocolHandler::messageCompleted', suffix=False)
    if len(calls) < 7:
        raise AnalysisBroken('C01.R2: expected 7 messageCompleted() sites in handleReceive, found %d' % len(calls))
    need = {
        'bs_recvCmdCrc': [('this.m_crcValid', True), ('(this.m_command[#1] == BROADCAST)', True)],
        'bs_recvCmdAck': [('this.m_crcValid', True), ('(recvSymbol == ACK)', True)],
        'bs_recvResAck': [('this.m_crcValid', True), ('(recvSymbol == ACK)', True)],
        'bs_sendCmdCrc': [('(this.m_currentRequest.getMaster()[#1] == BROADCAST)', True)],
        'bs_sendResAck': [('this.m_crcValid', True), ('sending', True), ('(this.m_currentRequest == #0)', False)],
        'bs_sendCmdAck': [('this.m_crcValid', True), ('sending', True), ('this.m_currentAnswering', True),
                          ('ebusd::isMaster(this.m_command[#1])', True)],
    }
    for c in calls:
        blk = fn.block_of(c)
        src = [states[v] for v, reg in regs.items() if blk in reg]
        if len(src) != 1:
            ctx.ob('C01.R2', fn, c, False, 'messageCompleted() outside a single state region', 'source states %s' % src)
            continue
        st = src[0]
        g = set((A.canon(a[0], rmap), a[1]) for a in fn.atoms(c, frm=sw['labels'][inv[st]]))
        req = need.get(st)
        if req is None:
            ctx.ob('C01.R2', fn, c, False, 'messageCompleted() in %s' % st, 'no telegram can be complete in this state')
            continue
        missing = [r for r in req if r not in g]
        extra = ''
        if st == 'bs_recvCmdAck':
            # master-master completion: destination must be a master (own request or observed)
            mm = [k for k, p in g if k.startswith('ebusd::isMaster(') and p]
            if not mm:
                missing.append(('isMaster(destination)', True))
        ctx.ob('C01.R2', fn, c, not missing, 'messageCompleted() in %s' % st.replace('bs_', ''),
               'missing guard(s): %s' % missing if missing else 'guarded by %s' % sorted(req))


def r3(ctx):
    ctx.rule('C01.R3', 'every append to the received command that can store the source (position 0) is dominated by '
             'isMaster(symbol) and every append that can store the destination (position 1) by isValidAddress(symbol); the '
             'ready arm and the recvCmd arm must both check (contradiction rule)', minimum=2, star=True)
    fb = ctx.fb
    fn, sw, regs, edges, rmap = A.extracted_edges(fb)
    states, _ = A.bus_states(fb)
    inv = {v: k for k, v in states.items()}
    pushes = [c for c in fn.all('CXXMemberCallExpr') if (fn.nodes[c].get('callee') or '').endswith('::push_back') and
              fn.key(fn.nodes[c].get('obj', -1)) == 'this.m_command']
    if len(pushes) < 2:
        raise AnalysisBroken('C01.R3: expected 2 appends to m_command in handleReceive, found %d' % len(pushes))
    for c in pushes:
        blk = fn.block_of(c)
        src = [states[v] for v, reg in regs.items() if blk in reg]
        arg = A.canon(fn.key(fn.nodes[c]['args'][0]), rmap)
        st = src[0] if len(src) == 1 else None
        if st is None:
            ctx.ob('C01.R3', fn, c, False, 'append to m_command', 'not inside a single state region: %s' % src)
            continue
        lab = sw['labels'][inv[st]]
        g = set((A.canon(a[0], rmap), a[1]) for a in fn.atoms(c, frm=lab))
        if st == 'bs_ready':
            ok = ('ebusd::isMaster(%s)' % arg, True) in g
            ctx.ob('C01.R3', fn, c, ok, 'append of QQ in ready', 'source address stored %s master check' % ('after the' if ok else 'WITHOUT a'))
        elif st == 'bs_recvCmd':
            # positions 0 (repeat) and 1: the rejecting condition must cover both
            # (size==0 && !isMaster) || (size==1 && !isValidAddress) -> skip ; check by the two exclusion paths
            alts0 = [('(this.m_command.size() == #0)', False), ('ebusd::isMaster(%s)' % arg, True)]
            alts1 = [('(this.m_command.size() == #1)', False), ('ebusd::isValidAddress(%s,#0)' % arg, True),
                     ('ebusd::isValidAddress(%s,#1)' % arg, True)]
            ok0 = needs(fn, c, alts0, rmap, lab)
            ok1 = needs(fn, c, alts1, rmap, lab)
            ctx.ob('C01.R3', fn, c, ok0 and ok1, 'append in recvCmd',
                   'position 0 requires master: %s; position 1 requires valid address: %s' % (ok0, ok1))
        else:
            ctx.ob('C01.R3', fn, c, False, 'append to m_command in %s' % st, 'unexpected state')


def needs(fn, nid, alts, rmap, frm):
    """like Fn.needs_one_of but with role-canonical atom keys"""
    cut = []
    for b in fn.blocks.values():
        if b.cond is None or b.tk == 'SwitchStmt' or len(b.succs) != 2:
            continue
        c = fn.effective_cond(b.id)
        for j in (0, 1):
            for a in fn.norm_atom(c, j == 0):
                if (A.canon(a[0], rmap), a[1]) in alts and b.succs[j] is not None:
                    cut.append((b.id, j))
    if not cut:
        return False
    return fn.block_of(nid) not in fn.reach([frm], cut_edges=cut)


def r4(ctx):
    ctx.rule('C01.R4', 'the received symbol is added to the CRC before unescaping and exactly in the states ready, recvCmd, '
             'recvRes, sendCmd, sendRes; m_crcValid is assigned only from "received symbol == m_crc" (or true for the '
             'echoed own CRC in sendCmdCrc)', minimum=3)
    fb = ctx.fb
    fn = fb.fn(A.HR)
    ctx.touch(fn)
    states, _ = A.bus_states(fb)
    rmap = A.role_map(fn)
    ups = fn.calls('ebusd::SymbolString::updateCrc', suffix=False)
    if len(ups) != 1:
        raise AnalysisBroken('C01.R4: expected one updateCrc call in handleReceive, found %d' % len(ups))
    u = ups[0]
    blk = fn.block_of(u)
    sws = [s for s in A.state_switches(fn) if len(s['labels']) < 10]
    cover = set()
    for s in sws:
        regs = A.regions(fn, s)
        for val, reg in regs.items():
            if blk in reg:
                cover.add(states[val])
    want = {'bs_ready', 'bs_recvCmd', 'bs_recvRes', 'bs_sendCmd', 'bs_sendRes'}
    ctx.ob('C01.R4', fn, u, cover == want, 'CRC update state set', 'CRC updated in states %s, expected %s' % (sorted(cover), sorted(want)))
    args = [A.canon(fn.key(a), rmap) for a in fn.nodes[u]['args']]
    ctx.ob('C01.R4', fn, u, args == ['recvSymbol', '&this.m_crc'], 'CRC update operands', 'updateCrc(%s)' % ', '.join(args))
    # before unescape: the unescape assignment of recvSymbol is not reachable before the update
    unesc = [nid for nid, rhs in unescape_assignments(fn, rmap)]
    ok = bool(unesc) and all(fn.block_of(u) not in fn.reach([fn.block_of(x)]) for x in unesc)
    ctx.ob('C01.R4', fn, u, ok, 'CRC over escaped symbols', 'unescape happens only after the CRC update: %s' % ok)
    for nid, d, rhs, op, lhs in fn.assignments():
        if d == 'this.m_crcValid' and rhs is not None:
            k = A.canon(fn.key(rhs), rmap)
            ok = k in ('(recvSymbol == this.m_crc)', '(this.m_crc == recvSymbol)')
            if k == '#1':
                blk2 = fn.block_of(nid)
                sw = A.main_switch(fn)
                regs = A.regions(fn, sw)
                src = [states[v] for v, reg in regs.items() if blk2 in reg]
                ok = src == ['bs_sendCmdCrc']
            ctx.ob('C01.R4', fn, nid, ok, 'm_crcValid := %s' % k, 'only the CRC comparison may validate a part')



def raw_symbol_rules(ctx, rid_crc, rid_echo):
    """two ordering clauses of handleReceive about the raw (still escaped) symbol:
    rid_crc   no exit between the reception of a symbol and the CRC update other than the transitions that restart
              reception (ready, skip, no signal) or the own AUTO-SYN: a `return result` there drops a symbol from the CRC
    rid_echo  the echo comparison sees the symbols as sent and received: no path assigns the received or the sent symbol
              (other than the device, or the arbitration winner's first byte) before the comparison, and no exit lies
              between the CRC-relevant reception and the comparison"""
    fb = ctx.fb
    fn = fb.fn(A.HR)
    states, _ = A.bus_states(fb)
    rmap = A.role_map(fn)
    recvv = [k for k, v in rmap.items() if v == 'recvSymbol']
    sentv = [k for k, v in rmap.items() if v == 'sentSymbol']
    ups = fn.calls('ebusd::SymbolString::updateCrc', suffix=False)
    if len(ups) != 1 or not recvv or not sentv:
        raise AnalysisBroken('%s: updateCrc call / symbol variables of handleReceive not recognised' % rid_crc)
    recvv, sentv = recvv[0], sentv[0]
    # the switch whose arms hold the CRC update
    swb = None
    for b in fn.blocks.values():
        if b.tk == 'SwitchStmt' and any(s is not None and fn.block_of(ups[0]) in fn.reach([s], cut_blocks=[x for x in b.succs if x is not None and x != s])
                                         for s in b.succs):
            if swb is None or len(b.succs) < len(fn.blocks[swb].succs):
                swb = b.id
    if swb is None:
        raise AnalysisBroken('%s: switch around the CRC update not found' % rid_crc)
    cut = [(swb, j) for j in range(len(fn.blocks[swb].succs))]
    sends = set(c for c in fn.all('CXXMemberCallExpr') if (fn.nodes[c].get('callee') or '').endswith('Device::send'))
    restart = {'bs_ready', 'bs_skip', 'bs_noSignal'}
    if rid_crc:
        n = 0
        for r in fn.all('ReturnStmt'):
            if not fn.reaches_point(fn.entry, fn.pos(r), set(), cut_edges=cut):
                continue    # lies behind the CRC update
            n += 1
            rv = fn.nodes[r].get('val')
            c = fn.nodes.get(fn.strip(rv), {}) if rv is not None else {}
            if (c.get('callee') or '').endswith('::setState') and c.get('args'):
                tgt = states.get(fn.val(c['args'][0]))
                ok = tgt in restart
                ctx.ob(rid_crc, fn, r, ok, 'exit before the CRC update through setState(%s)' % (tgt or fn.key(c['args'][0])),
                       'only transitions that restart reception may leave before the symbol is added to the CRC')
            else:
                # a plain return: only for the own AUTO-SYN (the path passed the device send call)
                plain = fn.reaches_point(fn.entry, fn.pos(r), sends, cut_edges=cut)
                if plain:
                    # guarded by a flag that is false initially and set only behind the AUTO-SYN transmission
                    for k, pol in set((a[0], a[1]) for a in fn.atoms(r)):
                        if not pol:
                            continue
                        sets = [(n2, r2, o2) for n2, d2, r2, o2, l2 in fn.assignments() if d2 and d2.split(':')[-1] == k]
                        if sets and all((o2 == 'init' and fn.val(r2) == 0) or
                                        (o2 == '=' and fn.val(r2) == 1 and not fn.reaches_point(fn.entry, fn.pos(n2), sends))
                                        for n2, r2, o2 in sets) and any(o2 == '=' for n2, r2, o2 in sets):
                            plain = False
                ctx.ob(rid_crc, fn, r, not plain, 'exit before the CRC update without state change',
                       'reachable for a symbol received from the bus: %s (such a symbol would be missing in the CRC)' % plain)
        if n < 4:
            raise AnalysisBroken('%s: only %d exits before the CRC update found' % (rid_crc, n))
    if rid_echo:
        cmps = [x for x in fn.all('BinaryOperator') if fn.nodes[x].get('op') in ('!=', '==') and
                {fn.key(fn.nodes[x]['lhs']), fn.key(fn.nodes[x]['rhs'])} == {recvv, sentv}]
        # the echo check proper is the one outside the arbitration arm (not inside the region of state ready)
        sw = A.main_switch(fn)
        regs = A.regions(fn, sw)
        inv = {v: k for k, v in states.items()}
        cmps = [x for x in cmps if fn.block_of(x) not in regs.get(inv['bs_ready'], set())]
        if len(cmps) != 1:
            raise AnalysisBroken('%s: echo comparison of handleReceive not recognised (%d candidates)' % (rid_echo, len(cmps)))
        echo = cmps[0]
        recvs = set(c for c in fn.all('CXXMemberCallExpr') if (fn.nodes[c].get('callee') or '').endswith('Device::recv'))
        bad = []
        for nid, d, rhs, op, lhs in fn.assignments():
            if not d or d.split(':')[-1] not in (recvv, sentv) or op == 'init':
                continue
            # killed by a later reception; the arbitration winner's first byte is the sent symbol by definition
            if d.split(':')[-1] == sentv and rhs is not None and 'getMaster()' in fn.key(rhs):
                continue
            p = fn.pos(nid)
            if p is not None and fn.reaches_point(p[0], fn.pos(echo), recvs, start_idx=p[1] + 1):
                bad.append(fn.text(nid)[:60])
        ctx.ob(rid_echo, fn, echo, not bad, 'echo comparison on the raw symbols',
               'assignments reaching the comparison: %s' % bad if bad else 'received and sent symbol are unmodified at the comparison')
        late = not fn.reaches_point(fn.entry, fn.pos(echo), set(), cut_edges=cut)
        ctx.ob(rid_echo, fn, echo, not late, 'echo comparison precedes CRC update and unescaping',
               'the comparison is reached before the per-symbol processing: %s' % (not late))

def r6(ctx):
    ctx.mark('entry-reset', 'C01.R6')
    ctx.rule('C01.R6', 'setState clears command, response, CRC, CRC-valid flag, send position and answering flag on every '
             'path that enters ready or skip, clears the CRC when entering recvRes/sendRes, and clears the pending escape '
             'on every path', minimum=8)
    fb = ctx.fb
    ss = fb.fn(A.SS)
    fn = ss
    ctx.touch(fn)
    # the entry actions may have been moved into a helper that setState calls with the new state (extract method): the
    # function that assigns m_state is the one whose entry actions are examined
    if not [1 for nid, d, rhs, op, lhs in ss.assignments() if d == 'this.m_state']:
        cands = []
        for f in fb.functions:
            if f.cls == 'ebusd::DirectProtocolHandler' and f.blocks and f.name != A.SS and \
                    any(d == 'this.m_state' and rhs is not None and f.params and f.key(rhs) == f.params[0].get('name')
                        for nid, d, rhs, op, lhs in f.assignments()):
                if any((ss.nodes[c].get('callee') or '') == f.name and ss.nodes[c].get('args') and ss.key(ss.nodes[c]['args'][0]) == ss.P(0)
                       for c in ss.all('CXXMemberCallExpr')):
                    cands.append(f)
        names = sorted(set(f.name for f in cands))
        if len(names) == 1:
            fn = cands[0]
            ctx.touch(fn)
    states, _ = A.bus_states(fb)
    inv = {v: k for k, v in states.items()}
    # events
    def clears(name):
        out = []
        for c in fn.all('CXXMemberCallExpr'):
            v = fn.nodes[c]
            if (v.get('callee') or '').endswith('::clear') and fn.key(v.get('obj', -1)) == name:
                out.append(c)
        return out
    def assigns(name, val):
        return [nid for nid, d, rhs, op, lhs in fn.assignments() if d == name and rhs is not None and fn.val(rhs) == val]
    rdy = '(%s == #%d)' % (fn.P(0), inv['bs_ready'])
    skp = '(%s == #%d)' % (fn.P(0), inv['bs_skip'])
    checks = [('m_command.clear()', clears('this.m_command')), ('m_response.clear()', clears('this.m_response')),
              ('m_crc = 0', assigns('this.m_crc', 0)), ('m_crcValid = false', assigns('this.m_crcValid', 0)),
              ('m_nextSendPos = 0', assigns('this.m_nextSendPos', 0)), ('m_currentAnswering = false', assigns('this.m_currentAnswering', 0))]
    # the assignment m_state = state marks the point after which the entry actions run
    sets = [nid for nid, d, rhs, op, lhs in fn.assignments() if d == 'this.m_state']
    if len(sets) != 1:
        raise AnalysisBroken('C01.R6: expected one assignment to m_state in setState')
    sp = fn.pos(sets[0])
    exitpt = (fn.exit, 0)
    import re as _re
    pn = fn.P(0)

    def skipped_for(target, sites):
        """is there a path from m_state = state to the exit, feasible for state == target, that passes none of the sites?
        (if-chains and switch statements on the new state are both understood)"""
        found = []

        def on_elem(user, e, path):
            if e in sites:
                return None
            return user

        def on_edge(user, b, j, dnf):
            feasible = False
            for conj in dnf:
                ok_ = True
                for a in conj:
                    k, p = facts.atom_key(fn, a)
                    m = _re.match(r'^\(%s == #(\d+)\)$' % _re.escape(pn), k)
                    if m and ((int(m.group(1)) == target) != bool(p)):
                        ok_ = False
                feasible = feasible or ok_
            if not feasible:
                return None
            if fn.blocks[b].succs[j] == fn.exit:
                found.append(b)
            return user
        ex = facts.Explorer(fn, on_elem=on_elem, on_edge=on_edge)
        ex.run(sp[0], sp[1] + 1, 0)
        return bool(found)
    for what, sites in checks:
        # every path from m_state = state to the function exit on which state is ready or skip passes one of the sites
        ss_ = set(sites)
        bad = [t for t in ('bs_ready', 'bs_skip') if not ss_ or skipped_for(inv[t], ss_)]
        ctx.ob('C01.R6', fn, sets[0], not bad, 'entry reset %s' % what,
               'executed on every path entering ready/skip: %s' % (not bad))
    # the pending escape is cleared on every path through setState itself (also on the early return for an unchanged
    # state): by an assignment there, or by a call of a method that clears it on all of its paths
    esc = set(nid for nid, d, rhs, op, lhs in ss.assignments() if d == 'this.m_escape' and rhs is not None and ss.val(rhs) == 0)
    for c in ss.all('CXXMemberCallExpr'):
        cal = [g for g in fb.functions if g.name == ss.nodes[c].get('callee') and g.blocks and g.cls == 'ebusd::DirectProtocolHandler']
        if cal:
            g = cal[0]
            gz = set(nid for nid, d, rhs, op, lhs in g.assignments() if d == 'this.m_escape' and rhs is not None and g.val(rhs) == 0)
            if gz and not g.reaches_point(g.entry, (g.exit, 0), gz):
                esc.add(c)
    ok = bool(esc) and not any(ss.reaches_point(ss.entry, ss.pos(r), esc) for r in ss.all('ReturnStmt'))
    ctx.ob('C01.R6', ss, sorted(esc)[0] if esc else ss.body, ok, 'm_escape = 0 on every path', 'pending escape cleared before every return: %s' % ok)
    # CRC reset when entering a response part
    rr = '(%s == #%d)' % (fn.P(0), inv['bs_recvRes'])
    sr = '(%s == #%d)' % (fn.P(0), inv['bs_sendRes'])
    crc0 = set(assigns('this.m_crc', 0))
    bad = [t for t in ('bs_recvRes', 'bs_sendRes') if not crc0 or skipped_for(inv[t], crc0)]
    ctx.ob('C01.R6', fn, sets[0], not bad, 'm_crc = 0 entering recvRes/sendRes', 'cleared on every path entering a response part: %s' % (not bad))


def r8(ctx):
    ctx.rule('C01.R8', 'PlainDevice::recv hands out exactly one buffered byte per call: the byte stored to *value is '
             'consumed with readConsumed(1) on every path that stores it, and RESULT_CONTINUE is returned exactly when more '
             'than one byte was buffered', minimum=2)
    fb = ctx.fb
    fn = fb.fn('ebusd::PlainDevice::recv')
    ctx.touch(fn)
    vname = fn.P(1)
    lname = fn.outarg('::read', 2) or 'len'
    stores = [nid for nid, d, rhs, op, lhs in fn.assignments() if lhs is not None and fn.key(lhs) == '*' + vname]
    cons = [c for c in fn.all('CXXMemberCallExpr') if (fn.nodes[c].get('callee') or '').endswith('::readConsumed')]
    if not stores or not cons:
        raise AnalysisBroken('C01.R8: store to *value or readConsumed not found in PlainDevice::recv')
    for c in cons:
        ctx.ob('C01.R8', fn, c, fn.val(fn.nodes[c]['args'][0]) == 1, 'readConsumed amount', 'consumes %s byte(s)' % fn.key(fn.nodes[c]['args'][0]))
    for s in stores:
        sp = fn.pos(s)
        # every path from the store to the exit passes a readConsumed
        reach = fn.reaches_point(sp[0], (fn.exit, 0), set(cons), start_idx=sp[1] + 1)
        ctx.ob('C01.R8', fn, s, not reach, 'store of *value', 'followed by readConsumed(1) on every path: %s' % (not reach))
    cont = None
    for e in fb.enums.values():
        for x in e['enumerators']:
            if x['name'] == 'RESULT_CONTINUE':
                cont = x['v']
    found = False
    for nid, d, rhs, op, lhs in fn.assignments():
        if rhs is not None and fn.val(rhs) == cont and fn.nodes.get(fn.strip(rhs), {}).get('rk') == 'enumerator':
            found = True
            atoms = set((a[0], a[1]) for a in fn.atoms(nid))
            ok = ('(%s <= #1)' % lname, False) in atoms or ('(%s < #2)' % lname, False) in atoms
            ctx.ob('C01.R8', fn, nid, ok, 'RESULT_CONTINUE condition', 'RESULT_CONTINUE produced under %s' %
                   sorted(a for a in atoms if lname in a[0]))
    for r in fn.all('ReturnStmt'):
        rv = fn.nodes[r].get('val')
        if rv is not None and fn.val(rv) == cont:
            found = True
            atoms = set((a[0], a[1]) for a in fn.atoms(r))
            ok = ('(%s <= #1)' % lname, False) in atoms
            ctx.ob('C01.R8', fn, r, ok, 'RESULT_CONTINUE condition', 'returned under %s' % sorted(a for a in atoms if lname in a[0]))
    if not found:
        ctx.ob('C01.R8', fn, fn.body, False, 'RESULT_CONTINUE condition', 'RESULT_CONTINUE is never produced: buffered symbols '
               'would wait for the next timeout')


def r7(ctx):
    ctx.rule('C01.R7', 'a received SYN restarts reception from a clean CRC: the SYN transition to ready either passes an '
             'explicit m_crc = 0 or setState() clears the CRC for ready on every path including the unchanged-state early '
             'return (otherwise one stray symbol between two SYNs poisons the CRC of the next telegram)', minimum=1)
    fb = ctx.fb
    fn, sw, regs, edges, rmap = A.extracted_edges(fb)
    states, _ = A.bus_states(fb)
    inv = {v: k for k, v in states.items()}
    syn_edges = [e for e in edges if not e['from'] and e['to'] == ['bs_ready'] and ('(recvSymbol == SYN)', True) in e['guards']
                 and ('(this.m_state == #%d)' % inv['bs_sendSyn'], False) in e['guards']]
    if not syn_edges:
        raise AnalysisBroken('C01.R7: SYN transition to ready not found')
    ss = fb.fn(A.SS)
    # does setState clear m_crc for ready even when state == m_state?
    same = ss.edges_with_atom('(%s == this.m_state)' % ss.P(0), True)
    crc0 = set(nid for nid, d, rhs, op, lhs in ss.assignments() if d == 'this.m_crc' and rhs is not None and ss.val(rhs) == 0)
    in_setstate = bool(same) and all(not ss.reaches_point(ss.blocks[b].succs[j], (ss.exit, 0), crc0) for b, j in same)
    for e in syn_edges:
        c = e['node']
        z = set(nid for nid, d, rhs, op, lhs in fn.assignments() if d == 'this.m_crc' and rhs is not None and fn.val(rhs) == 0)
        # from the SYN test to the call an explicit reset must be passed
        syn_true = [x for x in fn.edges_with_atom(A.canon('(recvSymbol == #170)', {}) .replace('SYN', '#170'), True)]
        explicit = False
        for (b, j) in fn.edges_with_atom('(%s == #170)' % [k for k, v in rmap.items() if v == 'recvSymbol'][0], True):
            tgt = fn.blocks[b].succs[j]
            if not fn.reaches_point(tgt, fn.pos(c), z):
                explicit = True
        ok = explicit or in_setstate
        ctx.ob('C01.R7', fn, c, ok, 'SYN -> ready resets the CRC', 'explicit m_crc = 0 before the transition: %s; setState '
               'clears it even for an unchanged state: %s' % (explicit, in_setstate))


def repeat_rule(ctx, rid, from_states, minimum):
    ctx.rule(rid, 'the one-repetition budget is per message part: every transition that re-enters a part after a NAK/CRC error '
             '(first repetition) is guarded by !m_repeat and sets m_repeat = true on every path, every transition that starts '
             'a new part (ready->recvCmd/sendCmd, recvCmdAck->recvRes, sendCmdAck->sendRes) clears m_repeat on every path, '
             'and m_repeat is written nowhere else', minimum=minimum, star=True)
    fb = ctx.fb
    fn, sw, regs, edges, rmap = A.extracted_edges(fb)
    states, _ = A.bus_states(fb)
    inv = {v: k for k, v in states.items()}
    set_true = set(nid for nid, d, rhs, op, lhs in fn.assignments() if d == 'this.m_repeat' and rhs is not None and fn.val(rhs) == 1)
    set_false = set(nid for nid, d, rhs, op, lhs in fn.assignments() if d == 'this.m_repeat' and rhs is not None and fn.val(rhs) == 0)
    n = 0
    for e in edges:
        if len(e['from']) != 1 or e['from'][0] not in from_states:
            continue
        lab = sw['labels'][inv[e['from'][0]]]
        c = e['node']
        frm, to = e['from'][0], e['to']
        construct = '%s -> %s [%s]' % (frm.replace('bs_', ''), '|'.join(str(t).replace('bs_', '') for t in to), e['result'])
        is_rep = e['result'] in ('RESULT_ERR_NAK',) and ('this.m_repeat', False) in e['guards'] or e['first']
        new_part = (frm == 'bs_ready' and to in (['bs_recvCmd'], ['bs_sendCmd'])) or \
                   (frm == 'bs_recvCmdAck' and to == ['bs_recvRes']) or (frm == 'bs_sendCmdAck' and to == ['bs_sendRes'])
        if is_rep:
            n += 1
            guarded = ('this.m_repeat', False) in e['guards']
            passes = not fn.reaches_point(lab, fn.pos(c), set_true)
            if to in (['bs_sendResAck'], ['bs_sendCmdAck']) and e['result'] == 'RESULT_ERR_CRC':
                # the NAK still has to be sent; the acknowledge state marks the repetition when it has been echoed
                passes = True
            ctx.ob(rid, fn, c, guarded and passes, 'repetition ' + construct,
                   'guarded by !m_repeat: %s; m_repeat = true on every path: %s' % (guarded, passes))
        elif new_part:
            n += 1
            passes = not fn.reaches_point(lab, fn.pos(c), set_false)
            ctx.ob(rid, fn, c, passes, 'new part ' + construct, 'm_repeat = false on every path into the new part: %s' % passes)
    # who writes m_repeat
    for f in fb.functions:
        if f.cls != 'ebusd::DirectProtocolHandler' or f.name == A.HR or f.d.get('ctor'):
            continue
        for nid, d, rhs, op, lhs in f.assignments():
            if d == 'this.m_repeat':
                n += 1
                ctx.ob(rid, f, nid, False, 'write to m_repeat in %s' % f.name.split('::')[-1],
                       'the repetition flag is per message part and may only change in the per-symbol state machine')
    return n


def r9(ctx):
    n = repeat_rule(ctx, 'C01.R9', PASSIVE, 5)


def unescape_assignments(fn, rmap):
    """[(assignment, rhs)]: writes to the received symbol under a pending escape (m_escape set) that do not copy the pending
    symbol itself (that is the sending branch)"""
    out = []
    for nid, d, rhs, op, lhs in fn.assignments():
        if not d or op != '=' or rhs is None or A.canon(d.split(':')[-1], rmap) != 'recvSymbol':
            continue
        if 'this.m_escape' in fn.key(rhs):
            continue
        atoms = [(a[0], a[1]) for a in fn.atoms(nid)]
        if any(k in ('this.m_escape', '(this.m_escape == #0)') and (p if k == 'this.m_escape' else not p) for k, p in atoms):
            out.append((nid, rhs))
    return out


def unescape_rule(ctx, rid):
    ctx.rule(rid, 'the symbol behind an escape symbol is mapped back exactly: in handleReceive, with an escape pending, the '
             'received 0x00 becomes 0xA9 and 0x01 becomes 0xAA (evaluated on the typed AST for both values, whatever form the '
             'mapping takes), every other value is refused', minimum=2)
    import re
    import tinyeval
    fb = ctx.fb
    fn, sw, regs, edges, rmap = A.extracted_edges(fb)
    ctx.touch(fn)
    ua = unescape_assignments(fn, rmap)
    if not ua:
        raise AnalysisBroken('%s: unescaping of the received symbol not found in handleReceive' % rid)
    rk = [k for k, v in rmap.items() if v == 'recvSymbol'][0]
    rdecl = [d for nid, d, rhs, op, lhs in fn.assignments() if d and d.split(':')[-1] == rk][0] if rk else None
    for p_ in fn.params:
        if p_.get('name') == rk:
            rdecl = p_['decl']
    for val, want in ((0, 0xA9), (1, 0xAA)):
        got = []
        for nid, rhs in ua:
            feas = True
            for k, pol in ((a[0], a[1]) for a in fn.atoms(nid)):
                m = re.match(r'^\(%s (<|<=|==) #(\d+)\)$' % re.escape(rk), k)
                if m:
                    c = int(m.group(2))
                    holds = {'<': val < c, '<=': val <= c, '==': val == c}[m.group(1)]
                    if holds != bool(pol):
                        feas = False
            if not feas:
                continue
            mch = tinyeval.Machine(fn, {}, [])
            mch.locals[rdecl] = val
            try:
                got.append(mch.rv(rhs) & 0xff)
            except tinyeval.Unknown as e:
                raise AnalysisBroken('%s: unescape expression not evaluable (%s)' % (rid, e))
        ctx.ob(rid, fn, ua[0][0], got == [want], 'escape sequence A9 %02X' % val,
               'decodes to %s, the protocol says %02x' % (['%02x' % g for g in got], want))
    # larger values are refused: some return under (recvSymbol > 1) with an escape pending
    refuse = False
    for r in fn.all('ReturnStmt'):
        atoms = [(a[0], a[1]) for a in fn.atoms(r)]
        if any(k == '(%s <= #1)' % rk and not p for k, p in atoms) and \
                any(k in ('this.m_escape', '(this.m_escape == #0)') and (p if k == 'this.m_escape' else not p) for k, p in atoms):
            refuse = True
    ctx.ob(rid, fn, ua[0][0], refuse, 'other symbols behind an escape', 'refused with an error: %s' % refuse)


def serial_raw_rule(ctx, rid):
    ctx.mark('serial-raw', rid)
    ctx.rule(rid, 'the serial line is transparent for all 256 byte values: the termios structure that SerialTransport::openInternal '
             'hands to tcsetattr is built from zero (memset / value initialisation on every path, no whole-structure assignment '
             'behind it), input flags are only set from {IGNBRK, IGNPAR} and output flags are not set at all - inherited or '
             'added ICRNL/IXON/ISTRIP/OPOST would translate or swallow 0x0d, 0x11, 0x13 and bit 7', minimum=3)
    fb = ctx.fb
    fn = fb.fn('ebusd::SerialTransport::openInternal')
    ctx.touch(fn)
    sets = [c for c in fn.all('CallExpr') if fn.nodes[c].get('callee') == 'tcsetattr' and len(fn.nodes[c].get('args', [])) == 3]
    if not sets:
        raise AnalysisBroken('%s: tcsetattr not called in SerialTransport::openInternal' % rid)
    n = 0
    for c in sets:
        tgt = fn.key(fn.nodes[c]['args'][2])
        if not tgt.startswith('&'):
            raise AnalysisBroken('%s: tcsetattr argument %s not understood' % (rid, tgt))
        var = tgt[1:]
        zero = set(m for m in fn.all('CallExpr') if fn.nodes[m].get('callee') == 'memset' and len(fn.nodes[m]['args']) == 3 and
                   fn.key(fn.nodes[m]['args'][0]) == tgt and fn.val(fn.nodes[m]['args'][1]) == 0)
        for nid, d, rhs, op, lhs in fn.assignments():
            if op == 'init' and d and d.split(':')[-1] == var and rhs is not None and fn.nodes[fn.strip(rhs)].get('k') in ('InitListExpr', 'CXXScalarValueInitExpr', 'ImplicitValueInitExpr'):
                zero.add(nid)
        whole = set()
        for x, v in fn.nodes.items():
            if v['k'] == 'CXXOperatorCallExpr' and v.get('op') == '=' and v.get('args') and fn.key(v['args'][0]) == var:
                whole.add(x)
            if v['k'] == 'BinaryOperator' and v.get('op') == '=' and fn.key(v['lhs']) == var:
                whole.add(x)
            if v['k'] == 'CallExpr' and v.get('callee') in ('memcpy', 'tcgetattr', 'cfmakeraw') and v.get('args') and \
                    tgt in [fn.key(a) for a in v['args']][:2] and v.get('callee') != 'cfmakeraw':
                whole.add(x)
        pc = fn.pos(c)
        unzeroed = fn.reaches_point(fn.entry, pc, zero)
        overwritten = [fn.line_of(w) for w in whole if fn.pos(w) and any(
            fn.pos(z) and fn.reaches_point(fn.pos(z)[0], fn.pos(w), set(), start_idx=fn.pos(z)[1] + 1) for z in zero) and
            fn.reaches_point(fn.pos(w)[0], pc, zero, start_idx=fn.pos(w)[1] + 1)]
        n += 1
        ctx.ob(rid, fn, c, bool(zero) and not unzeroed and not overwritten, 'termios of tcsetattr built from zero',
               'reachable without zeroing: %s; overwritten as a whole at line(s) %s' % (unzeroed, overwritten))
        for nid, d, rhs, op, lhs in fn.assignments():
            if lhs is None or rhs is None:
                continue
            lk = fn.key(lhs)
            if lk in (var + '.c_iflag', var + '.c_oflag'):
                n += 1
                val = fn.val(rhs)
                if lk.endswith('c_iflag'):
                    ok = val is not None and ((op == '|=' and (val & ~0x5) == 0) or (op == '=' and (val & ~0x5) == 0) or op == '&=')
                else:
                    ok = (op == '&=') or (op in ('=', '|=') and val == 0)
                ctx.ob(rid, fn, nid, ok, '%s %s %s' % (lk, op, fn.key(rhs)), 'only IGNBRK/IGNPAR may be set on input, nothing on output: %s' % ok)
    if n < 3:
        raise AnalysisBroken('%s: only %d settings found' % (rid, n))


def r23(ctx):
    ctx.rule('C01.R23', 'after a NAK the part that is repeated starts empty: in the acknowledge states of handleReceive the buffer '
             'that is cleared for the repetition is the one of that part - m_command in recvCmdAck / sendCmdAck, m_response in '
             'recvResAck / sendResAck. With the buffer of the other part cleared, the repetition is appended to the first '
             'attempt, a data byte is compared as CRC and the telegram is not reported', minimum=4)
    fb = ctx.fb
    fn = fb.fn(A.HR)
    ctx.touch(fn)
    states, _ = A.bus_states(fb)
    want = {'bs_recvCmdAck': 'this.m_command', 'bs_sendCmdAck': 'this.m_command', 'bs_recvResAck': 'this.m_response', 'bs_sendResAck': 'this.m_response'}
    n = 0
    for c in fn.calls('clear'):
        v = fn.nodes[c]
        if 'obj' not in v or fn.key(v['obj']) not in ('this.m_command', 'this.m_response'):
            continue
        st = None
        for k, p_ in ((a[0], a[1]) for a in fn.atoms(c)):
            if k.startswith('switch:this.m_state='):
                st = states.get(int(k.split('=')[-1])) if k.split('=')[-1].lstrip('-').isdigit() else None
        if st not in want:
            continue
        n += 1
        ok = fn.key(v['obj']) == want[st]
        ctx.ob('C01.R23', fn, c, ok, '%s.clear() in %s' % (fn.key(v['obj']).split('.')[-1], st), 'the buffer of the part that is repeated (%s): %s' % (want[st].split('.')[-1], ok))
    if n < 4:
        raise AnalysisBroken('C01.R23: only %d buffer resets found in the acknowledge states of handleReceive' % n)


def run(ctx):
    r23(ctx)
    import rules.common as _cm
    ctx.rule('C01.R22', "a value is compared with a constant in the domain of its own type: in the sources of this property every comparison of a variable, member, element or call result with an integer constant (==, !=) has the constant inside the value range of the operand's own integer type before promotion - a symbol held in a signed char never equals 0xA9/0xAA/0xFE, so the escape, SYN or broadcast test behind it is dead for exactly the symbols it exists for", minimum=60)
    _cm.compare_domain_rule(ctx, 'C01.R22', lambda f: f.relfile.startswith(('src/lib/ebus/protocol', 'src/lib/ebus/symbol.', 'src/lib/ebus/device')), 60)
    import rules.options as _opt
    ctx.rule('C01.R21', 'the handler configurations this property ranges over exclude read-only together with answer mode: parse_opt rejects readOnly combined with answer / generateSyn / initialSend in a test that is evaluated for every option, outside the cases of the option switch - bound to one option it depends on the order of the options, and a read-only handler with a registered answer takes a telegram to its own address for answering, cannot send, and drops it instead of reporting it', minimum=1)
    _opt.readonly_combination_rule(ctx, 'C01.R21')
    serial_raw_rule(ctx, 'C01.R18')
    unescape_rule(ctx, 'C01.R20')
    import rules.C03 as c03
    c03.initial_state_rule(ctx, 'C01.R16')
    ctx.rule('C01.R12', 'no exit of handleReceive lies between the reception of a symbol and the CRC update other than the '
             'transitions that restart reception (ready, skip, no signal) and the own AUTO-SYN: every other received symbol '
             'is part of the CRC', minimum=4)
    raw_symbol_rules(ctx, 'C01.R12', None)
    r7(ctx)
    r9(ctx)
    r1(ctx)
    r2(ctx)
    r3(ctx)
    r4(ctx)
    r6(ctx)
    r8(ctx)
    import rules.C14 as c14
    ctx.borrow(c14.run, {'C14.R3': 'C01.R10', 'C14.R4': 'C01.R11'},
               'with an enhanced adapter every received symbol passes the frame decoder first; a symbol it drops, '
               'duplicates or reorders changes the telegram that is reported')
    import rules.C11 as c11
    ctx.borrow(c11.r1, {'C11.R1': 'C01.R13'},
               'whether a received telegram is CRC-correct is decided with this table')
    ctx.borrow(c11.r4, {'C11.R4': 'C01.R14'},
               'source and destination of a received telegram are validated with the address class functions: a wider '
               'isValidAddress/isMaster reports telegrams with an invalid source or destination')
    import rules.C09 as c09
    c09.symbol_layout_rule(ctx, 'C01.R15')
    import rules.C14 as _c14
    _c14.overflow_threshold_rule(ctx, 'C01.R17')
    import rules.C11 as _c11
    _c11.crc_start_rule(ctx, 'C01.R19')
