"""C19 - configuration round trip (writer/reader table agreement and quoting structure).

C19.R1 (core) column tables: default message field map == dump order of Message::dump(nullptr) + field sub-columns
C19.R2 (core) every known column has a dump branch; the chained override covers exactly "id" and writes every part length
C19.R3        quoting: dumpString doubles embedded quotes and quotes fields containing the separator
C19.R4 (core) splitFields recognises an opening quote only outside quoted text and a closing quote only inside
"""
import facts
from facts import AnalysisBroken


def garr(fb, name):
    g = fb.globals.get(name)
    if not g or not isinstance(g.get('init'), list):
        raise AnalysisBroken('C19: table %s not found' % name)
    return g['init']


def r1(ctx):
    ctx.rule('C19.R1', 'the default column map used when loading (defaultMessageFieldMap) lists, before the first repeated '
             '"*" column, exactly the columns Message::dump writes by default (knownFieldNamesFull without the access level '
             'and without "fields"), in the same order, followed by the per-field columns *name, part, type, divisor/values, '
             'unit, comment in the order SingleDataField dumps them; the template and fields-only maps use the same field '
             'sub-columns', minimum=4, star=True)
    fb = ctx.fb
    full = garr(fb, 'ebusd::knownFieldNamesFull')
    short = garr(fb, 'ebusd::knownFieldNamesShort')
    dmap = garr(fb, 'ebusd::defaultMessageFieldMap')
    fn = fb.fn('ebusd::Message::dump')
    ctx.touch(fn)
    # what dump(nullptr) skips: comparisons of the loop variable with a constant name
    skipped = set()
    for nid, v in fn.nodes.items():
        if v['k'] in ('BinaryOperator', 'CXXOperatorCallExpr') and v.get('op') == '==' and 'fieldName' in fn.key(nid):
            k = fn.key(nid)
            if 'FIELDNAME_LEVEL' in k or '"level"' in k:
                skipped.add('level')
    head = []
    for c in dmap:
        if isinstance(c, str) and c.startswith('*'):
            break
        head.append(c)
    tail = dmap[len(head):]
    want_head = [c for c in full if c not in skipped and c != 'fields']
    ctx.ob('C19.R1', fn, fn.body, head == want_head, 'message columns', 'default map %s, dump order %s' % (head, want_head))
    want_tail = ['*name', 'part', 'type', 'divisor/values', 'unit', 'comment']
    ctx.ob('C19.R1', fn, fn.body, tail == want_tail, 'field sub-columns of the message map', 'tail %s' % tail)
    ctx.ob('C19.R1', fn, fn.body, len(full) == len(short) and full[-1] == 'fields', 'known column tables',
           'full %s / short %s' % (full, short), nontrivial=False)
    tmap = garr(fb, 'ebusd::defaultTemplateFieldMap')
    fmap = garr(fb, 'ebusd::defaultFieldsFieldMap')
    okt = tmap[:5] == ['name', '*type', 'divisor/values', 'unit', 'comment'] and tmap[5:] == ['*name', 'type', 'divisor/values', 'unit', 'comment']
    okf = fmap == ['*type', 'divisor/values', 'unit', 'comment']
    ctx.ob('C19.R1', fn, fn.body, okt and okf, 'template / fields maps', 'template %s fields %s' % (tmap, fmap))
    # dump order of a single field: name, part, type in dumpPrefix; unit, comment in dumpSuffix
    dp = fb.fn('ebusd::SingleDataField::dumpPrefix')
    ds = fb.fn('ebusd::SingleDataField::dumpSuffix')
    ctx.touch(dp)
    ctx.touch(ds)
    ev = []
    for c in sorted(dp.all('CallExpr', 'CXXMemberCallExpr'), key=lambda c: (dp.line_of(c), c)):
        cal = (dp.nodes[c].get('callee') or '').split('::')[-1]
        if cal == 'dumpString':
            ev.append('name' if 'm_name' in dp.key(dp.nodes[c]['args'][1]) else 'str')
        elif cal == 'dump':
            ev.append('type')
    ok = ev == ['name', 'type']
    ctx.ob('C19.R1', dp, dp.body, ok, 'field prefix order', 'dumpPrefix writes %s (part marker in between)' % ev)
    attrs = [ds.key(ds.nodes[c]['args'][2]) for c in sorted(ds.all('CallExpr', 'CXXMemberCallExpr'), key=lambda c: (ds.line_of(c), c))
             if (ds.nodes[c].get('callee') or '').endswith('dumpAttribute')]
    names = [('unit' if '"unit"' in a else 'comment' if '"comment"' in a else a) for a in attrs]
    ctx.ob('C19.R1', ds, ds.body, names == ['unit', 'comment'], 'field suffix order', 'dumpSuffix writes %s' % names)


def r2(ctx):
    ctx.rule('C19.R2', 'Message::dumpField has a branch for every entry of knownFieldNamesFull; ChainedMessage::dumpField '
             'overrides exactly the "id" column, separates the parts with the value separator and writes the length of every '
             'part unconditionally', minimum=10, star=True)
    fb = ctx.fb
    full = garr(fb, 'ebusd::knownFieldNamesFull')
    fn = fb.fn('ebusd::Message::dumpField')
    ctx.touch(fn)
    have = set()
    for nid, v in fn.nodes.items():
        if v['k'] == 'CXXOperatorCallExpr' and v.get('op') == '==' and v.get('args'):
            ks = [fn.key(a) for a in v['args']]
            if fn.P(0) in ks:
                other = ks[1] if ks[0] == fn.P(0) else ks[0]
                have.add(other.strip('"'))
    # columns without an own branch fall through to dumpAttribute(fieldName) (free-text attributes such as the comment)
    fallback = any((fn.nodes[c].get('callee') or '').endswith('dumpAttribute') and len(fn.nodes[c].get('args', [])) > 2 and
                   fn.P(0) in fn.key(fn.nodes[c]['args'][2]) for c in fn.all('CallExpr', 'CXXMemberCallExpr'))
    for c in full:
        ok = c in have or (c == 'comment' and fallback)
        ctx.ob('C19.R2', fn, fn.body, ok, 'dump branch for column %s' % c, 'present: %s%s' % (
            c in have, ' (attribute fall-through)' if c not in have and ok else ''), nontrivial=False)
    cf = fb.fn('ebusd::ChainedMessage::dumpField')
    ctx.touch(cf)
    deleg = [c for c in cf.all('CXXMemberCallExpr') if (cf.nodes[c].get('callee') or '') == 'ebusd::Message::dumpField']
    okd = False
    for c in deleg:
        atoms = set((a[0], a[1]) for a in cf.atoms(c))
        okd = ('(%s == "id")' % cf.P(0), False) in atoms
    ctx.ob('C19.R2', cf, deleg[0] if deleg else cf.body, okd, 'chained override covers exactly "id"', 'delegates every other column: %s' % okd)
    # length insertion in every iteration
    ins = [nid for nid, v in cf.nodes.items() if v['k'] == 'CXXOperatorCallExpr' and v.get('op') == '<<' and v.get('args') and
           'this.m_lengths[' in cf.key(v['args'][1])]
    if not ins:
        ctx.ob('C19.R2', cf, cf.body, False, 'part length written', 'no insertion of m_lengths[index] found')
    for i in ins:
        atoms = [(a[0], a[1]) for a in cf.atoms(i)]
        extra = [a for a in atoms if 'm_lengths' in a[0] or 'length' in a[0].lower()]
        loopconds = set()
        for l in cf.all('ForStmt', 'WhileStmt'):
            if 'cond' in cf.nodes[l]:
                for conj in facts.implied(cf, cf.nodes[l]['cond'], True):
                    loopconds |= set(facts.atom_key(cf, x)[0] for x in conj)
        loop_only = all(a[0] in loopconds or a[0] == '(%s == "id")' % cf.P(0) for a in atoms)
        ctx.ob('C19.R2', cf, i, not extra and loop_only, 'part length written for every part',
               'conditions on the insertion: %s' % [a for a in atoms if cf.P(0) not in a[0]])


def r3(ctx):
    ctx.rule('C19.R3', 'AttributedItem::dumpString writes a text unquoted only if it contains neither the field separator nor '
             'a quote at its start/end nor two adjacent quotes (searched from the start of the text or from its first quote), '
             'wraps it in quotes otherwise and doubles every embedded quote', minimum=6)
    fb = ctx.fb
    fn = fb.fn('ebusd::AttributedItem::dumpString')
    ctx.touch(fn)
    # the plain output `*output << str`
    plain = [nid for nid, v in fn.nodes.items() if v['k'] == 'CXXOperatorCallExpr' and v.get('op') == '<<' and v.get('args') and
             fn.key(v['args'][1]) == fn.P(1) and fn.key(v['args'][0]) == '*' + fn.P(2)]
    ok = False
    for p in plain:
        atoms = set((a[0], a[1]) for a in fn.atoms(p))
        ok = any('%s.find_first_of(#44' % fn.P(1) in k and '== #18446744073709551615)' in k and pol for k, pol in atoms)
    ctx.ob('C19.R3', fn, plain[0] if plain else fn.body, ok, 'unquoted output', 'only without field separator: %s' % ok)
    # ... and only if the first quote character is neither the first nor the last character (the reader opens quoted text
    # at a quote directly behind a separator)
    qv = fn.local_where(lambda k, r: k.startswith('%s.find_first_of(#34' % fn.P(1)) or k.startswith('%s.find(#34' % fn.P(1)))
    if plain and len(qv) == 1:
        q = qv[0]
        none = ('(%s == #18446744073709551615)' % q, True)
        ok_first = fn.needs_one_of(plain[0], [none, ('(%s <= #0)' % q, False), ('(%s == #0)' % q, False), ('(%s < #1)' % q, False)])
        ok_last = fn.needs_one_of(plain[0], [none, ('(%s < (%s.length() - #1))' % (q, fn.P(1)), True), ('(%s < (%s.size() - #1))' % (q, fn.P(1)), True)])
        ctx.ob('C19.R3', fn, plain[0], ok_first and ok_last, 'unquoted output with an embedded quote',
               'first quote not at the start: %s, not at the end: %s' % (ok_first, ok_last))
        # ... and the text holds no two adjacent quotes: inside an unquoted field the reader takes a doubled quote as the
        # start of quoted text and reads on across the following separators
        atoms = set((a[0], a[1]) for a in fn.atoms(plain[0]))
        nodbl = none in atoms or any(pol and '.find(' in k and k.endswith('== #18446744073709551615)') and
                                     ('{#2,#34' in k or '"\\"\\""' in k or "#2,#34" in k) for k, pol in atoms)
        if not nodbl:
            # the test may be one alternative of a disjunction: every alternative under which the text is written plain
            # has to exclude the doubled quote (or any quote)
            p_ = fn.parent(plain[0])
            while p_ is not None and fn.nodes[p_]['k'] != 'IfStmt':
                p_ = fn.parent(p_)
            if p_ is not None:
                dnf = facts.implied(fn, fn.nodes[p_]['cond'], True)
                def fine(conj):
                    ks = [facts.atom_key(fn, a) for a in conj]
                    return none in ks or any(pol and '.find(' in k and k.endswith('== #18446744073709551615)') and '#2,#34' in k for k, pol in ks)
                nodbl = bool(dnf) and all(fine(c) for c in dnf)
        ctx.ob('C19.R3', fn, plain[0], nodbl, 'unquoted output and doubled quotes', 'written plain only without two adjacent quotes: %s' % nodbl)
        # ... and the searches behind that decision look at the whole text: they start at 0 or at the first quote found
        p_ = fn.parent(plain[0])
        while p_ is not None and fn.nodes[p_]['k'] != 'IfStmt':
            p_ = fn.parent(p_)
        dec = set(fn.walk(fn.nodes[p_]['cond'])) if p_ is not None else set()
        for c_ in fn.calls('find', 'find_first_of'):
            if c_ not in dec:
                continue
            args = fn.nodes[c_].get('args', [])
            st = fn.key(args[1]) if len(args) > 1 else '#0'
            ok_s = st in ('#0', q)
            ctx.ob('C19.R3', fn, c_, ok_s, 'search deciding the unquoted output: %s' % fn.key(c_)[:60],
                   'scans from the start of the text or from the first quote: %s' % ok_s)
    else:
        raise AnalysisBroken('C19.R3: position of the first quote in dumpString not recognised')
    dbl = [nid for nid, v in fn.nodes.items() if v['k'] == 'CXXOperatorCallExpr' and v.get('op') == '<<' and v.get('args') and
           fn.val(v['args'][1]) == 34 and fn.nodes.get(fn.strip(v['args'][0]), {}).get('k') == 'CXXOperatorCallExpr' and
           fn.val(fn.nodes[fn.strip(v['args'][0])]['args'][1]) == 34]
    loops = fn.all('WhileStmt', 'ForStmt')
    inloop = set()
    for l in loops:
        inloop |= set(fn.walk(l))
    ok2 = any(d in inloop for d in dbl)
    ctx.ob('C19.R3', fn, dbl[0] if dbl else fn.body, ok2, 'embedded quote doubled', 'two quote characters written per embedded quote: %s' % ok2)


def r4(ctx):
    ctx.rule('C19.R4', 'in FileReader::splitFields a quote character opens quoted text only directly after a field separator '
             'and only while not inside quoted text; inside quoted text it closes it; the field separator splits only '
             'outside quoted text', minimum=5, star=True)
    fb = ctx.fb
    fn = fb.fn('ebusd::FileReader::splitFields')
    ctx.touch(fn)
    n = 0

    def chain_val(r):
        """value of the right-hand side, following a = b = const"""
        r = fn.strip(r)
        while fn.nodes.get(r, {}).get('k') == 'BinaryOperator' and fn.nodes[r].get('op') == '=':
            r = fn.strip(fn.nodes[r]['rhs'])
        return fn.val(r)
    # roles: the quote state is the bool local that is both set and cleared under the quote-character case of the character
    # switch; the previous character is the local that is assigned the switch operand
    sw = [b_ for b_ in fn.blocks.values() if b_.tk == 'SwitchStmt']
    if len(sw) != 1:
        raise AnalysisBroken('C19.R4: character switch of splitFields not recognised')
    chv = fn.key(fn.effective_cond(sw[0].id)) if sw[0].cond is not None else None
    asg = []
    for nid, v in sorted(fn.nodes.items()):
        if v['k'] == 'BinaryOperator' and v.get('op') == '=' and chain_val(v['rhs']) in (0, 1) and (v.get('t') or '') == 'bool':
            atoms = set((a[0], a[1]) for a in fn.atoms(nid))
            asg.append((nid, fn.key(v['lhs']), chain_val(v['rhs']), atoms))
    in_quote_case = lambda atoms: any(k.startswith('switch:') and k.endswith('=34') and p for k, p in atoms)
    cands = [x for x in set(a[1] for a in asg) if {a[2] for a in asg if a[1] == x and in_quote_case(a[3])} == {0, 1}]
    prevs = fn.local_where(lambda k, r: k == chv)
    if len(cands) != 1 or len(prevs) != 1:
        raise AnalysisBroken('C19.R4: quote state machine of splitFields not recognised (state %s, previous character %s)' % (cands, prevs))
    qv, prev = cands[0], prevs[0]
    for nid, lk, val, atoms in asg:
        if lk != qv:
            continue
        inside = (qv, True) in atoms
        outside = (qv, False) in atoms
        if val == 1:
            n += 1
            aft = ('(%s == #44)' % prev, True) in atoms
            requote = ('(%s == #34)' % prev, True) in atoms
            what = 'opening quote' if aft or not requote else 're-entering quoted text after a quote character'
            ctx.ob('C19.R4', fn, nid, outside and (aft or requote), what,
                   'only outside quoted text: %s; only directly after a separator: %s (or after a quote character: %s)' % (outside, aft, requote))
        else:
            n += 1
            ctx.ob('C19.R4', fn, nid, inside, 'closing quote', 'only inside quoted text: %s' % inside)
    pushes = [c for c in fn.all('CXXMemberCallExpr') if (fn.nodes[c].get('callee') or '').endswith('::push_back')]
    for c in pushes:
        atoms = set((a[0], a[1]) for a in fn.atoms(c))
        if any(k.startswith('switch:') and k.endswith('=44') for k, p in atoms):
            n += 1
            ctx.ob('C19.R4', fn, c, (qv, False) in atoms, 'field split at separator', 'only outside quoted text: %s' % ((qv, False) in atoms))
    if n < 5:
        raise AnalysisBroken('C19.R4: quote state machine of splitFields not recognised (%d sites)' % n)


def r5(ctx):
    ctx.rule('C19.R5', 'every entry point of the field definition dump (the DataField::dump overrides, which Message::dumpField '
             'calls while the stream is still in hex mode from the ID columns) sets the decimal number base before any '
             'number of the definition (length, divisor, value list keys, ranges) is written by itself or by a function it '
             'hands the stream to (summary-based: a callee "needs decimal from its caller" if it can insert an integer, or '
             'call such a function, before setting the base itself)', minimum=3, star=True)
    fb = ctx.fb
    import rules.C12 as c12
    from facts import Explorer
    entries = [f for f in fb.functions if f.blocks and f.name.endswith('::dump') and f.cls and
               (f.cls == 'ebusd::DataField' or f.cls in fb.derived('ebusd::DataField')) and
               any('ostream' in p.get('t', '') for p in f.params)]
    if len(entries) < 3:
        raise AnalysisBroken('C19.R5: only %d DataField::dump overrides found' % len(entries))
    names = fb.reachable_from([f.name for f in entries])
    cand = {}
    for f in fb.functions:
        if f.name in names and f.blocks and '/lib/ebus/' in f.file and any('ostream' in p.get('t', '') for p in f.params):
            cand.setdefault(f.name, []).append(f)
    need = {}      # function name -> witness (description) if it needs the decimal base from its caller
    estab = set()  # functions that leave the stream in decimal mode on every path to their exit

    def targets(fn, v):
        cal = v.get('callee') or ''
        out = {cal}
        if v.get('virt') and not v.get('qualcall') and v.get('cls'):
            m = cal.split('::')[-1]
            for d in fb.derived(v['cls']):
                out.add(d + '::' + m)
        return out

    def analyse(fn):
        sp = [p for p in fn.params if 'ostream' in p.get('t', '')][0]['name']
        found = {}

        def on_elem(user, e, path):
            v = fn.nodes[e]
            k = v['k']
            if k == 'CXXOperatorCallExpr' and v.get('op') == '<<' and len(v.get('args', [])) == 2:
                root = c12.stream_root(fn, e)
                if fn.key(root) in (sp, '*' + sp):
                    if c12.sets_base(fn, v['args'][1]):
                        dec = any(fn.nodes[x].get('qn') == 'std::dec' for x in fn.walk(v['args'][1]))
                        return 'dec' if dec else 'other'
                    if c12.is_int_insertion(fn, v) and user != 'dec':
                        found.setdefault('insertion of %s at line %d' % (fn.key(v['args'][1])[:40], fn.line_of(e)), (e, path))
                    return user
            if k in ('CallExpr', 'CXXMemberCallExpr') and v.get('args') is not None:
                if any(fn.key(a) in (sp, '*' + sp) for a in v['args']):
                    ts = [t for t in targets(fn, v) if t in cand]
                    for t in ts:
                        if t in need and user != 'dec':
                            found.setdefault('call of %s at line %d (%s)' % (t.split('::', 1)[-1], fn.line_of(e), need[t]), (e, path))
                    if ts and all(t in estab for t in ts):
                        return 'dec'
            return user
        exits = set()

        def on_edge(user, b, j, dnf):
            if fn.blocks[b].succs[j] == fn.exit:
                exits.add(user)
            return user
        ex = Explorer(fn, on_elem=on_elem, on_edge=on_edge, correlate=True)
        ex.run(fn.entry, 0, 'inherited')
        return found, exits
    # phase 1: which functions leave the stream in decimal mode (grows only, independent of `need`)
    changed = True
    rounds = 0
    while changed and rounds < 8:
        changed = False
        rounds += 1
        for name, fs in sorted(cand.items()):
            if name in estab or len(fs) != 1:
                continue
            found, exits = analyse(fs[0])
            if exits == {'dec'}:
                estab.add(name)
                changed = True
    # phase 2: which functions need the decimal base from their caller (grows only, with the final `estab`)
    changed = True
    rounds = 0
    while changed and rounds < 8:
        changed = False
        rounds += 1
        for name, fs in sorted(cand.items()):
            if name in need:
                continue
            for f in fs:
                found, exits = analyse(f)
                if found:
                    need[name] = sorted(found)[0]
                    changed = True
    for f in sorted(entries, key=lambda f: f.name):
        ctx.touch(f)
        w = need.get(f.name)
        ctx.ob('C19.R5', f, f.body, w is None, 'decimal base in %s' % f.name.split('::', 1)[-1],
               'a number is written in the inherited number base: %s' % w if w else
               'decimal base set before every number written by it or its callees (%d functions summarised)' % len(cand))


def r6(ctx):
    ctx.rule('C19.R6', 'a type derived from an already derived type keeps the registered base type: every NumberDataType '
             'constructed in a derive() overload receives (m_baseType ? m_baseType : this) as its base type - the definition '
             'dump writes the divisor relative to the base type, so a chain of derivations (template with divisor used '
             'with a further divisor) is dumped as the product', minimum=3)
    fb = ctx.fb
    n = 0
    for fn in fb.fns('ebusd::NumberDataType::derive'):
        ctx.touch(fn)
        for x in fn.all('CXXNewExpr'):
            if 'NumberDataType' not in fn.nodes[x].get('newt', ''):
                continue
            init = fn.nodes[x].get('init')
            args = fn.nodes.get(init, {}).get('args', []) if init is not None else []
            if not args:
                continue
            n += 1
            k = fn.key(args[-1])
            ok = k in ('(this.m_baseType ? this.m_baseType : this)', '((this.m_baseType != #0) ? this.m_baseType : this)',
                       '((this.m_baseType == #0) ? this : this.m_baseType)')
            ctx.ob('C19.R6', fn, x, ok, 'base type of a derived number type', 'passes %s' % k)
    if n < 3:
        raise AnalysisBroken('C19.R6: only %d constructions found in NumberDataType::derive' % n)


def _leaves(fn, expr, depth=0, isvar=None):
    """the variables, members and calls an expression depends on; a local that is defined once stands for its initialiser"""
    out = []
    for x in fn.walk(expr):
        v = fn.nodes[x]
        if v['k'] not in ('DeclRefExpr', 'MemberExpr', 'CallExpr', 'CXXMemberCallExpr') or v.get('rk') in ('enumerator', 'method'):
            continue
        if v['k'] == 'DeclRefExpr' and v.get('rk') == 'local' and depth < 4 and not (isvar and isvar(v)):
            src = fn.def_expr(x)
            if src != fn.strip(x, casts=True):
                out += _leaves(fn, src, depth + 1, isvar)
                continue
        out.append(x)
    return out


def _pure_conds(fn, nid, isvar):
    """[(cond, in_then)] of the enclosing if statements of nid whose condition depends on nothing but the variable"""
    out = []
    child = nid
    p = fn.parent(nid)
    while p is not None:
        v = fn.nodes[p]
        if v['k'] == 'IfStmt' and child != v.get('cond'):
            leaves = _leaves(fn, v['cond'], 0, isvar)
            if leaves and all(isvar(fn.nodes[x]) for x in leaves):
                out.append((v['cond'], v.get('then') is not None and (child == v['then'] or child in set(fn.walk(v['then'])))))
        child = p
        p = fn.parent(p)
    return out


def r7(ctx):
    ctx.rule('C19.R7', 'writer and reader agree on when the length of a number field counts bits: NumberDataType::dump writes '
             'm_bitCount as the length under a condition that, for every bit count a number type can have (the registered '
             'ones and those derive() can reduce a bit type to), is true exactly when SingleDataField::create takes the '
             'length column as a bit count', minimum=1)
    import tinyeval
    fb = ctx.fb
    reg = set()
    for f in fb.functions:
        if f.name == 'ebusd::DataTypeList::DataTypeList' and f.blocks:
            for n in f.all('CXXNewExpr'):
                v = f.nodes[n]
                if 'NumberDataType' not in v.get('newt', '') or v.get('init') is None:
                    continue
                init = f.nodes[v['init']]
                cal = [g for g in fb.functions if g.name == init.get('callee') and g.sig == init.get('sig')]
                pi = [i for i, p in enumerate(cal[0].params) if p.get('name') == 'bitCount'] if cal else []
                if pi and f.val(init['args'][pi[0]]) is not None:
                    reg.add(f.val(init['args'][pi[0]]))
            break
    if len(reg) < 4:
        raise AnalysisBroken('C19.R7: registered number types not found (%s)' % sorted(reg))
    counts = set(reg)
    for b in reg:
        if b % 8:
            counts |= set(range(1, b))
    wr = fb.fn('ebusd::NumberDataType::dump')
    ctx.touch(wr)
    wcalls = [c for c in wr.calls('ebusd::DataType::dump', suffix=False) if len(wr.nodes[c].get('args', [])) >= 2 and
              wr.key(wr.nodes[c]['args'][1]) == 'this.m_bitCount']
    rd = fb.fn('ebusd::SingleDataField::create')
    ctx.touch(rd)
    bcl = rd.local_where(lambda k, r: k.endswith('.getBitCount()'))
    ln = [p['name'] for p in rd.params if p.get('name') == 'length'] or [rd.P(4)]
    rasg = [nid for nid, d, rhs, op, lhs in rd.assignments() if op == '=' and d and bcl and d.split(':')[-1] == bcl[0] and
            rhs is not None and rd.key(rhs) == ln[0]]
    if len(wcalls) != 1 or len(rasg) != 1:
        raise AnalysisBroken('C19.R7: bit length writer (%d) or reader (%d) not found' % (len(wcalls), len(rasg)))
    wconds = _pure_conds(wr, wcalls[0], lambda v: v.get('name') == 'm_bitCount' and v.get('this'))
    bdecl = [d for nid, d, rhs, op, lhs in rd.assignments() if op == 'init' and d and d.split(':')[-1] == bcl[0]][0]
    rconds = _pure_conds(rd, rasg[0], lambda v: v.get('decl') == bdecl)
    if not wconds or not rconds:
        raise AnalysisBroken('C19.R7: conditions on the bit count not found (writer %d, reader %d)' % (len(wconds), len(rconds)))
    diff = []
    try:
        for b in sorted(counts):
            m = tinyeval.Machine(wr, {'m_bitCount': b}, [])
            w = all(bool(m.rv(c)) == t for c, t in wconds)
            m = tinyeval.Machine(rd, {}, [])
            m.locals[bdecl] = b
            r = all(bool(m.rv(c)) == t for c, t in rconds)
            if w != r:
                diff.append('%d bits: written as %s, read as %s' % (b, 'bits' if w else 'bytes', 'bits' if r else 'bytes'))
    except tinyeval.Unknown as e:
        raise AnalysisBroken('C19.R7: condition not evaluable (%s)' % e)
    ctx.ob('C19.R7', wr, wcalls[0], not diff, 'length unit of number fields', '; '.join(diff) or
           'writer and reader agree for the bit counts %s' % sorted(counts))


def multiline_rule(ctx, rid):
    ctx.mark('multiline-field', rid)
    ctx.rule(rid, 'the parts of a quoted field that is wrapped over several lines are joined with the value separator whenever '
             'something was collected before the line break: in FileReader::splitFields the condition of that insertion tests the '
             'collected text for emptiness (position > 0 / != 0), not for a longer minimum - a first part of one character is '
             'a part too (ACL levels "a" and "b" must not become "ab")', minimum=1)
    import re
    fb = ctx.fb
    fn = fb.fn('ebusd::FileReader::splitFields')
    ctx.touch(fn)
    n = 0
    for c in fn.all('CXXOperatorCallExpr'):
        v = fn.nodes[c]
        if v.get('op') != '<<' or len(v.get('args', [])) != 2 or fn.val(v['args'][1]) != 59:
            continue
        p = fn.parent(c)
        child = c
        cond = None
        while p is not None:
            pv = fn.nodes[p]
            if pv['k'] == 'IfStmt' and pv.get('then') is not None and (child == pv['then'] or child in set(fn.walk(pv['then']))):
                cond = pv['cond']
                break
            child = p
            p = fn.parent(p)
        if cond is None:
            continue
        n += 1
        dnf = facts.implied(fn, cond, True)
        size_atoms = []
        for conj in dnf:
            for a in conj:
                k, pol = facts.atom_key(fn, a)
                if re.search(r'\.(tellp|size|length)\(\)', k) and not k.startswith('(__gnu') and '.end()' not in k:
                    size_atoms.append((k, pol))
        ok = bool(size_atoms) and all((re.search(r' <= #0\)$', k) and not pol) or (re.search(r' == #0\)$', k) and not pol) or
                                      (re.search(r' < #1\)$', k) and not pol) or (k.endswith('.empty()') and not pol) for k, pol in size_atoms)
        ctx.ob(rid, fn, c, ok, 'separator between the parts of a multi-line field', 'emptiness test of the collected text: %s' % (size_atoms,))
    if n < 1:
        raise AnalysisBroken('%s: insertion of the value separator not found in splitFields' % rid)


def r9(ctx):
    ctx.rule('C19.R9', 'a divisor is written with its sign: a negative divisor is ebusd\'s notation for a multiplier, so every value '
             'that NumberDataType::dump inserts into the output from m_divisor has a signed integer type (an unsigned cast '
             'writes -10 as 4294967286, which cannot be loaded again)', minimum=2)
    fb = ctx.fb
    fn = fb.fn('ebusd::NumberDataType::dump')
    ctx.touch(fn)
    n = 0
    for x, v in sorted(fn.nodes.items()):
        if v['k'] not in ('CXXOperatorCallExpr', 'CXXMemberCallExpr') or 'operator<<' not in (v.get('callee') or '') or not v.get('args'):
            continue
        a = v['args'][-1]
        if 'm_divisor' not in fn.key(a):
            continue
        n += 1
        av = fn.nodes[a]
        ok = bool(av.get('sg')) and not av.get('bool')
        ctx.ob('C19.R9', fn, x, ok, 'divisor written by dump', 'inserted as %s (%s)' % (av.get('t'), fn.key(a)[:60]))
    if n < 2:
        raise AnalysisBroken('C19.R9: only %d insertions of the divisor found in NumberDataType::dump' % n)


def r10(ctx):
    ctx.mark('parseint-prefix', 'C19.R10')
    ctx.rule('C19.R10', 'parseInt() reads a number from the front of a text and reports how much it consumed (the value list parser '
             'hands it the whole "key=name" token), so what follows the number must not matter: its search for a minus sign is '
             'bounded by the end pointer of strtoul (memchr(str, \'-\', strEnd - str)); an unbounded search rejects '
             '"1=heat-up", a value list that was dumped and cannot be loaded again', minimum=1)
    fb = ctx.fb
    fn = fb.fn('ebusd::parseInt', file_suffix='lib/ebus/symbol.cpp')
    ctx.touch(fn)
    endp = fn.outarg('strtoul', 1)
    st = fn.P(0)
    n = 0
    for c in fn.all('CallExpr', 'CXXMemberCallExpr'):
        v = fn.nodes[c]
        cal = (v.get('callee') or '').split('::')[-1]
        if cal not in ('memchr', 'strchr', 'strrchr', 'strstr', 'find', 'strpbrk') or len(v.get('args', [])) < 2:
            continue
        if not any(fn.val(a) == 45 or fn.key(a) in ('"-"',) for a in v['args']):
            continue
        n += 1
        a = [fn.key(x) for x in v['args']]
        ok = cal == 'memchr' and len(a) == 3 and a[0] == st and endp is not None and a[2] in ('(%s - %s)' % (endp, st), '(unsigned long)(%s - %s)' % (endp, st))
        ctx.ob('C19.R10', fn, c, ok, 'search for a minus sign in parseInt', '%s(%s)' % (cal, ', '.join(a)))
    if n < 1:
        raise AnalysisBroken('C19.R10: search for the minus sign not found in parseInt')


def r11(ctx):
    ctx.rule('C19.R11', 'a poll priority survives dump and reload: Message::dumpField writes the priority digit behind the type '
             'under a condition that, evaluated for the priorities 0..9, holds exactly for 1..9 (the loader reads "no digit" '
             'as priority 0)', minimum=1)
    import tinyeval
    fb = ctx.fb
    fn = fb.fn('ebusd::Message::dumpField')
    ctx.touch(fn)
    n = 0
    for c in fn.all('CXXOperatorCallExpr'):
        v = fn.nodes[c]
        if v.get('op') != '<<' or len(v.get('args', [])) != 2 or 'this.m_pollPriority' not in fn.key(v['args'][1]):
            continue
        conds = _pure_conds(fn, c, lambda x: x.get('this') and x.get('name') == 'm_pollPriority')
        n += 1
        if not conds:
            ctx.ob('C19.R11', fn, c, False, 'poll priority written by dumpField', 'not under a condition on the priority')
            continue
        bad = []
        try:
            for prio in range(10):
                m = tinyeval.Machine(fn, {'m_pollPriority': prio}, [])
                w = all(bool(m.rv(cc)) == t for cc, t in conds)
                if w != (prio > 0):
                    bad.append('priority %d is %s' % (prio, 'written' if w else 'not written'))
        except tinyeval.Unknown as e:
            raise AnalysisBroken('C19.R11: condition not evaluable (%s)' % e)
        ctx.ob('C19.R11', fn, c, not bad, 'poll priority written by dumpField', '; '.join(bad) or 'written exactly for 1..9')
    if n < 1:
        raise AnalysisBroken('C19.R11: the priority is not written in Message::dumpField')


def r12(ctx):
    ctx.rule('C19.R12', 'the lengths of chain parts are written in decimal: in ChainedMessage::dumpField the insertion of m_lengths[...] '
             'into the output is preceded, on every path from the last insertion in hexadecimal mode (the ID bytes), by a '
             'manipulator that sets the decimal base - a helper that restores the stream flags of its caller leaves whatever '
             'base an earlier column (qq, zz) set', minimum=1)
    fb = ctx.fb
    fn = fb.fn('ebusd::ChainedMessage::dumpField')
    ctx.touch(fn)
    ins = [c for c in fn.all('CXXOperatorCallExpr') if fn.nodes[c].get('op') == '<<' and len(fn.nodes[c].get('args', [])) == 2 and
           'this.m_lengths[' in fn.key(fn.nodes[c]['args'][1])]
    if not ins:
        raise AnalysisBroken('C19.R12: chain part length is not written in ChainedMessage::dumpField')
    decs = set(c for c in fn.all('CXXOperatorCallExpr') if fn.nodes[c].get('op') == '<<' and len(fn.nodes[c].get('args', [])) == 2 and
               fn.key(fn.nodes[c]['args'][1]).split('::')[-1] in ('dec', 'std::dec') or
               (fn.nodes[c].get('op') == '<<' and len(fn.nodes[c].get('args', [])) == 2 and fn.key(fn.nodes[c]['args'][1]) in ('dec', 'std::dec')))
    for c in ins:
        # a dec in the same insertion chain to the left of the length counts
        chain = set(fn.walk(fn.nodes[c]['args'][0]))
        inchain = any(d in chain for d in decs)
        stale = not inchain and fn.reaches_point(fn.entry, fn.pos(c), decs)
        ctx.ob('C19.R12', fn, c, not stale, 'chain part length written by dumpField', 'decimal base set on every path before it: %s' % (not stale))


def r13(ctx):
    ctx.rule('C19.R13', 'the keys of a value list are dumped as the unsigned numbers the loader reads: wherever a function of '
             'data.cpp writes the key of an entry of a map<unsigned int, string> (member first of the element) to a stream, '
             'the streamed expression has the unsigned 32 bit type of the key - copied into a pair with a signed first, a key '
             'from 0x80000000 up is written with a minus sign, which parseInt refuses when the dump is loaded', minimum=1)
    fb = ctx.fb
    n = 0
    seen = set()
    for fn in fb.functions:
        if fn.relfile != 'src/lib/ebus/data.cpp' or not fn.nodes or (fn.name, fn.sig) in seen:
            continue
        seen.add((fn.name, fn.sig))
        ranges = {}
        for l in fn.all('CXXForRangeStmt'):
            v = fn.nodes[l]
            rng = fn.nodes.get(fn.strip(v.get('range', -1), casts=True), {})
            if 'map<unsigned int' in (rng.get('t') or ''):
                ranges[(v.get('loopvar') or '').split(':')[-1]] = l
        if not ranges:
            continue
        for c in fn.calls():
            v = fn.nodes[c]
            if v['k'] != 'CXXOperatorCallExpr' or v.get('op') != '<<' or len(v.get('args', [])) != 2:
                continue
            shown = fn.nodes[fn.strip(v['args'][1], casts=True)]
            a = fn.nodes[fn.def_expr(v['args'][1])]     # a local that holds the key stands for its initialiser
            if a.get('k') != 'MemberExpr' or a.get('name') != 'first':
                continue
            base = fn.key(a['ch'][0]) if a.get('ch') else ''
            if base.split('.')[0].lstrip('*(') not in ranges and base not in ranges:
                continue
            n += 1
            ctx.touch(fn)
            ok = a.get('w') == 32 and not a.get('sg') and shown.get('w') == 32 and not shown.get('sg')
            ctx.ob('C19.R13', fn, c, ok, 'key of a value list entry written in %s' % fn.name.split('::', 1)[1],
                   'streamed as unsigned 32 bit: %s (type %s)' % (ok, a.get('t')))
    if n < 1:
        raise AnalysisBroken('C19.R13: no value list key written to a stream found in data.cpp')


def r14(ctx):
    ctx.rule('C19.R14', 'the dump visits every definition: MessageMap::dump walks m_messagesByName from its first entry (a range-based '
             'for over the map, or an iterator that starts at begin()) and decides per entry whether it is one of the copies '
             'stored without circuit - a start at lower_bound(...) skips the circuits that sort in front of the skipped block '
             '(a circuit name may start with $)', minimum=1)
    fb = ctx.fb
    n = 0
    for fn in fb.fns('ebusd::MessageMap::dump'):
        ctx.touch(fn)
        for l in fn.all('CXXForRangeStmt'):
            rng = fn.key(fn.nodes[l].get('range', -1))
            if 'm_messagesByName' in rng:
                n += 1
                ctx.ob('C19.R14', fn, l, rng.endswith('m_messagesByName'), 'walk over the name index', 'over the whole map: %s (%s)' % (rng.endswith('m_messagesByName'), rng[:60]))
        for l in fn.all('ForStmt', 'WhileStmt'):
            init = fn.nodes[l].get('init')
            txt = fn.key(init) if init is not None else ''
            if 'm_messagesByName' in txt or any('m_messagesByName' in fn.key(r2) for n2, d2, r2, o2, l2 in fn.assignments()
                                                  if r2 is not None and o2 == 'init' and d2 and d2.split(':')[-1] in fn.key(fn.nodes[l].get('cond', -1))):
                srcs = [fn.key(r2) for n2, d2, r2, o2, l2 in fn.assignments() if r2 is not None and 'm_messagesByName' in fn.key(r2)]
                n += 1
                ok = any(x.endswith('.begin()') or x.endswith('.cbegin()') for x in srcs) and not any('lower_bound' in x or 'upper_bound' in x or '.find(' in x for x in srcs)
                ctx.ob('C19.R14', fn, l, ok, 'walk over the name index', 'starts at begin(): %s (%s)' % (ok, '; '.join(srcs)[:80]))
    if n < 1:
        raise AnalysisBroken('C19.R14: the walk over m_messagesByName in MessageMap::dump was not found')


def r15(ctx):
    import rules.common as _c
    ctx.rule('C19.R15', 'the second argument of substr is a length: in the sources that write and read definitions a position found by '
             'a search is handed to substr as its length only when the piece starts at 0 (substr(0, pos)); for a piece that '
             'starts further right the length is a difference (substr(last, pos - last)) - with the position as length, '
             'dumpString copies too much from the second quote on and the dumped line cannot be split', minimum=8)
    fb = ctx.fb
    n = 0
    seen = set()
    for fn in fb.functions:
        if not fn.relfile.startswith(('src/lib/ebus/data.', 'src/lib/ebus/message.', 'src/lib/ebus/filereader.', 'src/lib/ebus/datatype.')) or \
                not fn.nodes or (fn.name, fn.sig) in seen:
            continue
        seen.add((fn.name, fn.sig))
        finds = set(d for nid, d, rhs, op, lhs in fn.assignments() if rhs is not None and d and any(
            (fn.nodes[y].get('callee') or '').split('::')[-1].startswith(('find', 'rfind')) for y in fn.walk(rhs) if fn.nodes[y]['k'] == 'CXXMemberCallExpr'))
        for c in fn.calls('substr'):
            v = fn.nodes[c]
            a = v.get('args', [])
            if len(a) < 2 or fn.nodes[fn.strip(a[1], casts=True)].get('k') == 'CXXDefaultArgExpr':
                continue
            a1 = fn.nodes[fn.strip(a[1], casts=True)]
            if a1.get('k') != 'DeclRefExpr' or a1.get('decl') not in finds:
                continue
            n += 1
            ctx.touch(fn)
            ok = fn.val(a[0]) == 0
            ctx.ob('C19.R15', fn, c, ok, 'substr with a searched position as length in %s' % fn.name.split('::', 1)[-1],
                   'the piece starts at 0: %s (%s)' % (ok, fn.key(c)[:60]))
    if n < 8:
        raise AnalysisBroken('C19.R15: only %d substr calls with a searched position as length found' % n)


def r16(ctx):
    ctx.rule('C19.R16', 'free text reaches the dump only through the quoting function: AttributedItem::dumpAttribute (units, comments '
             'and the other attribute columns) inserts no std::string into the output itself - the text goes to dumpString '
             '(or appendJson for JSON), whose three reasons to quote C19.R3 decides; a shortcut that writes "harmless" text '
             'directly has to repeat all three and the one seen forgot the two adjacent quotes', minimum=1)
    fb = ctx.fb
    fn = fb.fn('ebusd::AttributedItem::dumpAttribute')
    ctx.touch(fn)
    outp = '*' + fn.P(3)
    via = [c for c in fn.all('CallExpr', 'CXXMemberCallExpr') if (fn.nodes[c].get('callee') or '').endswith('AttributedItem::dumpString')]
    direct = []
    for x, v in sorted(fn.nodes.items()):
        if v['k'] == 'CXXOperatorCallExpr' and v.get('op') == '<<' and v.get('args') and len(v['args']) > 1:
            t = fn.nodes[fn.strip(v['args'][1], casts=True)].get('t') or ''
            root = v['args'][0]
            while fn.nodes[fn.strip(root)]['k'] == 'CXXOperatorCallExpr' and fn.nodes[fn.strip(root)].get('op') == '<<':
                root = fn.nodes[fn.strip(root)]['args'][0]
            if fn.key(root) == outp and ('basic_string' in t or t.replace('const ', '').strip() in ('std::string', 'string')):
                direct.append(x)
    ctx.ob('C19.R16', fn, direct[0] if direct else (via[0] if via else fn.body), bool(via) and not direct, 'attribute text in the dump',
           'written by dumpString (%d call(s)) and not inserted directly (%d direct insertion(s))' % (len(via), len(direct)))


def run(ctx):
    r16(ctx)
    r15(ctx)
    r14(ctx)
    r13(ctx)
    r12(ctx)
    r11(ctx)
    r10(ctx)
    r9(ctx)
    multiline_rule(ctx, 'C19.R8')
    r7(ctx)
    r1(ctx)
    r2(ctx)
    r3(ctx)
    r4(ctx)
    r5(ctx)
    r6(ctx)
