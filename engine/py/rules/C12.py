"""C12 - codec results are pure (three named state anchors + global-state rule).

C12.R1 (core) errno discipline around strto*
C12.R2 (core) derived-type cache key covers every varying constructor argument
C12.R3 (core) integer insertions into a shared output stream never inherit the number base
C12.R4        codec functions write no global / function-static mutable state except the allow-listed registry
"""
import facts
from facts import AnalysisBroken, Explorer

CODEC_FILES = ('src/lib/ebus/datatype.cpp', 'src/lib/ebus/data.cpp', 'src/lib/ebus/symbol.cpp',
               'src/lib/ebus/contrib/tem.cpp', 'src/lib/ebus/datatype.h', 'src/lib/ebus/data.h', 'src/lib/ebus/symbol.h')
STRTO = ('strtol', 'strtoll', 'strtoul', 'strtoull', 'strtod', 'strtof', 'strtold')
# C functions that cannot modify errno (pure classification/arith helpers); everything else in the global
# namespace is assumed to possibly set errno
ERRNO_NEUTRAL = {'__errno_location', 'isfinite', 'isnan', 'isinf', '__builtin_isfinite', '__builtin_isnan',
                 'isprint', 'isdigit', 'isspace', 'tolower', 'toupper', 'strlen', 'strcmp', 'strncmp', 'strcasecmp',
                 'memcmp', 'abs', 'labs'}


def is_errno_read(fn, nid):
    v = fn.nodes[nid]
    return v['k'] == 'CallExpr' and v.get('callee') == '__errno_location'


def errno_rule(ctx, rid):
    ctx.mark('errno', rid)
    ctx.rule(rid, 'every read of errno after a strto* call is preceded, on every path, by an assignment errno = 0 that '
             'lies before that strto* call with no intervening C library / repository call that may set errno; '
             'otherwise an ERANGE left by an earlier operation makes a valid input fail', minimum=4,
             star=rid.startswith('C12'))
    fb = ctx.fb
    for fn in fb.functions:
        if fn.relfile not in CODEC_FILES or not fn.blocks:
            continue
        reads = [n for n in fn.all('CallExpr') if is_errno_read(fn, n)]
        parses = fn.calls(*STRTO, suffix=False)
        if not reads or not parses:
            continue
        ctx.touch(fn)
        # writes "errno = 0": BinaryOperator '=' whose lhs is *__errno_location() and rhs evaluates to 0
        zero_writes = set()
        for nid, v in fn.nodes.items():
            if v['k'] == 'BinaryOperator' and v.get('op') == '=':
                l = fn.strip(v['lhs'])
                lv = fn.nodes.get(l, {})
                if lv.get('k') == 'UnaryOperator' and lv.get('op') == '*' and is_errno_read(fn, fn.strip(lv['ch'][0])) \
                        and fn.val(v['rhs']) == 0:
                    zero_writes.add(nid)
        lhs_reads = set()
        for w in zero_writes:
            for x in fn.walk(fn.nodes[w]['lhs']):
                lhs_reads.add(x)
        results = {}

        def on_elem(user, e, path):
            v = fn.nodes[e]
            k = v['k']
            if e in zero_writes:
                return 'clean'
            if k == 'CallExpr':
                cal = v.get('callee') or ''
                base = cal.split('::')[-1]
                if cal in STRTO:
                    return 'parsed-clean' if user == 'clean' else 'parsed-dirty'
                if is_errno_read(fn, e):
                    if e in lhs_reads:
                        return user
                    if user in ('parsed-clean',):
                        results.setdefault(e, []).append((True, path))
                    elif user in ('parsed-dirty',):
                        results.setdefault(e, []).append((False, path))
                    # reads with no preceding parse are not instances of this rule
                    return user
                if '::' not in cal and base not in ERRNO_NEUTRAL and user == 'clean':
                    return 'dirty'
                if v.get('repo') and user == 'clean':
                    return 'dirty'
            elif k == 'CXXMemberCallExpr' and v.get('repo') and user == 'clean':
                return 'dirty'
            return user

        ex = Explorer(fn, on_elem=on_elem)
        ex.run(fn.entry, 0, 'dirty')
        for r in reads:
            if r in lhs_reads:
                continue
            rs = results.get(r)
            if not rs:
                continue
            bad = [p for ok, p in rs if not ok]
            par = fn.parent(fn.parent(r))
            ctx.ob(rid, fn, r, not bad, 'errno read #%d after %s' % (
                sorted(x for x in reads if x not in lhs_reads).index(r), nearest_parse(fn, r, parses)),
                'errno may still hold ERANGE from an earlier call: no "errno = 0" before the parse on %d path class(es)' % len(bad)
                if bad else 'errno reset before the parse on all paths',
                witness=ex.describe_path(bad[0]) if bad else None)


def nearest_parse(fn, r, parses):
    l = fn.line_of(r)
    best = None
    for p in parses:
        if fn.line_of(p) <= l and (best is None or fn.line_of(p) > fn.line_of(best)):
            best = p
    return fn.nodes[best]['callee'] if best is not None else 'parse'


# ---------------------------------------------------------------------------
ID_DETERMINED = {
    'this.m_id': 'the id is the first key component',
    'this.m_flags': 'flags are copied unchanged from the base type of the same id',
    'this.m_replacement': 'replacement is copied unchanged from the base type of the same id',
    'this.m_firstBit': 'first bit is fixed per bit type id',
    'this.m_baseType': 'base type is determined by the id',
    'this': 'used only as base type pointer, determined by the id',
}


def leaves(fn, nid):
    out = set()
    for x in fn.walk(nid):
        v = fn.nodes[x]
        if v['k'] == 'DeclRefExpr' and v.get('rk') in ('param', 'local'):
            out.add(v.get('name'))
        elif v['k'] == 'MemberExpr' and v.get('this') and v.get('rk') == 'field':
            out.add('this.' + v.get('name'))
        elif v['k'] == 'CXXThisExpr':
            # bare this (not the implicit base of a member access)
            p = fn.parent(x)
            pv = fn.nodes.get(p, {})
            while pv.get('k') in facts.STRIP_KINDS:
                p = fn.parent(p)
                pv = fn.nodes.get(p, {})
            if pv.get('k') != 'MemberExpr':
                out.add('this')
    return out


def r2(ctx):
    ctx.rule('C12.R2', 'in each NumberDataType::derive overload the object constructed on a cache miss may differ from a '
             'cached one only in values that are part of the cache key: every constructor argument leaf (parameter or '
             'member of this) that is not determined by the type id must be streamed into the key', minimum=2, star=True)
    fb = ctx.fb
    fns = [f for f in fb.fns('ebusd::NumberDataType::derive')]
    if len(fns) < 2:
        raise AnalysisBroken('C12.R2: expected two NumberDataType::derive overloads, found %d' % len(fns))
    for fn in fns:
        ctx.touch(fn)
        news = [n for n in fn.all('CXXNewExpr') if 'NumberDataType' in fn.nodes[n].get('newt', '')]
        if not news:
            raise AnalysisBroken('C12.R2: no construction in %s' % fn.sig)
        # the key: argument of DataTypeList::get(key); trace the local to the ostringstream it was built from
        gets = fn.calls('ebusd::DataTypeList::get', suffix=False)
        if not gets:
            raise AnalysisBroken('C12.R2: cache lookup not found in %s' % fn.sig)
        keyleaves = set()
        for g in gets:
            arg = fn.nodes[g]['args'][0]
            kl = leaves(fn, arg)
            # follow locals: key -> str.str() -> all insertions into str
            work = list(kl)
            seen = set()
            while work:
                nm = work.pop()
                if nm in seen:
                    continue
                seen.add(nm)
                for nid, d, rhs, op, lhs in fn.assignments():
                    if d and d.split(':')[-1] == nm and rhs is not None:
                        for l2 in leaves(fn, rhs):
                            work.append(l2)
                # insertions into a stream local named nm
                for c in fn.all('CXXOperatorCallExpr'):
                    cv = fn.nodes[c]
                    if cv.get('op') != '<<' or len(cv.get('args', [])) != 2:
                        continue
                    r = cv['args'][0]
                    while True:
                        rv = fn.nodes[fn.strip(r)]
                        if rv['k'] == 'CXXOperatorCallExpr' and rv.get('op') == '<<':
                            r = rv['args'][0]
                        else:
                            break
                    if fn.key(r) == nm:
                        for l2 in leaves(fn, cv['args'][1]):
                            work.append(l2)
            keyleaves |= seen
        # a key part that is inserted only for some bit counts must cover every bit count for which the value can vary:
        # ranges (min/max) can be set through derive(min, max, inc), which admits exactly the bit counts its own guard
        # lets through
        import re
        def bitcounts(f, nid):
            ok = set(range(1, 33))
            for k, pol in set((a[0], a[1]) for a in f.atoms(nid)):
                m = re.match(r'^\(this\.m_bitCount (<|<=|==) #(\d+)\)$', k)
                if m:
                    c = int(m.group(2))
                    sat = set(x for x in range(1, 33) if {'<': x < c, '<=': x <= c, '==': x == c}[m.group(1)])
                    ok &= sat if pol else (set(range(1, 33)) - sat)
            return ok
        admit = None
        for g in fns:
            if len(g.params) == 4:      # derive(min, max, inc, derived)
                gn = [x for x in g.all('CXXNewExpr') if 'NumberDataType' in g.nodes[x].get('newt', '')]
                if gn:
                    admit = bitcounts(g, gn[0])
        cond_leaves = {}
        for c in fn.all('CXXOperatorCallExpr'):
            cv = fn.nodes[c]
            if cv.get('op') != '<<' or len(cv.get('args', [])) != 2:
                continue
            for l2 in leaves(fn, cv['args'][1]):
                cond_leaves.setdefault(l2, set())
                cond_leaves[l2] |= bitcounts(fn, c)
        # a key part is written with all its bits: an integer of 32 bits (divisor, range bound) is not cast to a narrower
        # type on its way into the key - two values that differ above the cut share one cached type
        narrowed = []
        for c in fn.all('CXXOperatorCallExpr'):
            cv = fn.nodes[c]
            if cv.get('op') != '<<' or len(cv.get('args', [])) != 2:
                continue
            a = cv['args'][1]
            y = a
            while True:
                yv = fn.nodes[y]
                if yv['k'] in ('ParenExpr', 'ImplicitCastExpr', 'CStyleCastExpr', 'CXXStaticCastExpr', 'CXXFunctionalCastExpr') and yv.get('ch'):
                    src = fn.nodes[fn.strip(yv['ch'][0], casts=True)]
                    if yv.get('w') and src.get('w') and yv['w'] < min(src['w'], 32) and src.get('k') in ('DeclRefExpr', 'MemberExpr') and \
                            not src.get('bool') and fn.val(yv['ch'][0]) is None:
                        narrowed.append('%s written as %d bit' % (fn.key(fn.strip(yv['ch'][0], casts=True)), yv['w']))
                    y = yv['ch'][0]
                else:
                    break
        # the key describes the object that is constructed: a parameter that is part of the key is not changed any more
        # between its insertion into the key and the construction (derive normalises bitCount = 0 to the width of the base
        # type; a key taken before that is the same for every width a template reference stands for)
        asg_all = list(fn.assignments())
        for c in fn.all('CXXOperatorCallExpr'):
            cv = fn.nodes[c]
            if cv.get('op') != '<<' or len(cv.get('args', [])) != 2 or fn.block_of(c) is None:
                continue
            for y in fn.walk(cv['args'][1]):
                yv = fn.nodes[y]
                if yv['k'] != 'DeclRefExpr' or yv.get('rk') not in ('param', 'local') or yv.get('name') not in keyleaves:
                    continue
                for nid2, d2, r2, o2, l2 in asg_all:
                    if d2 == yv.get('decl') and o2 != 'init' and fn.block_of(nid2) is not None and \
                            fn.reaches_point(fn.pos(c)[0], fn.pos(nid2), set(), start_idx=fn.pos(c)[1] + 1) and \
                            any(fn.block_of(n_) is not None and fn.reaches_point(fn.pos(nid2)[0], fn.pos(n_), set(), start_idx=fn.pos(nid2)[1] + 1) for n_ in news):
                        narrowed.append('%s is changed (line %d) after it was written into the key' % (yv.get('name'), fn.line_of(nid2)))
        # bit counts for which an object is constructed at all in this overload
        built = set()
        for n in news:
            built |= bitcounts(fn, n)
        partial = []
        for l, bc in sorted(cond_leaves.items()):
            if l not in keyleaves or built <= bc:
                continue
            if l in ('this.m_minValue', 'this.m_maxValue') and len(fn.params) == 3:
                # a range can only differ for the bit counts derive(min, max, inc) admits
                if admit is not None and not admit <= bc:
                    partial.append(l)
            else:
                partial.append(l)      # any other key part must be present for every bit count
        for n in news:
            init = fn.nodes[n].get('init')
            if init is None:
                continue
            args = fn.nodes[init].get('args', [])
            missing = list(partial)
            for a in args:
                for l in sorted(leaves(fn, a)):
                    if l in ID_DETERMINED:
                        continue
                    if l not in keyleaves:
                        missing.append(l)
            missing = sorted(set(missing))
            if narrowed:
                ctx.ob('C12.R2', fn, n, False, 'key parts of derive(%s)' % ','.join(p['name'] for p in fn.params[:-1]),
                       'a key part does not carry the value the object is built with: %s' % '; '.join(sorted(set(narrowed))))
            ctx.ob('C12.R2', fn, n, not missing,
                   'new NumberDataType in derive(%s)' % ','.join(p['name'] for p in fn.params[:-1]),
                   ('constructor argument(s) %s vary independently of the cache key (key covers %s, a conditional key part '
                    'must cover every bit count that derive(min,max,inc) admits): a type cached '
                    'under this key is reused for a definition with different values (load-order dependence)' % (
                        ', '.join(missing), ', '.join(sorted(k for k in keyleaves if k not in ('key', 'str')))))
                   if missing else 'all varying constructor arguments are part of the key')


# ---------------------------------------------------------------------------
BASE_MANIP = {'std::dec', 'std::hex', 'std::oct'}


def stream_root(fn, nid):
    r = nid
    while True:
        rv = fn.nodes[fn.strip(r)]
        if rv['k'] == 'CXXOperatorCallExpr' and rv.get('op') == '<<' and rv.get('args'):
            r = rv['args'][0]
        else:
            return fn.strip(r)


def sets_base(fn, arg):
    for x in fn.walk(arg):
        v = fn.nodes[x]
        if v['k'] == 'DeclRefExpr' and v.get('qn') in BASE_MANIP:
            return True
        if v['k'] == 'CallExpr' and (v.get('callee') or '') == 'std::setbase':
            return True
    return False


def is_int_insertion(fn, v):
    if v['k'] != 'CXXOperatorCallExpr' or v.get('op') != '<<' or len(v.get('args', [])) != 2:
        return False
    if not (v.get('cls') or '').startswith('std::basic_ostream'):
        return False
    a = fn.nodes[fn.strip(v['args'][1])]
    sig = v.get('sig', '')
    par = sig[sig.find('(') + 1:sig.rfind(')')]
    if par in ('bool', 'const void *', 'float', 'double', 'long double'):
        return False
    return par in ('int', 'unsigned int', 'long', 'unsigned long', 'short', 'unsigned short', 'long long',
                   'unsigned long long')


def decode_path_functions(fb):
    # value decoding only; definition dumping (decodeJson with OF_DEFINITION -> dump) belongs to C19
    roots = ['ebusd::Message::decodeLastData', 'ebusd::Message::decodeLastDataNumField',
             'ebusd::ChainedMessage::decodeLastData', 'ebusd::DataField::read', 'ebusd::SingleDataField::read',
             'ebusd::DataFieldSet::read']
    reach = fb.reachable_from(roots)
    # virtual readSymbols / read overrides reached through the base class
    return reach


def r3(ctx, rid='C12.R3'):
    ctx.rule(rid, 'on the decode path, every insertion of an integer into an output stream received from the caller '
             'is preceded on every path inside the function by an insertion of dec/hex/oct into that stream, with no '
             'call in between that receives the stream (a callee such as StringDataType::readSymbols leaves hex set); '
             'otherwise the printed number depends on what was formatted before', minimum=20, star=True)
    fb = ctx.fb
    reach = decode_path_functions(fb)
    nfn = 0
    for fn in fb.functions:
        if fn.name not in reach or not fn.blocks or '/lib/ebus/' not in fn.file:
            continue
        sparams = [p for p in fn.params if 'ostream' in p.get('t', '')]
        if not sparams:
            continue
        for sp in sparams:
            pname = sp['name']
            ins = []
            for nid, v in sorted(fn.nodes.items()):
                if is_int_insertion(fn, v):
                    root = stream_root(fn, nid)
                    rk = fn.key(root)
                    if rk in (pname, '*' + pname):
                        ins.append(nid)
            if not ins:
                continue
            nfn += 1
            ctx.touch(fn)
            bad = {}
            good = set()

            def on_elem(user, e, path, fn=fn, pname=pname, bad=bad, good=good):
                v = fn.nodes[e]
                k = v['k']
                if k == 'CXXOperatorCallExpr' and v.get('op') == '<<' and len(v.get('args', [])) == 2:
                    root = stream_root(fn, e)
                    if fn.key(root) in (pname, '*' + pname):
                        if sets_base(fn, v['args'][1]):
                            return True
                        if is_int_insertion(fn, v):
                            if user:
                                good.add(e)
                            else:
                                bad.setdefault(e, path)
                        return user
                if k in ('CallExpr', 'CXXMemberCallExpr', 'CXXConstructExpr') and v.get('args') is not None:
                    for a in v['args']:
                        ak = fn.key(a)
                        if ak in (pname, '*' + pname):
                            return False
                return user

            ex = Explorer(fn, on_elem=on_elem, correlate=True)
            ex.run(fn.entry, 0, False)
            for i in ins:
                arg = fn.nodes[i]['args'][1]
                construct = 'insert integer %s into %s' % (fn.key(arg), pname)
                if i in bad:
                    ctx.ob(rid, fn, i, False, construct,
                           'number base of the stream is inherited (no dec/hex since entry or since the stream was handed '
                           'to another function)', witness=ex.describe_path(bad[i]))
                elif i in good:
                    ctx.ob(rid, fn, i, True, construct, 'base set on all paths')
    if nfn < 5:
        raise AnalysisBroken(rid + ': only %d decode-path functions with integer insertions (confirmed: >= 5)' % nfn)


# ---------------------------------------------------------------------------
GLOBAL_WRITE_ALLOW = {
    'ebusd::DataFieldSet::s_identFields': 'lazily created constant field set for the identification message',
}


def r4(ctx):
    ctx.rule('C12.R4', 'functions in datatype.cpp, data.cpp, symbol.cpp, contrib/tem.cpp write no namespace-scope, '
             'static-member or function-static mutable object, except the allow-listed lazily built constants; '
             'the derived-type registry is only modified through DataTypeList::add', minimum=1)
    fb = ctx.fb
    n = 0
    for fn in fb.functions:
        if fn.relfile not in CODEC_FILES:
            continue
        for nid, d, rhs, op, lhs in fn.assignments():
            tgt = lhs
            if tgt is None:
                continue
            tv = fn.nodes.get(fn.strip(tgt), {})
            # strip subscripts / member accesses down to the base object
            base = fn.strip(tgt)
            while True:
                bv = fn.nodes.get(base, {})
                if bv.get('k') == 'ArraySubscriptExpr':
                    base = fn.strip(bv['base'])
                elif bv.get('k') == 'MemberExpr' and not bv.get('this') and bv.get('ch'):
                    base = fn.strip(bv['ch'][0])
                else:
                    break
            bv = fn.nodes.get(base, {})
            if bv.get('k') == 'DeclRefExpr' and bv.get('rk') in ('global', 'staticmember', 'staticlocal'):
                qn = bv.get('qn') or bv.get('name')
                ok = qn in GLOBAL_WRITE_ALLOW
                n += 1
                ctx.ob('C12.R4', fn, nid, ok, 'write to %s' % qn,
                       GLOBAL_WRITE_ALLOW.get(qn, 'codec function writes mutable global state'), nontrivial=False)
        for nid, v in fn.nodes.items():
            if v['k'] == 'DeclStmt':
                for dd in v.get('decls', []):
                    if dd.get('static') and 'const ' not in dd.get('t', ''):
                        n += 1
                        ctx.ob('C12.R4', fn, nid, False, 'function-static mutable %s' % dd['name'],
                               'function-local static mutable state in a codec function', nontrivial=False)
    # registry writers: DataTypeList::add callers
    for f, c in fb.call_sites('ebusd::DataTypeList::add'):
        ok = f.name in ('ebusd::NumberDataType::derive', 'ebusd::DataTypeList::DataTypeList',
                        'ebusd::contrib_tem_register', 'ebusd::libebus_contrib_register') or f.relfile.startswith('src/lib/ebus/contrib/')
        ctx.ob('C12.R4', f, c, ok, 'DataTypeList::add from %s' % f.name,
               'registry modified only by the type list constructor, contrib registration and derive()')


FLOAT_FMT = {'std::fixed', 'std::scientific', 'std::defaultfloat', 'std::hexfloat'}


def is_float_insertion(fn, v):
    if v['k'] != 'CXXOperatorCallExpr' or v.get('op') != '<<' or len(v.get('args', [])) != 2:
        return False
    if not (v.get('cls') or '').startswith('std::basic_ostream'):
        return False
    sig = v.get('sig', '')
    par = sig[sig.find('(') + 1:sig.rfind(')')]
    return par in ('float', 'double', 'long double')


def float_state_change(fn, arg):
    """which parts of the floating point format does the inserted manipulator define?"""
    out = set()
    for x in fn.walk(arg):
        v = fn.nodes[x]
        if v['k'] == 'DeclRefExpr' and v.get('qn') in FLOAT_FMT:
            out.add('field')
        if v['k'] == 'CallExpr':
            cal = v.get('callee') or ''
            if cal == 'std::setprecision':
                out.add('prec')
            if cal == 'std::resetiosflags' and v.get('args'):
                # resetting all current flags (output->flags()) or floatfield clears fixed/scientific
                k = fn.key(v['args'][0])
                if 'flags()' in k or 'floatfield' in k:
                    out.add('field')
    return out


def r5(ctx, rid='C12.R5'):
    ctx.rule(rid, 'on the decode path, every insertion of a floating point value into an output stream received from '
             'the caller is preceded on every path inside the function by a definition of the float format (fixed / '
             'scientific / resetiosflags of all flags) and of the precision (setprecision), with no call in between that '
             'receives the stream; otherwise a sticky "fixed" or precision left by an earlier field changes the text',
             minimum=4, star=True)
    fb = ctx.fb
    reach = decode_path_functions(fb)
    n = 0
    for fn in fb.functions:
        if fn.name not in reach or not fn.blocks or '/lib/ebus/' not in fn.file:
            continue
        for sp in [p for p in fn.params if 'ostream' in p.get('t', '')]:
            pname = sp['name']
            ins = [nid for nid, v in sorted(fn.nodes.items()) if is_float_insertion(fn, v) and
                   fn.key(stream_root(fn, nid)) in (pname, '*' + pname)]
            if not ins:
                continue
            ctx.touch(fn)
            bad = {}
            good = set()

            def on_elem(user, e, path, fn=fn, pname=pname, bad=bad, good=good):
                v = fn.nodes[e]
                k = v['k']
                if k == 'CXXOperatorCallExpr' and v.get('op') == '<<' and len(v.get('args', [])) == 2:
                    root = stream_root(fn, e)
                    if fn.key(root) in (pname, '*' + pname):
                        ch = float_state_change(fn, v['args'][1])
                        if ch:
                            return frozenset(set(user) | ch)
                        if is_float_insertion(fn, v):
                            if {'field', 'prec'} <= set(user):
                                good.add(e)
                            else:
                                bad.setdefault(e, (sorted({'field', 'prec'} - set(user)), path))
                        return user
                if k in ('CallExpr', 'CXXMemberCallExpr', 'CXXConstructExpr') and v.get('args') is not None:
                    for a in v['args']:
                        if fn.key(a) in (pname, '*' + pname):
                            return frozenset()
                return user

            ex = Explorer(fn, on_elem=on_elem)
            ex.run(fn.entry, 0, frozenset())
            for i in ins:
                n += 1
                construct = 'insert floating value %s into %s' % (fn.key(fn.nodes[i]['args'][1]), pname)
                if i in bad:
                    what = {'field': 'float format (fixed/scientific/reset)', 'prec': 'precision'}
                    ctx.ob(rid, fn, i, False, construct, 'inherited from earlier output: ' +
                           ', '.join(what[m] for m in bad[i][0]), witness=ex.describe_path(bad[i][1]))
                elif i in good:
                    ctx.ob(rid, fn, i, True, construct, 'float format and precision defined on all paths')
    if n < 4:
        raise AnalysisBroken(rid + ': only %d floating point insertions on the decode path (confirmed: >= 4)' % n)


def r8(ctx):
    ctx.rule('C12.R8', 'a decoded raw value depends only on the bytes of its field: NumberDataType::readRawValue gives its '
             'out-parameter a fresh value before it accumulates bytes into it (|=, +=, <<=) on every path - callers hand the '
             'same variable to one field after another (the numeric DataFieldSet::read), so what an earlier field left there '
             'must not survive', minimum=1)
    fb = ctx.fb
    fn = fb.fn('ebusd::NumberDataType::readRawValue')
    ctx.touch(fn)
    outs = [p for p in fn.params if (p.get('t') or '').rstrip().endswith('*') and 'int' in (p.get('t') or '')]
    if not outs:
        raise AnalysisBroken('C12.R8: out-parameter of readRawValue not found')
    tgt = '*' + outs[-1]['name']
    plain = set(nid for nid, d, rhs, op, lhs in fn.assignments() if lhs is not None and fn.key(lhs) == tgt and op == '=' and
                rhs is not None and tgt not in fn.key(rhs))
    acc = [nid for nid, d, rhs, op, lhs in fn.assignments() if lhs is not None and fn.key(lhs) == tgt and
           (op not in ('=', 'init') or (rhs is not None and tgt in fn.key(rhs)))]
    if not acc:
        raise AnalysisBroken('C12.R8: accumulation into %s not found' % tgt)
    for a in acc:
        stale = fn.reaches_point(fn.entry, fn.pos(a), plain)
        ctx.ob('C12.R8', fn, a, bool(plain) and not stale, 'accumulation into the out-parameter', 'reached only behind a fresh assignment: %s' % (bool(plain) and not stale))


def run(ctx):
    r8(ctx)
    errno_rule(ctx, 'C12.R1')
    r2(ctx)
    r3(ctx)
    r4(ctx)
    r5(ctx)
    import rules.C08 as c08
    ctx.borrow(c08.r3, {'C08.R3': 'C12.R6'},
               'the identification of a telegram depends only on its bytes and the loaded definitions: the probe bounds '
               'm_maxIdLength / m_maxBroadcastIdLength must not depend on the order in which definitions were added')
    import rules.C09 as _c09
    _c09.file_state_rule(ctx, 'C12.R7')
