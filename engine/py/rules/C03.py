"""C03 - ebusd transmits on the bus only when it is entitled to (guards of every bus-write site).

C03.R1 (core) read-only dominates every send; arbitration start needs a queued request; producers of the queue
C03.R2 (core) entitlement of `sending = true` in handleSend
C03.R3 (core) arbitration start guards
C03.R4        plain-device arbitration write guards
C03.R5        lost arbitration sets a positive lock counter
C03.R6        after a negative result only protocol-mandated transmissions remain
C03.R7        AUTO-SYN guards
"""
import facts
from facts import AnalysisBroken
import rules.automaton as A

SYN = 0xAA
SEND_STATES = ['bs_sendCmd', 'bs_sendCmdCrc', 'bs_sendResAck', 'bs_sendCmdAck', 'bs_sendRes', 'bs_sendResCrc', 'bs_sendSyn']


def device_sends(fn):
    return [c for c in fn.all('CXXMemberCallExpr') if (fn.nodes[c].get('callee') or '').endswith('Device::send')]


def r1(ctx):
    ctx.rule('C03.R1', 'every m_device->send() in the protocol handler is dominated by !m_config.readOnly; the arbitration '
             'start with a master address uses the head of m_nextRequests, and requests enter that queue only through '
             'addRequest (which returns early in read-only mode) or the re-queue of the current request in setState',
             minimum=4, star=True)
    fb = ctx.fb
    n = 0
    for name in (A.HS, A.HR, 'ebusd::DirectProtocolHandler::run'):
        fn = fb.fn(name)
        ctx.touch(fn)
        for c in device_sends(fn):
            n += 1
            atoms = set((a[0], a[1]) for a in fn.atoms(c))
            ok = ('this.m_config.readOnly', False) in atoms
            ctx.ob('C03.R1', fn, c, ok, 'send(%s) in %s' % (fn.key(fn.nodes[c]['args'][0]), name.split('::')[-1]),
                   'dominated by !readOnly: %s' % ok)
    # any other direct device send in the protocol sources?
    for f in fb.functions:
        if f.name in (A.HS, A.HR, 'ebusd::DirectProtocolHandler::run') or '/lib/ebus/protocol' not in f.file:
            continue
        for c in device_sends(f):
            n += 1
            ctx.ob('C03.R1', f, c, False, 'send in %s' % f.name, 'bus write outside the send/receive step functions')
    # queue producers
    for f in fb.functions:
        for c in f.all('CXXMemberCallExpr'):
            v = f.nodes[c]
            cal = v.get('callee') or ''
            if cal.startswith('ebusd::Queue') and cal.endswith('::push') and 'obj' in v and f.key(v['obj']).endswith('m_nextRequests'):
                n += 1
                if f.name == 'ebusd::ProtocolHandler::addRequest':
                    atoms = set((a[0], a[1]) for a in f.atoms(c))
                    ok = ('this.m_config.readOnly', False) in atoms
                    why = 'addRequest pushes only when not read-only: %s' % ok
                elif f.name == A.SS:
                    ok = 'this.m_currentRequest' == f.key(v['args'][0])
                    why = 're-queue of the current request'
                else:
                    ok = False
                    why = 'unexpected producer of m_nextRequests'
                ctx.ob('C03.R1', f, c, ok, 'm_nextRequests.push in %s' % f.name.split('::')[-1], why)
    if n < 4:
        raise AnalysisBroken('C03.R1: only %d instances' % n)


def r2(ctx):
    ctx.rule('C03.R2', 'in handleSend the flag that causes a transmission is set only inside a send state and only when '
             'entitled: with a current request (sendCmd, sendCmdCrc, sendResAck), while answering (sendCmdAck, sendRes, '
             'sendResCrc) or for the closing SYN (sendSyn)', minimum=7, star=True)
    fb = ctx.fb
    fn = fb.fn(A.HS)
    ctx.touch(fn)
    states, _ = A.bus_states(fb)
    inv = {v: k for k, v in states.items()}
    sw = A.main_switch(fn)
    regs = A.regions(fn, sw)
    # the flag: local bool that guards the device send
    sends = device_sends(fn)
    flag = None
    for a in fn.atoms(sends[0]):
        if a[1] and a[0].isidentifier():
            flag = a[0]
    if flag is None:
        raise AnalysisBroken('C03.R2: the local flag guarding send() in handleSend was not found')
    need = {'bs_sendCmd': ('(this.m_currentRequest == #0)', False), 'bs_sendCmdCrc': ('(this.m_currentRequest == #0)', False),
            'bs_sendResAck': ('(this.m_currentRequest == #0)', False), 'bs_sendCmdAck': ('this.m_currentAnswering', True),
            'bs_sendRes': ('this.m_currentAnswering', True), 'bs_sendResCrc': ('this.m_currentAnswering', True),
            'bs_sendSyn': None}
    n = 0
    for nid, d, rhs, op, lhs in fn.assignments():
        if not d or d.split(':')[-1] != flag or rhs is None or op == 'init' and fn.val(rhs) == 0:
            continue
        if fn.val(rhs) == 0:
            continue
        n += 1
        blk = fn.block_of(nid)
        src = [states[v] for v, reg in regs.items() if blk in reg]
        if len(src) != 1 or src[0] not in need:
            ctx.ob('C03.R2', fn, nid, False, '%s = true' % flag, 'set outside a send state (%s)' % src)
            continue
        st = src[0]
        g = set((a[0], a[1]) for a in fn.atoms(nid, frm=sw['labels'][inv[st]]))
        ok = need[st] is None or need[st] in g
        ctx.ob('C03.R2', fn, nid, ok, '%s = true in %s' % (flag, st.replace('bs_', '')),
               'entitlement guard %s present: %s' % (need[st], ok))
    if n < 7:
        raise AnalysisBroken('C03.R2: only %d assignments of the send flag' % n)


def r3(ctx):
    ctx.rule('C03.R3', 'arbitration is started with a master address only in state skip/ready, when the device is not already '
             'arbitrating, there is no current request, the lock counter is 0 and a request is queued', minimum=1, star=True)
    fb = ctx.fb
    fn = fb.fn(A.HS)
    states, _ = A.bus_states(fb)
    inv = {v: k for k, v in states.items()}
    sw = A.main_switch(fn)
    regs = A.regions(fn, sw)
    calls = [c for c in fn.all('CXXMemberCallExpr') if (fn.nodes[c].get('callee') or '').endswith('Device::startArbitration')]
    n = 0
    for c in calls:
        if fn.val(fn.nodes[c]['args'][0]) == SYN:
            continue
        n += 1
        blk = fn.block_of(c)
        src = sorted(states[v] for v, reg in regs.items() if blk in reg)
        atoms = set((a[0], a[1]) for a in fn.atoms(c))
        need = [('this.m_device.isArbitrating()', False), ('(this.m_currentRequest == #0)', True),
                ('(this.m_remainLockCount == #0)', True)]
        missing = [a for a in need if a not in atoms]
        queued = any(k.endswith(' == #0)') and not p and 'Request' in k for k, p in atoms)
        ok = not missing and set(src) <= {'bs_skip', 'bs_ready'} and queued
        ctx.ob('C03.R3', fn, c, ok, 'startArbitration(%s)' % fn.key(fn.nodes[c]['args'][0]),
               'states %s; missing guards %s; request queued: %s' % (src, missing, queued))
    if n == 0:
        raise AnalysisBroken('C03.R3: arbitration start not found in handleSend')
    # no other function starts arbitration with an address
    for f in fb.functions:
        if f.name == A.HS or '/lib/ebus/protocol' not in f.file:
            continue
        for c in f.all('CXXMemberCallExpr'):
            if (f.nodes[c].get('callee') or '').endswith('Device::startArbitration') and f.val(f.nodes[c]['args'][0]) != SYN:
                ctx.ob('C03.R3', f, c, False, 'startArbitration in %s' % f.name, 'arbitration started outside handleSend')


def r4(ctx):
    ctx.rule('C03.R4', 'the plain device writes its arbitration address only directly after a lone SYN (the only byte read), '
             'while an arbitration is requested and not yet running, and with an arbitration state out-parameter',
             minimum=1)
    fb = ctx.fb
    fn = fb.fn('ebusd::PlainDevice::recv')
    ctx.touch(fn)
    writes = [c for c in fn.all('CXXMemberCallExpr') if (fn.nodes[c].get('callee') or '').endswith('::write')]
    if not writes:
        raise AnalysisBroken('C03.R4: arbitration write not found in PlainDevice::recv')
    for c in writes:
        atoms = set((a[0], a[1]) for a in fn.atoms(c))
        need = [('(*%s == #%d)' % (fn.P(1), SYN), True), ('(this.m_arbitrationMaster == #%d)' % SYN, False),
                ('this.m_arbitrationCheck', False), ('(%s == #1)' % (fn.outarg('::read', 2) or 'len'), True), (fn.P(2), True)]
        missing = [a for a in need if a not in atoms]
        ctx.ob('C03.R4', fn, c, not missing, 'arbitration write', 'missing guards: %s' % missing)


def r5(ctx):
    ctx.rule('C03.R5', 'after a lost arbitration the lock counter is set to a positive number of SYNs to wait (a constant >= 1 '
             'or m_lockCount, which the constructor keeps >= 3) on the path on which the device reports the lost arbitration', minimum=3)
    fb = ctx.fb
    fn, sw, regs, edges, rmap = A.extracted_edges(fb)
    states, _ = A.bus_states(fb)
    inv = {v: k for k, v in states.items()}
    lab = sw['labels'][inv['bs_ready']]
    n = 0
    lost = [e for e in edges if e['from'] == ['bs_ready'] and e['result'] == 'RESULT_ERR_BUS_LOST']
    if not lost:
        raise AnalysisBroken('C03.R5: lost-arbitration transition not found')
    ws = []
    for nid, d, rhs, op, lhs in fn.assignments():
        if d == 'this.m_remainLockCount' and rhs is not None and fn.block_of(nid) in regs[inv['bs_ready']]:
            ws.append((nid, rhs))
    for nid, rhs in ws:
        n += 1
        k = fn.key(rhs)
        r = fn.nodes.get(fn.strip(rhs), {})
        vals = []
        if r.get('k') == 'ConditionalOperator':
            vals = [fn.val(r['then']), fn.val(r['else'])]
        elif fn.val(rhs) is not None:
            vals = [fn.val(rhs)]
        ok = (vals and all(v is not None and v >= 1 for v in vals)) or k == 'this.m_lockCount'
        ctx.ob('C03.R5', fn, nid, ok, 'm_remainLockCount := %s' % k, 'positive: %s' % ok)
    # at least one such write dominates the lost transition
    passes = not fn.reaches_point(lab, fn.pos(lost[0]['node']), set(w[0] for w in ws))
    ctx.ob('C03.R5', fn, lost[0]['node'], bool(ws) and passes, 'lock counter set before BUS_LOST', 'on every path: %s' % passes)
    # the lost arbitration is reported by the device (arbitration state out-parameter of recv): from the as_lost case of
    # the switch on it, every path with a received winner symbol (result not negative) to the BUS_LOST transition must
    # pass a positive lock counter write. (The bs_ready arm above is only reached for a symbol the handler sent itself.)
    arb = fn.outarg('Device::recv', 2)
    as_lost = None
    for en, e in fb.enums.items():
        for x in e['enumerators']:
            if x['name'] == 'as_lost':
                as_lost = x['v']
    res = fn.outarg('Device::recv', 1)
    rvar = [d.split(':')[-1] for nid, d, rhs, op, lhs in fn.assignments() if op == 'init' and rhs is not None and
            'recv(' in fn.key(rhs) and d]
    sws = [b_ for b_ in fn.blocks.values() if b_.tk == 'SwitchStmt' and b_.cond is not None and fn.key(fn.effective_cond(b_.id)) == arb]
    if arb is None or as_lost is None or len(sws) != 1 or not rvar:
        raise AnalysisBroken('C03.R5: switch on the arbitration state reported by the device not found')
    lab = None
    for sidx in sws[0].succs:
        if sidx is not None and fn.blocks[sidx].label and fn.blocks[sidx].label.get('kind') == 'case' and \
                fn.blocks[sidx].label.get('v') == as_lost:
            lab = sidx
    if lab is None:
        raise AnalysisBroken('C03.R5: case as_lost not found')
    allw = [(nid, rhs) for nid, d, rhs, op, lhs in fn.assignments() if d == 'this.m_remainLockCount' and rhs is not None]
    pos_w = set()
    for nid, rhs in allw:
        r = fn.nodes.get(fn.strip(rhs), {})
        vals = [fn.val(r['then']), fn.val(r['else'])] if r.get('k') == 'ConditionalOperator' else [fn.val(rhs)]
        if all(v is not None and v >= 1 for v in vals) or fn.key(rhs) == 'this.m_lockCount':
            pos_w.add(nid)
    cut = fn.edges_with_atom('(%s == #%d)' % (arb, as_lost), False) + fn.edges_with_atom('(%s < #0)' % rvar[0], True)
    bus_lost = None
    for en, e in fb.enums.items():
        for x in e['enumerators']:
            if x['name'] == 'RESULT_ERR_BUS_LOST':
                bus_lost = x['v']
    calls = [c for c in fn.all('CXXMemberCallExpr') if (fn.nodes[c].get('callee') or '').endswith('::setState') and
             len(fn.nodes[c].get('args', [])) > 1 and fn.val(fn.nodes[c]['args'][1]) == bus_lost]
    # the region of the as_lost case: blocks reachable from its label before another case of this switch begins
    others = [s_ for s_ in sws[0].succs if s_ is not None and s_ != lab and fn.blocks[s_].label and
              fn.blocks[s_].label.get('kind') in ('case', 'default') and fn.blocks[s_].label.get('v') != as_lost]
    chain = lab     # `case as_lost: case as_timeout:` share their statements: follow the empty fall-through labels
    while not fn.blocks[chain].elems and len([x for x in fn.blocks[chain].succs if x is not None]) == 1 and \
            fn.blocks[chain].succs[0] in others:
        chain = fn.blocks[chain].succs[0]
        others.remove(chain)
    region = fn.reach([lab], cut_blocks=others)
    # every value the counter is given in the case of a lost arbitration is a positive one (a later write overrides an
    # earlier one: the configured lock count is 0 for "automatic")
    for nid, rhs in allw:
        if fn.block_of(nid) in region and fn.block_of(nid) not in regs[inv['bs_ready']] and \
                ('(%s == #%d)' % (arb, as_lost), True) in set((a[0], a[1]) for a in fn.atoms(nid)):
            n += 1
            ctx.ob('C03.R5', fn, nid, nid in pos_w, 'm_remainLockCount := %s (lost arbitration reported by the device)' % fn.key(rhs),
                   'a constant >= 1 or m_lockCount: %s' % (nid in pos_w))
    m = 0
    for c in calls:
        if fn.block_of(c) not in region or fn.block_of(c) in regs[inv['bs_ready']]:
            continue
        # only calls that belong to the as_lost case: reachable from its label before any other case label
        m += 1
        n += 1
        unlocked = fn.reaches_point(lab, fn.pos(c), pos_w, cut_edges=cut)
        ctx.ob('C03.R5', fn, c, not unlocked, 'lock counter set when the device reports a lost arbitration',
               'every path from case as_lost (winner symbol received) to the BUS_LOST transition sets a positive lock '
               'counter: %s' % (not unlocked))
        break
    if m == 0:
        raise AnalysisBroken('C03.R5: BUS_LOST transition of the as_lost case not found')
    # constructor lower bound of m_lockCount
    for f in fb.fns('ebusd::DirectProtocolHandler::DirectProtocolHandler'):
        for it in f.inits:
            if it['member'] == 'm_lockCount':
                k = f.key(it['init'])
                ok = k.startswith('((%s.lockCount <= #3) ? #3 :' % f.P(0)) or 'max' in k
                ctx.ob('C03.R5', f, it['init'], ok, 'm_lockCount initial value', k)


def r6(ctx):
    ctx.rule('C03.R6', 'a transition that carries a negative result leads to a transmitting state only if it is flagged '
             'as first repetition (which keeps the request current, so that the protocol-mandated NAK / repeated part can '
             'be sent) or is the closing SYN of an own exchange; every other error ends in a receive/skip/no-signal state. Entering skip with a current request '
             'cancels a running arbitration', minimum=20)
    fb = ctx.fb
    fn, sw, regs, edges, rmap = A.extracted_edges(fb)
    n = 0
    for e in edges:
        if not e['result'].startswith('RESULT_ERR'):
            continue
        n += 1
        tx = [t for t in e['to'] if t in SEND_STATES]
        ok = not tx or e['first'] or tx == ['bs_sendSyn']
        ctx.ob('C03.R6', fn, e['node'], ok, 'error transition %s -> %s [%s]' % ('+'.join(e['from']) or 'prelude', e['to'], e['result']),
               'transmitting target %s allowed: %s' % (tx, ok), nontrivial=bool(tx))
    ss = fb.fn(A.SS)
    states, _ = A.bus_states(fb)
    inv = {v: k for k, v in states.items()}
    cancels = [c for c in ss.all('CXXMemberCallExpr') if (ss.nodes[c].get('callee') or '').endswith('Device::startArbitration')]
    ok = False
    for c in cancels:
        atoms = set((a[0], a[1]) for a in ss.atoms(c))
        if ss.val(ss.nodes[c]['args'][0]) == SYN and ('(%s == #%d)' % (ss.P(0), inv['bs_skip']), True) in atoms:
            ok = True
    ctx.ob('C03.R6', ss, cancels[0] if cancels else ss.body, ok, 'arbitration cancelled on skip', 'startArbitration(SYN) under state == skip: %s' % ok)


def r7(ctx):
    ctx.rule('C03.R7', 'an AUTO-SYN is sent only when not read-only, after a receive timeout, with SYN generation enabled, '
             'after at least the own generation interval of silence, and in state noSignal or skip', minimum=1)
    fb = ctx.fb
    fn = fb.fn(A.HR)
    states, _ = A.bus_states(fb)
    inv = {v: k for k, v in states.items()}
    rmap = A.role_map(fn)
    tmo = None
    for e in fb.enums.values():
        for x in e['enumerators']:
            if x['name'] == 'RESULT_ERR_TIMEOUT':
                tmo = x['v']
    n = 0
    for c in device_sends(fn):
        if fn.val(fn.nodes[c]['args'][0]) != SYN:
            continue
        n += 1
        atoms = set((A.canon(a[0], rmap), a[1]) for a in fn.atoms(c))
        need = [('this.m_config.readOnly', False), ('(result == #%d)' % tmo, True), ('(this.m_generateSynInterval <= #0)', False),
                ('(timeout < this.m_generateSynInterval)', False), ('sending', False)]
        missing = [a for a in need if a not in atoms]
        st_ok = fn.needs_one_of(c, [('(this.m_state == #%d)' % inv['bs_noSignal'], True), ('(this.m_state == #%d)' % inv['bs_skip'], True)])
        ctx.ob('C03.R7', fn, c, not missing and st_ok, 'AUTO-SYN send', 'missing guards %s; only in noSignal/skip: %s' % (missing, st_ok))
    if n == 0:
        raise AnalysisBroken('C03.R7: AUTO-SYN send not found')


def r9(ctx):
    ctx.mark('recv-deadline', 'C03.R9')
    ctx.rule('C03.R9', 'a receive timeout means the full time has passed: in PlainDevice::recv and EnhancedDevice::recv the '
             'remaining wait is recomputed inside the loop as (deadline - now) from a deadline fixed once before the loop '
             '(clock + timeout ...) and a clock reading of this iteration, under the test now < deadline; a cumulative '
             'decrement reports RESULT_ERR_TIMEOUT early after wake-ups without a symbol, and the AUTO-SYN generator relies '
             'on that result to know that the bus was silent for its interval; the loop is left early only with a result, and '
             'nothing inside it returns a possible timeout result', minimum=8)
    fb = ctx.fb
    import re
    for name in ('ebusd::PlainDevice::recv', 'ebusd::EnhancedDevice::recv'):
        fn = fb.fn(name)
        ctx.touch(fn)
        tmo = fn.P(0)
        loops = fn.all('DoStmt', 'WhileStmt', 'ForStmt')
        inloop = set()
        for l in loops:
            inloop |= set(fn.walk(l))
        ws = [(nid, rhs, op) for nid, d, rhs, op, lhs in fn.assignments() if d and d.split(':')[-1] == tmo and op != 'init' and nid in inloop]
        if not ws:
            raise AnalysisBroken('C03.R9: no update of the remaining timeout inside the loop of %s' % name)
        for nid, rhs, op in ws:
            ok = False
            why = '%s %s %s' % (tmo, op, fn.key(rhs) if rhs is not None else '')
            m = re.match(r'^(?:\(unsigned int\))?\((\w+) - (\w+)\)$', fn.key(rhs)) if (op == '=' and rhs is not None) else None
            if m:
                dl, now = m.group(1), m.group(2)
                dsets = [(n2, r2, o2) for n2, d2, r2, o2, l2 in fn.assignments() if d2 and d2.split(':')[-1] == dl]
                nsets = [(n2, r2, o2) for n2, d2, r2, o2, l2 in fn.assignments() if d2 and d2.split(':')[-1] == now]
                fixed = len(dsets) == 1 and dsets[0][0] not in inloop and dsets[0][1] is not None and \
                    'clockGetMillis()' in fn.key(dsets[0][1]) and re.search(r'(?<!\w)%s(?!\w)' % re.escape(tmo), fn.key(dsets[0][1])) is not None
                fresh = len(nsets) == 1 and nsets[0][0] in inloop and nsets[0][1] is not None and fn.key(nsets[0][1]).endswith('clockGetMillis()')
                guarded = fn.needs_one_of(nid, [('(%s < %s)' % (now, dl), True)])
                ok = fixed and fresh and guarded
                why += ' (deadline fixed before the loop: %s, fresh clock reading: %s, now < deadline: %s)' % (fixed, fresh, guarded)
            ctx.ob('C03.R9', fn, nid, ok, 'remaining timeout in %s' % name.split('::')[-2], why)
        # the loop is left with a timeout result only when the time is up: every break is taken for a result that is not
        # negative, for a zero timeout, or under now >= deadline; every return inside the loop hands out a result that is known
        # not to be RESULT_ERR_TIMEOUT (a returned callee result may be one if the callee can return that constant)
        tmo_code = fb.enumerator('ebusd::result_e', 'RESULT_ERR_TIMEOUT') if 'ebusd::result_e' in fb.enums else None
        if tmo_code is None:
            for en, e in fb.enums.items():
                for xx in e['enumerators']:
                    if xx['name'] == 'RESULT_ERR_TIMEOUT':
                        tmo_code = xx['v']
        resd = [d for nid, d, rhs, op, lhs in fn.assignments() if rhs is not None and '.read(' in fn.key(rhs) and d]
        rn = resd[0].split(':')[-1] if resd else 'result'
        dls = set(m.group(1) for nid, rhs, op in ws for m in [re.match(r'^(?:\(unsigned int\))?\((\w+) - (\w+)\)$', fn.key(rhs)) if rhs is not None else None] if m)
        for x in sorted(inloop):
            v = fn.nodes[x]
            if v['k'] == 'BreakStmt':
                # a test of the result counts only if the result is not assigned again between the test and the break
                # (if (result == OK) { result = decode(...); break; } leaves with whatever decode() returned)
                rwrites = [fn.line_of(n2) for n2, d2, r2, o2, l2 in fn.assignments() if d2 and d2.split(':')[-1] == rn and o2 != 'init']
                atoms = set()
                for a in fn.atoms(x):
                    stale = ('%s ' % rn in a[0] or '(%s' % rn in a[0]) and len(a) > 2 and a[2] is not None and \
                        any(fn.line_of(a[2]) <= w <= fn.line_of(x) for w in rwrites)
                    if not stale:
                        atoms.add((a[0], a[1]))

                def fine(at):
                    return ('(%s < #0)' % rn, False) in at or ('(%s == #0)' % rn, True) in at or ('(%s == #0)' % tmo, True) in at or \
                        any(re.match(r'^\(\w+ < (%s)\)$' % '|'.join(map(re.escape, dls)), k) and not p for k, p in at if dls)
                ok = fine(atoms)
                if not ok:
                    # the condition of the enclosing if may be a disjunction: every alternative has to be one of the reasons
                    p_ = fn.parent(x)
                    while p_ is not None and fn.nodes[p_]['k'] != 'IfStmt':
                        p_ = fn.parent(p_)
                    if p_ is not None and not any(fn.line_of(fn.nodes[p_]['cond']) <= w <= fn.line_of(x) for w in rwrites):
                        dnf = facts.implied(fn, fn.nodes[p_]['cond'], True)
                        ok = bool(dnf) and all(fine(atoms | set(facts.atom_key(fn, a) for a in conj)) for conj in dnf)
                ctx.ob('C03.R9', fn, x, ok, 'loop exit in %s' % name.split('::')[-2], 'taken with a result, a zero timeout or an expired deadline: %s' % ok)
            elif v['k'] == 'ReturnStmt' and v.get('val') is not None:
                rv = fn.nodes[fn.strip(v['val'], casts=True)]
                atoms = set((a[0], a[1]) for a in fn.atoms(x))
                if rv.get('k') in ('CallExpr', 'CXXMemberCallExpr'):
                    cal = [g for g in fb.functions if g.name == rv.get('callee') and g.blocks]
                    may = any(g.val(g.nodes[r].get('val')) == tmo_code or (g.nodes[r].get('val') is not None and '#%d' % tmo_code in g.key(g.nodes[r]['val']))
                              for g in cal for r in g.all('ReturnStmt')) if cal else True
                    ok = not may
                else:
                    ok = ('(%s == #%d)' % (fn.key(v['val']), tmo_code), False) in atoms
                ctx.ob('C03.R9', fn, x, ok, 'return inside the wait loop of %s' % name.split('::')[-2],
                       'cannot hand out RESULT_ERR_TIMEOUT before the deadline: %s' % ok)


def r11(ctx):
    ctx.rule('C03.R11', 'an arbitration that has ended is disarmed in the device: wherever a device reports won, lost, timed out or '
             'error through the arbitration state out-parameter, m_arbitrationMaster = SYN is passed on every path from that '
             'report to the exit of the function; a device that stays armed after a lost arbitration writes the address '
             'again at the next SYN, whatever the lock counter of the protocol handler says', minimum=3)
    fb = ctx.fb
    ends = set()
    for en, e in fb.enums.items():
        for x in e['enumerators']:
            if x['name'] in ('as_won', 'as_lost', 'as_timeout', 'as_error'):
                ends.add(x['v'])
    if len(ends) < 4:
        raise AnalysisBroken('C03.R11: arbitration state enumerators not found')
    n = 0
    for fn in fb.functions:
        if not fn.relfile.startswith('src/lib/ebus/device') or not fn.blocks or not fn.cls or 'Device' not in fn.cls:
            continue
        disarm = set(nid for nid, d, rhs, op, lhs in fn.assignments() if d == 'this.m_arbitrationMaster' and rhs is not None and fn.val(rhs) == 170)
        helper = set(c for c in fn.all('CXXMemberCallExpr') if (fn.nodes[c].get('callee') or '').endswith('cancelRunningArbitration'))
        for nid, d, rhs, op, lhs in fn.assignments():
            if lhs is None or rhs is None or not fn.key(lhs).startswith('*'):
                continue
            lt = fn.nodes.get(fn.strip(lhs), {}).get('t') or ''
            if 'ArbitrationState' not in lt:
                continue
            r = fn.nodes.get(fn.strip(rhs), {})
            vals = {fn.val(r['then']), fn.val(r['else'])} if r.get('k') == 'ConditionalOperator' else {fn.val(rhs)}
            if not (vals & ends):
                continue
            n += 1
            ctx.touch(fn)
            p0 = fn.pos(nid)
            # disarmed before (on every path to the report) or afterwards (on every path to the exit)
            before = bool(disarm) and not fn.reaches_point(fn.entry, p0, disarm)
            after = not fn.reaches_point(p0[0], (fn.exit, 0), disarm | helper, start_idx=p0[1] + 1)
            ctx.ob('C03.R11', fn, nid, before or after, 'arbitration result %s in %s' % (fn.key(rhs)[:40], fn.name.split('::')[-1]),
                   'device disarmed on every path (before the report: %s, between the report and the exit: %s)' % (before, after))
    if n < 3:
        raise AnalysisBroken('C03.R11: only %d arbitration result reports found in the device sources' % n)


def r12(ctx):
    ctx.rule('C03.R12', 'the device is never left armed without a pending request: where setState completes all queued requests '
             '(the drain on signal loss) every path from the drain to the exit of the function resets the arbitration of the '
             'device (startArbitration(SYN)); otherwise the address is written after the next SYN although nothing is pending',
             minimum=1)
    fb = ctx.fb
    fn = fb.fn(A.SS)
    ctx.touch(fn)
    pops = [c for c in fn.all('CXXMemberCallExpr') if (fn.nodes[c].get('callee') or '').endswith('::pop') and
            'm_nextRequests' in fn.key(fn.nodes[c].get('obj', -1))]
    if not pops:
        raise AnalysisBroken('C03.R12: drain of m_nextRequests not found in setState')
    resets = set(c for c in fn.all('CXXMemberCallExpr') if (fn.nodes[c].get('callee') or '').endswith('::startArbitration') and
                 fn.nodes[c].get('args') and fn.val(fn.nodes[c]['args'][0]) == 170)
    for c in pops:
        p0 = fn.pos(c)
        armed = fn.reaches_point(p0[0], (fn.exit, 0), resets, start_idx=p0[1] + 1)
        ctx.ob('C03.R12', fn, c, not armed, 'drain of the request queue', 'device arbitration reset on every path behind the drain: %s' % (not armed))


def initial_state_rule(ctx, rid):
    ctx.rule(rid, 'the bus handler starts without signal: the constructor of DirectProtocolHandler initialises m_state with the '
             'state under which setState drains the request queue (signal lost), so that nothing is taken as part of a telegram '
             'and no arbitration is started before the first SYN was seen', minimum=1)
    fb = ctx.fb
    fn = fb.fn(A.SS)
    pops = [c for c in fn.all('CXXMemberCallExpr') if (fn.nodes[c].get('callee') or '').endswith('::pop') and
            'm_nextRequests' in fn.key(fn.nodes[c].get('obj', -1))]
    st = fn.P(0)
    vals = set()
    import re
    for c in pops:
        for a in fn.atoms(c):
            m = re.match(r'^\(%s == #(\d+)\)$' % re.escape(st), a[0])
            if m and a[1]:
                vals.add(int(m.group(1)))
    if len(vals) != 1:
        raise AnalysisBroken('%s: the no-signal state of setState not identified (%s)' % (rid, sorted(vals)))
    nosig = vals.pop()
    ctors = [f for f in fb.functions if f.name == 'ebusd::DirectProtocolHandler::DirectProtocolHandler' and
             any(i.get('member') == 'm_state' for i in f.inits)]
    if not ctors:
        raise AnalysisBroken('%s: constructor initialiser of m_state not found' % rid)
    f = ctors[0]
    ctx.touch(f)
    for i in f.inits:
        if i.get('member') == 'm_state':
            v = f.val(i['init'])
            ctx.ob(rid, f, i['init'], v == nosig, 'initial bus state', 'm_state starts as %s, the no-signal state is %s' % (v, nosig))


def r14(ctx):
    ctx.rule('C03.R14', 'the number of masters that determines the automatic lock counter includes ebusd itself whenever it takes '
             'part: the constructor initialiser of m_masterCount for a handler that is not read-only equals the value '
             'ProtocolHandler::clear() resets it to (both describe "no other master seen yet")', minimum=1)
    fb = ctx.fb
    clr = fb.fn('ebusd::ProtocolHandler::clear')
    ctx.touch(clr)
    rv = [clr.val(rhs) for nid, d, rhs, op, lhs in clr.assignments() if d == 'this.m_masterCount' and op == '=' and rhs is not None]
    ctors = [f for f in fb.functions if f.name == 'ebusd::ProtocolHandler::ProtocolHandler' and
             any(i.get('member') == 'm_masterCount' for i in f.inits)]
    if len(rv) != 1 or rv[0] is None or not ctors:
        raise AnalysisBroken('C03.R14: reset value (%s) or constructor initialiser of m_masterCount not found' % rv)
    f = ctors[0]
    ctx.touch(f)
    for i in f.inits:
        if i.get('member') != 'm_masterCount':
            continue
        x = f.strip(i['init'], casts=True)
        v = f.nodes[x]
        if v['k'] == 'ConditionalOperator' and 'readOnly' in f.key(v['cond']):
            ck = f.key(v['cond'])
            neg = ck.startswith('!') or ck.startswith('(!')
            active = f.val(v['then'] if neg else v['else'])
        else:
            active = f.val(x)
        ctx.ob('C03.R14', f, i['init'], active == rv[0], 'initial master count', 'an active handler starts with %s, clear() resets to %s' % (active, rv[0]))


def r17(ctx):
    ctx.rule('C03.R17', 'after a lost arbitration the full lock counter applies exactly when the winner belongs to another priority '
             'class, and the class of an address is its low nibble: the condition under which handleReceive loads '
             'm_remainLockCount with m_lockCount, evaluated for all 25 x 25 pairs of master addresses (with a lock count above '
             'the short wait), is true exactly for the pairs whose low nibbles differ', minimum=1)
    import tinyeval
    import rules.C19 as c19
    fb = ctx.fb
    fn = fb.fn(A.HR)
    ctx.touch(fn)
    loads = [nid for nid, d, rhs, op, lhs in fn.assignments() if d == 'this.m_remainLockCount' and op == '=' and rhs is not None and
             fn.key(rhs) == 'this.m_lockCount']
    if not loads:
        raise AnalysisBroken('C03.R17: m_remainLockCount = m_lockCount not found in handleReceive')
    masters = [a for a in range(256) if (a & 0x0f) in (0, 1, 3, 7, 15) and (a >> 4) in (0, 1, 3, 7, 15)]
    n = 0
    for ld in loads:
        p = fn.parent(ld)
        cond = None
        while p is not None:
            if fn.nodes[p]['k'] == 'IfStmt' and fn.nodes[p].get('then') is not None and ld in set(fn.walk(fn.nodes[p]['then'])):
                cond = fn.nodes[p]['cond']
                break
            p = fn.parent(p)
        if cond is None:
            continue
        locs = sorted(set(fn.nodes[x]['decl'] for x in fn.walk(cond) if fn.nodes[x]['k'] == 'DeclRefExpr' and
                          fn.nodes[x].get('rk') in ('local', 'param') and (fn.nodes[x].get('w') == 8)))
        if len(locs) != 2:
            continue
        n += 1
        bad = []
        try:
            for a in masters:
                for b in masters:
                    m = tinyeval.Machine(fn, {'m_lockCount': 5, 'm_remainLockCount': 2}, [])
                    m.locals[locs[0]] = a
                    m.locals[locs[1]] = b
                    got = bool(m.rv(cond))
                    if got != ((a & 0x0f) != (b & 0x0f)) and len(bad) < 3:
                        bad.append('%02x against %02x: %s' % (a, b, 'full lock count' if got else 'short wait'))
        except tinyeval.Unknown as e:
            raise AnalysisBroken('C03.R17: priority class condition not evaluable (%s)' % e)
        ctx.ob('C03.R17', fn, ld, not bad, 'priority class comparison', '; '.join(bad) or 'true exactly for differing low nibbles (625 pairs)')
    if n < 1:
        raise AnalysisBroken('C03.R17: condition of the lock counter load not recognised')


def r19(ctx):
    ctx.rule('C03.R19', 'a request that lost arbitration is started again at most busLostRetries times: the counter starts at 0 '
             '(constructor), is incremented by one for each retry, and the retry is granted only while counter < configured '
             'maximum (strictly; counter <= maximum is one arbitration too many, also for a maximum of 0)', minimum=3)
    import rules.C13 as c13
    fb = ctx.fb
    fn = fb.fn(A.SS)
    ctx.touch(fn)
    n = 0
    for c in fn.all('CXXMemberCallExpr'):
        if not (fn.nodes[c].get('callee') or '').endswith('::incrementBusLostRetries'):
            continue
        p = fn.parent(c)
        child = c
        cond = None
        while p is not None:
            v = fn.nodes[p]
            if v['k'] == 'IfStmt' and v.get('then') is not None and (child == v['then'] or child in set(fn.walk(v['then']))):
                cond = v['cond']
                break
            child = p
            p = fn.parent(p)
        if cond is None:
            continue
        found = False
        for x in fn.walk(cond):
            v = fn.nodes[x]
            if v['k'] != 'BinaryOperator' or v.get('op') not in ('<', '<=', '>', '>='):
                continue
            ta, ca = c13._linear(fn, v['lhs'])
            tb, cb = c13._linear(fn, v['rhs'])
            t = dict(ta)
            for k, cc in tb.items():
                t[k] = t.get(k, 0) - cc
            t = {k: cc for k, cc in t.items() if cc}
            used = [k for k in t if k.endswith('.getBusLostRetries()')]
            mx = [k for k in t if k.endswith('.busLostRetries')]
            if len(used) != 1 or len(mx) != 1 or len(t) != 2:
                continue
            found = True
            n += 1
            cu = t[used[0]]
            k = (ca - cb) * (1 if cu > 0 else -1)
            op = v['op'] if cu > 0 else {'<': '>', '<=': '>=', '>': '<', '>=': '<='}[v['op']]
            # normal form "used + K < max"
            if op == '<=':
                k -= 1
            ok = op in ('<', '<=') and k == 0 and abs(cu) == 1 and t[mx[0]] == -cu
            ctx.ob('C03.R19', fn, x, ok, 'retry after a lost arbitration', 'granted while used %+d < maximum (%s)' % (k, fn.key(x)))
        if not found:
            ctx.ob('C03.R19', fn, c, False, 'retry after a lost arbitration', 'not under a comparison of the used retries with the configured maximum')
            n += 1
    cls = fb.classes.get('ebusd::BusRequest')
    for f in fb.functions:
        if f.name == 'ebusd::BusRequest::BusRequest':
            for i in f.inits:
                if i.get('member') == 'm_busLostRetries':
                    n += 1
                    ctx.ob('C03.R19', f, i['init'], f.val(i['init']) == 0, 'initial retry counter', 'starts at %s' % f.val(i['init']))
            break
    for f in fb.functions:
        if f.name == 'ebusd::BusRequest::incrementBusLostRetries' and f.nodes:
            steps = [(op, f.val(rhs) if rhs is not None else 1) for nid, d, rhs, op, lhs in f.assignments() if d == 'this.m_busLostRetries']
            n += 1
            ctx.ob('C03.R19', f, f.body, steps in ([('++', 1)], [('+=', 1)]), 'retry counter step', 'changes by %s' % steps)
            break
    if n < 3:
        raise AnalysisBroken('C03.R19: retry bookkeeping not found (%d sites)' % n)


def autosyn_sites(fn):
    """the AUTO-SYN send of handleReceive, the read-back recv calls behind it and the name of the symbol read back"""
    sends = [c for c in device_sends(fn) if fn.val(fn.nodes[c]['args'][0]) == SYN]
    if len(sends) != 1:
        raise AnalysisBroken('AUTO-SYN send in handleReceive not recognised (%d candidates)' % len(sends))
    c = sends[0]
    recvs = [r for r in fn.calls('recv') if (fn.nodes[r].get('callee') or '').endswith('Device::recv')]
    behind = [r for r in recvs if fn.reaches_point(fn.pos(c)[0], fn.pos(r), set(), start_idx=fn.pos(c)[1] + 1) and
              fn.line_of(r) > fn.line_of(c)]
    if not behind:
        raise AnalysisBroken('the read-back of the AUTO-SYN in handleReceive was not recognised')
    a = fn.nodes[fn.strip(fn.nodes[behind[0]]['args'][1], casts=True)]
    if a.get('k') != 'UnaryOperator' or a.get('op') != '&':
        raise AnalysisBroken('the read-back of the AUTO-SYN does not store into a local symbol')
    return c, behind, fn.key(a['ch'][0])


def r20(ctx):
    ctx.rule('C03.R20', 'ebusd takes over as AUTO-SYN generator (m_generateSynInterval = SYN_INTERVAL, the short interval) only '
             'after it has read its own SYN back intact: every store to m_generateSynInterval in handleReceive lies behind the '
             'read-back recv() of the AUTO-SYN and is reached only with the received symbol equal to SYN and a non-negative '
             'result - promoted earlier, a collision on the first AUTO-SYN leaves ebusd sending SYNs at the short interval '
             'into a bus it never had', minimum=1)
    fb = ctx.fb
    fn = fb.fn(A.HR)
    ctx.touch(fn)
    c, recvs, rsym = autosyn_sites(fn)
    n = 0
    for nid, d, rhs, op, lhs in fn.assignments():
        if lhs is None or fn.key(lhs) != 'this.m_generateSynInterval':
            continue
        n += 1
        atoms = set((a[0], a[1]) for a in fn.atoms(nid))
        echo = ('(%s == #%d)' % (rsym, SYN), True) in atoms
        early = fn.reaches_point(fn.pos(c)[0], fn.pos(nid), set(recvs), start_idx=fn.pos(c)[1] + 1)
        nonneg = any(k.endswith(' < #0)') and not pol for k, pol in atoms) or any(k.endswith(' == #0)') and pol for k, pol in atoms)
        ok = echo and not early and nonneg
        ctx.ob('C03.R20', fn, nid, ok, 'store to m_generateSynInterval',
               'behind the read-back: %s; received symbol is SYN: %s; result not negative: %s' % (not early, echo, nonneg))
    if n == 0:
        raise AnalysisBroken('C03.R20: no store to m_generateSynInterval in handleReceive')


def r22(ctx):
    ctx.rule('C03.R22', 'every master waits its own time before it generates SYN: the interval of silence after which a handler '
             'with SYN generation starts sending AUTO-SYN (constructor initialiser of m_generateSynInterval, evaluated from '
             'the typed AST for all 25 master addresses with the master numbering that C03.R16 decides) grows strictly with '
             'the master number by at least the 10 ms the protocol staggers the masters with, lies above the AUTO-SYN period '
             '(the interval a handler falls back to once it is the generator), and is 0 with generation switched off; a cap or '
             'a common value lets several masters (or ebusd and the regular generator) send SYN at the same moment, before '
             'their own interval of silence has passed', minimum=1)
    import tinyeval
    import rules.C19 as c19
    fb = ctx.fb
    ctors = [f for f in fb.functions if f.name == 'ebusd::DirectProtocolHandler::DirectProtocolHandler' and
             any(i.get('member') == 'm_generateSynInterval' for i in f.inits)]
    if not ctors:
        raise AnalysisBroken('C03.R22: constructor initialiser of m_generateSynInterval not found')
    f = ctors[0]
    ctx.touch(f)
    init = [i['init'] for i in f.inits if i.get('member') == 'm_generateSynInterval'][0]
    hr = fb.fn(A.HR)
    period = [hr.val(rhs) for nid, d, rhs, op, lhs in hr.assignments() if lhs is not None and hr.key(lhs) == 'this.m_generateSynInterval'
              and rhs is not None and hr.val(rhs)]
    if not period:
        raise AnalysisBroken('C03.R22: the AUTO-SYN period a generator falls back to was not found in handleReceive')
    parts = {0x0: 1, 0x1: 2, 0x3: 3, 0x7: 4, 0xF: 5}

    def number(a):
        lo, hi = parts.get(a & 0x0F), parts.get((a & 0xF0) >> 4)
        return 5 * (lo - 1) + hi if lo and hi else 0
    masters = sorted((number(a), a) for a in range(256) if number(a))
    cfg = None
    for x in f.walk(init):
        v = f.nodes[x]
        if v['k'] == 'MemberExpr' and not v.get('this') and v.get('name') in ('generateSyn', 'ownAddress'):
            cfg = f.key(x).rsplit('.', 1)[0]
    if cfg is None:
        raise AnalysisBroken('C03.R22: the initialiser does not read the configuration')
    vals = []
    try:
        for num, a in masters:
            m = tinyeval.Machine(f, {cfg + '.generateSyn': 1, cfg + '.ownAddress': a}, [])
            m.free = {'ebusd::getMasterNumber': number}
            vals.append((num, a, m.rv(init)))
        m = tinyeval.Machine(f, {cfg + '.generateSyn': 0, cfg + '.ownAddress': 0x31}, [])
        m.free = {'ebusd::getMasterNumber': number}
        off = m.rv(init)
    except tinyeval.Unknown as e:
        raise AnalysisBroken('C03.R22: initialiser of m_generateSynInterval not evaluable (%s)' % e)
    bad = []
    for (n1, a1, v1), (n2, a2, v2) in zip(vals, vals[1:]):
        if v2 - v1 < 10 and len(bad) < 3:
            bad.append('master %02x (number %d) waits %d ms, master %02x (number %d) %d ms' % (a1, n1, v1, a2, n2, v2))
    if vals[0][2] <= max(period):
        bad.append('master %02x waits %d ms, not above the AUTO-SYN period of %d ms' % (vals[0][1], vals[0][2], max(period)))
    if off != 0:
        bad.append('interval %d with SYN generation switched off' % off)
    ctx.ob('C03.R22', f, init, not bad, 'start-up AUTO-SYN interval per master',
           'staggered by at least 10 ms in the order of the master numbers (%d..%d ms): %s%s' % (
               vals[0][2], vals[-1][2], not bad, '' if not bad else ' - ' + '; '.join(bad)))


def r24(ctx):
    ctx.rule('C03.R24', 'the run loop learns that input is still buffered: DirectProtocolHandler::setState hands back the result it was '
             'given - it does not assign to its result parameter and every return statement returns that parameter. '
             'handleReceive returns setState(...) and run() repeats the receive step without a send step while the answer is '
             'RESULT_CONTINUE; turned into RESULT_OK inside setState, ebusd sends (an ACK) before it has looked at the SYN that '
             'is already buffered', minimum=2)
    fb = ctx.fb
    fn = fb.fn('ebusd::DirectProtocolHandler::setState')
    ctx.touch(fn)
    res = fn.P(1)
    writes = [nid for nid, d, rhs, op, lhs in fn.assignments() if d and d.split(':')[-1] == res and op != 'init']
    ctx.ob('C03.R24', fn, writes[0] if writes else fn.body, not writes, 'result parameter of setState', 'never assigned: %s' % (not writes))
    for r in fn.all('ReturnStmt'):
        v = fn.nodes[r].get('val')
        if v is None:
            continue
        ok = fn.key(v) == res
        ctx.ob('C03.R24', fn, r, ok, 'return of setState', 'hands back the result parameter: %s (%s)' % (ok, fn.key(v)))


def run(ctx):
    r24(ctx)
    import rules.C04 as _c04s
    ctx.borrow(_c04s.r15, {'C04.R15': 'C03.R23'}, 'ebusd acknowledges only responses of its own exchange: a request that stays current over a SYN makes it write ACK and SYN into the next foreign telegram')
    r22(ctx)
    import rules.common as _cm
    ctx.rule('C03.R21', "a value is compared with a constant in the domain of its own type: in the sources of this property every comparison of a variable, member, element or call result with an integer constant (==, !=) has the constant inside the value range of the operand's own integer type before promotion - a symbol held in a signed char never equals 0xA9/0xAA/0xFE, so the escape, SYN or broadcast test behind it is dead for exactly the symbols it exists for", minimum=60)
    _cm.compare_domain_rule(ctx, 'C03.R21', lambda f: f.relfile.startswith(('src/lib/ebus/protocol', 'src/lib/ebus/symbol.', 'src/lib/ebus/device')), 60)
    r20(ctx)
    r19(ctx)
    r17(ctx)
    r14(ctx)
    initial_state_rule(ctx, 'C03.R15')
    r1(ctx)
    r2(ctx)
    r3(ctx)
    r4(ctx)
    r5(ctx)
    r6(ctx)
    r7(ctx)
    import rules.C01 as c01
    ctx.rule('C03.R8', 'the echo comparison sees the symbols as sent and received: neither is reassigned before it and it '
             'precedes the CRC update and the unescaping, so that a collision on any sent symbol (also on the halves of an '
             'escape sequence) silences ebusd', minimum=2)
    c01.raw_symbol_rules(ctx, None, 'C03.R8')
    r9(ctx)
    import rules.C15 as c15
    c15.fresh_answer_rule(ctx, 'C03.R10')
    r11(ctx)
    r12(ctx)
    import rules.C14 as c14
    ctx.borrow(c14.run, {'C14.R4': 'C03.R13'},
               'the arbitration result of the enhanced device (STARTED/FAILED) must reach the protocol handler: a result that '
               'is deferred behind a received symbol has to stay in the buffer, or a lost arbitration is never seen and ebusd '
               'sends on')
    import rules.C11 as _c11
    ctx.borrow(_c11.r4, {'C11.R4': 'C03.R16'},
               'the AUTO-SYN interval and the source restriction of answers are computed from the master number of an '
               'address: the number must be the position of the address among the 25 masters')
    import rules.C14 as _c14
    _c14.clock_rule(ctx, 'C03.R18')
