"""lock pairing typestate (A3): between lock and unlock on every path, no exit while locked"""
from facts import Explorer


def pairing(fn, is_lock, is_unlock, is_access=None):
    """returns list of problems [(kind, node, path)] ; kinds: 'exit-locked', 'double-lock', 'unlock-unlocked',
    'access-unlocked'"""
    problems = []
    seen = set()

    def on_elem(user, e, path):
        v = fn.nodes[e]
        if is_lock(fn, e):
            if user:
                key = ('double-lock', e)
                if key not in seen:
                    seen.add(key)
                    problems.append(('double-lock', e, path))
            return True
        if is_unlock(fn, e):
            if not user:
                key = ('unlock-unlocked', e)
                if key not in seen:
                    seen.add(key)
                    problems.append(('unlock-unlocked', e, path))
            return False
        if is_access and is_access(fn, e) and not user:
            key = ('access-unlocked', e)
            if key not in seen:
                seen.add(key)
                problems.append(('access-unlocked', e, path))
        if v['k'] == 'ReturnStmt' and user:
            key = ('exit-locked', e)
            if key not in seen:
                seen.add(key)
                problems.append(('exit-locked', e, path))
        return user

    ex = Explorer(fn, on_elem=on_elem)
    # falling off the end of a void function while locked
    end_locked = []

    def on_edge(user, b, j, dnf):
        if fn.blocks[b].succs[j] == fn.exit and user and not any(fn.nodes[x]['k'] == 'ReturnStmt' for x in fn.blocks[b].elems):
            key = ('exit-locked', b)
            if key not in seen:
                seen.add(key)
                problems.append(('exit-locked', fn.blocks[b].elems[-1] if fn.blocks[b].elems else fn.body, ()))
        return user
    ex.on_edge = on_edge
    ex.run(fn.entry, 0, False)
    return problems, ex


def callee_is(fn, e, names, arg_key=None):
    v = fn.nodes[e]
    if v['k'] not in ('CallExpr', 'CXXMemberCallExpr'):
        return False
    cal = v.get('callee') or ''
    if cal not in names and cal.split('::')[-1] not in names:
        return False
    if arg_key is not None:
        args = v.get('args', [])
        if v['k'] == 'CXXMemberCallExpr':
            return fn.key(v.get('obj', -1)) == arg_key
        return bool(args) and fn.key(args[0]) == arg_key
    return True
