"""C09 - building, storing and decoding a message agree (necessary structural conditions only; weak claim).

C09.R1 every successful exit of prepareMasterPart / prepareSlave passes adjustHeader(); prepareMaster pushes QQ ZZ PB SB first
C09.R2 the data length check in Message::create precedes every construction of a Message / ChainedMessage
C09.R3 chained message indexes are bounded before every indexed access
C09.R4 the NN of a chained part counts exactly the bytes pushed after it (its ID tail and its slice of the data)
C09.R5 identification back: shares the exact ID check of C08.R2 (a prepared telegram is found by the same checkId)
"""
import facts
from facts import AnalysisBroken
import rules.common as common


def r1(ctx):
    ctx.rule('C09.R1', 'prepareMasterPart and prepareSlave reserve the NN byte first and fix it up with adjustHeader() on '
             'every successful path after the data was written; prepareMaster pushes source, destination, PB, SB in this '
             'order before the part', minimum=3)
    fb = ctx.fb
    for name in ('ebusd::Message::prepareMasterPart', 'ebusd::Message::prepareSlave'):
        fn = fb.fn(name)
        ctx.touch(fn)
        adj = set(c for c in fn.all('CXXMemberCallExpr') if (fn.nodes[c].get('callee') or '').endswith('::adjustHeader'))
        writes = [c for c in fn.all('CXXMemberCallExpr') if (fn.nodes[c].get('callee') or '').endswith('DataField::write')]
        ok_rets = []
        for r in fn.all('ReturnStmt'):
            rv = fn.nodes[r].get('val')
            if rv is None:
                continue
            if fn.val(rv) == 0 or (fn.val(rv) is None):
                ok_rets.append(r)
        problems = []
        for r in ok_rets:
            atoms = set((a[0], a[1]) for a in fn.atoms(r))
            rk = fn.key(fn.nodes[r]['val'])
            if any(k.startswith('(%s == #0)' % rk) and not p for k, p in atoms):
                continue   # error return of a non-OK result variable
            if fn.val(fn.nodes[r]['val']) not in (0, None):
                continue
            if not adj or fn.reaches_point(fn.entry, fn.pos(r), adj):
                # is this return reachable with success? returns of the variable `result` after the write check
                if ('(%s == #0)' % rk, True) in atoms or fn.val(fn.nodes[r]['val']) == 0:
                    problems.append('successful return at line %d not preceded by adjustHeader()' % fn.line_of(r))
        # adjustHeader after the data write
        if adj and writes:
            a = sorted(adj)[0]
            if fn.block_of(a) not in fn.reach([fn.block_of(writes[0])]):
                problems.append('adjustHeader() does not follow the data write')
        if not adj:
            problems.append('no adjustHeader() call')
        # NN placeholder pushed first
        pushes = [c for c in fn.all('CXXMemberCallExpr') if (fn.nodes[c].get('callee') or '').endswith('::push_back')]
        if not pushes or fn.val(fn.nodes[sorted(pushes, key=lambda c: (fn.line_of(c), c))[0]]['args'][0]) != 0:
            problems.append('length placeholder is not the first byte of the part')
        ctx.ob('C09.R1', fn, fn.body, not problems, 'NN fix-up in %s' % name.split('::')[-1], '; '.join(problems) or 'adjustHeader() on every successful path')
    fn = fb.fn('ebusd::Message::prepareMaster')
    ctx.touch(fn)
    seq = []
    for c in sorted([c for c in fn.all('CXXMemberCallExpr') if (fn.nodes[c].get('callee') or '').endswith('::push_back')],
                    key=lambda c: (fn.line_of(c), c)):
        seq.append(fn.key(fn.nodes[c]['args'][0]))
    part = [c for c in fn.all('CXXMemberCallExpr') if (fn.nodes[c].get('callee') or '').endswith('::prepareMasterPart')]
    srcp, dstp = fn.P(1), fn.P(2)
    ok = len(seq) == 5 and seq[0] == srcp and set(seq[1:3]) == {'this.m_dstAddress', dstp} and \
        seq[3:] == ['this.m_id[#0]', 'this.m_id[#1]'] and bool(part) and all(fn.line_of(part[0]) > 0 for _ in [0])
    clr = [c for c in fn.all('CXXMemberCallExpr') if (fn.nodes[c].get('callee') or '').endswith('::clear')]
    ok = ok and bool(clr)
    ctx.ob('C09.R1', fn, fn.body, ok, 'header order in prepareMaster', 'pushes %s then the part' % seq)


def r2(ctx):
    ctx.rule('C09.R2', 'Message::create constructs a Message/ChainedMessage only after the total data length (ID + master '
             'data, slave data) was checked against the maximum', minimum=2)
    fb = ctx.fb
    fn = fb.fn('ebusd::Message::create')
    ctx.touch(fn)
    news = [n for n in fn.all('CXXNewExpr') if fn.nodes[n].get('newt', '').endswith('Message')]
    if len(news) < 2:
        raise AnalysisBroken('C09.R2: constructions in Message::create not found')
    # the check: a condition containing getLength(pt_masterData...) and getLength(pt_slaveData...) whose true edge returns
    tests = [b.id for b in fn.blocks.values() if b.cond is not None and 'getLength(' in fn.key(b.cond) and 'maxLength' in fn.key(b.cond)]
    if not tests:
        for n in news:
            ctx.ob('C09.R2', fn, n, False, 'new %s' % fn.nodes[n]['newt'], 'no data length check found in Message::create')
        return
    for n in news:
        ok = fn.block_of(n) not in fn.reach([fn.entry], cut_blocks=tests)
        ctx.ob('C09.R2', fn, n, ok, 'new %s' % fn.nodes[n]['newt'].split('::')[-1], 'dominated by the data length check: %s' % ok)


def r3(ctx):
    ctx.rule('C09.R3', 'every access to the per-part vectors of a chained message (m_ids, m_lengths, m_last*Datas, update '
             'times) with a caller-supplied index is dominated by a bound test of that index against the part count',
             minimum=3)
    fb = ctx.fb
    n = 0
    for fn in fb.functions:
        if fn.cls != 'ebusd::ChainedMessage' or not fn.blocks:
            continue
        params = {p['name'] for p in fn.params if p.get('w')}
        for nid, v in sorted(fn.nodes.items()):
            if (v['k'] == 'CXXOperatorCallExpr' and v.get('op') == '[]' and len(v.get('args', [])) == 2) or \
                    v['k'] == 'ArraySubscriptExpr':
                if v['k'] == 'ArraySubscriptExpr':
                    base, idx = fn.key(v['base']), fn.key(v['idx'])
                else:
                    base = fn.key(v['args'][0])
                    idx = fn.key(v['args'][1])
                if not base.startswith('this.m_') or idx not in params:
                    continue
                n += 1
                ctx.touch(fn)
                atoms = set((a[0], a[1]) for a in fn.atoms(nid))
                ok = any(k.startswith('(%s < ' % idx) and p for k, p in atoms)
                ctx.ob('C09.R3', fn, nid, ok, '%s[%s] in %s' % (base, idx, fn.name.split('::')[-1]),
                       'index bounded by %s' % sorted(k for k, p in atoms if k.startswith('(%s ' % idx)))
    if n < 3:
        raise AnalysisBroken('C09.R3: only %d indexed accesses found' % n)


def r4(ctx):
    ctx.rule('C09.R4', 'ChainedMessage::prepareMasterPart pushes NN = (ID bytes of the part beyond PB SB) + (its data slice) '
             'and then exactly those bytes: one loop over the ID tail starting at 2 and one loop of addData bytes from the '
             'slice start', minimum=1)
    fb = ctx.fb
    fn = fb.fn('ebusd::ChainedMessage::prepareMasterPart')
    ctx.touch(fn)
    pushes = sorted([c for c in fn.all('CXXMemberCallExpr') if (fn.nodes[c].get('callee') or '').endswith('::push_back')],
                    key=lambda c: (fn.line_of(c), c))
    keys = [fn.key(fn.nodes[c]['args'][0]) for c in pushes]
    loops = [(fn.key(fn.nodes[l]['cond']) if 'cond' in fn.nodes[l] else '') for l in fn.all('ForStmt')]
    import re
    ok = False
    okb = False
    m0 = re.match(r'^(?:\(ebusd::symbol_t\))?\(\((\w+)\.size\(\) - #2\) \+ (\w+)\)$', keys[0]) if len(keys) == 3 else None
    if m0:
        idv, addv = m0.group(1), m0.group(2)
        m1 = re.match(r'^(\w+)\[(\w+)\]$', keys[1])
        m2 = re.match(r'^(\w+)\.dataAt\(\((\w+) \+ (\w+)\)\)$', keys[2])
        if m1 and m2 and m1.group(1) == idv:
            allv, posv = m2.group(1), m2.group(2)
            idx = fn.P(0)
            id_init = [fn.key(rhs) for nid, d, rhs, op, lhs in fn.assignments() if d and d.split(':')[-1] == idv and rhs is not None]
            ok = '(%s < %s.size())' % (m1.group(2), idv) in loops and '(%s < %s)' % (m2.group(3), addv) in loops and \
                all('this.m_ids[%s]' % idx in k for k in id_init) and bool(id_init)
            # the ID tail loop starts at 2, the data loop at 0
            starts = {}
            for l in fn.all('ForStmt'):
                for dd in fn.nodes.get(fn.nodes[l].get('init'), {}).get('decls', []):
                    starts[fn.key(fn.nodes[l]['cond']) if 'cond' in fn.nodes[l] else ''] = fn.val(dd.get('init'))
            ok = ok and starts.get('(%s < %s.size())' % (m1.group(2), idv)) == 2 and starts.get('(%s < %s)' % (m2.group(3), addv)) == 0
            rets = [r for r in fn.all('ReturnStmt') if fn.val(fn.nodes[r].get('val')) not in (0, None)]
            # the buffer all field data was written to has no length byte yet: its size is the calculated one (or the
            # header was adjusted before getDataSize() is consulted)
            adj = set(c for c in fn.all('CXXMemberCallExpr') if (fn.nodes[c].get('callee') or '').endswith('::adjustHeader') and
                      fn.key(fn.nodes[c].get('obj', -1)) == allv)
            for r in rets:
                for k, p in ((a[0], a[1]) for a in fn.atoms(r)):
                    if p:
                        continue
                    if '((%s + %s) <= %s.getCalculatedDataSize())' % (posv, addv, allv) in k:
                        okb = True
                    if '((%s + %s) <= %s.getDataSize())' % (posv, addv, allv) in k and adj and \
                            not fn.reaches_point(fn.entry, fn.pos(r), adj):
                        okb = True
    ctx.ob('C09.R4', fn, fn.body, ok, 'NN of a chained part', 'pushes %s; loops %s' % (keys, loops))
    # slice start of part n = sum of the lengths of the parts before it: the running length is added to the start before
    # it is replaced by the length of the next part (which starts as the length of part 0)
    if m0:
        import re as _re
        acc = [(nid, rhs) for nid, d, rhs, op, lhs in fn.assignments() if d and d.split(':')[-1] == posv and op == '+=' and rhs is not None]
        upd = [(nid, rhs) for nid, d, rhs, op, lhs in fn.assignments() if d and d.split(':')[-1] == addv and op == '=' and rhs is not None]
        start_ok = any(fn.key(r_) == 'this.m_lengths[#0]' for n_, r_ in upd)
        nxt = [(n_, r_) for n_, r_ in upd if _re.match(r'^this\.m_lengths\[\(\w+ \+ #1\)\]$', fn.key(r_))]
        order_ok = False
        if len(acc) == 1 and len(nxt) == 1 and fn.key(acc[0][1]) == addv:
            pa, pu = fn.pos(acc[0][0]), fn.pos(nxt[0][0])
            order_ok = pa is not None and pu is not None and pa[0] == pu[0] and pa[1] < pu[1]
        ctx.ob('C09.R4', fn, acc[0][0] if acc else fn.body, start_ok and order_ok, 'slice start of a chained part',
               'running length starts as the length of part 0: %s; it is added to the start before it is replaced by the '
               'next length: %s' % (start_ok, order_ok))
    # the slice must lie inside the written data
    ctx.ob('C09.R4', fn, fn.body, okb, 'slice bound', 'slice start + length checked against the size of the data written (not the unset length byte): %s' % okb)


def r7(ctx):
    ctx.rule('C09.R7', 'the arrival time of a chain part is refreshed whenever the part is stored, changed or not: in both '
             'ChainedMessage::storeLastData(index, ...) overloads every path that reaches combineLastParts() passes '
             'time(&m_last{Master,Slave}UpdateTimes[index]); the re-join needs all part times within its window, a part that '
             'answers with the same bytes again must not keep a stale time', minimum=2)
    fb = ctx.fb
    n = 0
    for fn in fb.fns('ebusd::ChainedMessage::storeLastData'):
        if len(fn.params) != 2 or 'size_t' not in (fn.params[0].get('t') or '') and 'unsigned long' not in (fn.params[0].get('t') or ''):
            continue
        comb = [c for c in fn.all('CXXMemberCallExpr') if (fn.nodes[c].get('callee') or '').endswith('::combineLastParts')]
        stamps = set(c for c in fn.all('CallExpr') if fn.nodes[c].get('callee') == 'time' and fn.nodes[c].get('args') and
                     'UpdateTimes[%s]' % fn.P(0) in fn.key(fn.nodes[c]['args'][0]))
        for c in comb:
            n += 1
            ctx.touch(fn)
            stale = not stamps or fn.reaches_point(fn.entry, fn.pos(c), stamps)
            ctx.ob('C09.R7', fn, c, not stale, 'part time refreshed in storeLastData(%s)' % fn.params[1].get('t', '')[:40],
                   'every path to combineLastParts() passes the time stamp of this part: %s' % (not stale))
    if n < 2:
        raise AnalysisBroken('C09.R7: only %d combineLastParts() calls found in the indexed storeLastData overloads' % n)

def r8(ctx):
    ctx.rule('C09.R8', 'a message to the broadcast address or to a master has no slave part: in DataField::create a field becomes '
             'slave data only if the destination is neither broadcast nor a master (whatever the part column says), otherwise '
             'the value supplied for it is dropped from the telegram that is built', minimum=1)
    fb = ctx.fb
    fn = fb.fn('ebusd::DataField::create')
    ctx.touch(fn)
    slave = None
    for en, e in fb.enums.items():
        for x in e['enumerators']:
            if x['name'] == 'pt_slaveData':
                slave = x['v']
    bc = fn.P(2)
    n = 0
    for nid, d, rhs, op, lhs in fn.assignments():
        if rhs is None or fn.val(rhs) != slave or op not in ('=', 'init'):
            continue
        t = fn.nodes.get(fn.strip(lhs), {}).get('t') if lhs is not None else None
        if lhs is not None and 'PartType' not in (t or ''):
            continue
        n += 1
        atoms = set((a[0], a[1]) for a in fn.atoms(nid))
        ok = (bc, False) in atoms
        ctx.ob('C09.R8', fn, nid, ok, 'field becomes slave data', 'only for a slave destination (%s false): %s' % (bc, ok))
    if n < 1:
        raise AnalysisBroken('C09.R8: assignment of pt_slaveData not found in DataField::create')


def _layout_states():
    """the abstract SymbolString states the accessors are evaluated on: both kinds, every stored length from 0 up to a few
    bytes behind the announced end, NN in {0, 1, 2, 3, 5, 16, 254, 255} (255 + 1 must not wrap), distinct byte values"""
    for master in (1, 0):
        lo = 4 if master else 0
        for nn in (0, 1, 2, 3, 5, 16, 254, 255):
            lens = set(range(0, lo + 9)) | {lo + nn, lo + nn + 1, lo + nn + 2}
            for ln in sorted(lens):
                data = [(0x21 + 7 * i) & 0xff for i in range(ln)]
                if ln > lo:
                    data[lo] = nn
                yield master, lo, data


def symbol_layout_rule(ctx, rid):
    ctx.mark('layout', rid)
    ctx.rule(rid, 'the inline accessors of SymbolString agree on the telegram layout: the length byte NN is at offset 4 of a master '
             'string and 0 of a slave string, the data starts behind it at 5 / 1. Decided by evaluating each accessor body '
             '(typed AST, integer widths as compiled) on every state of a small model (both kinds, stored lengths 0..end+2, '
             'NN in {0,1,2,3,5,16,254,255}): getDataOffset = offset of NN + 1; getCalculatedDataSize = stored bytes behind NN; '
             'getDataSize = min(NN, stored bytes behind NN); isComplete <=> NN is stored and NN bytes are stored behind it; '
             'the const dataAt(i) yields the stored byte or 0 and never reads outside; the non-const dataAt(i) grows the '
             'string and refers to byte offset + i; adjustHeader stores exactly the number of bytes behind NN and succeeds '
             'for every length a telegram can have', minimum=9, star=True)
    import tinyeval
    fb = ctx.fb
    seen = set()
    n = 0
    done = set()
    bysig = {}
    for fn in fb.functions:
        if fn.blocks and fn.cls == 'ebusd::SymbolString':
            bysig.setdefault((fn.name, fn.sig), fn)

    def resolve(name, sig):
        return bysig.get((name, sig))
    for fn in fb.functions:
        if not fn.relfile.endswith('lib/ebus/symbol.h') or not fn.blocks or fn.cls != 'ebusd::SymbolString':
            continue
        ident = (fn.name, fn.sig)
        if ident in seen:
            continue
        seen.add(ident)
        base = fn.name.split('::')[-1]
        for x in fn.all('ConditionalOperator'):
            v = fn.nodes[x]
            if fn.key(v['cond']) != 'this.m_isMaster':
                continue
            arms = (fn.val(v['then']), fn.val(v['else']))
            want = (5, 1) if base in ('dataAt', 'getDataOffset') else (4, 0)
            n += 1
            ctx.ob(rid, fn, x, arms == want, 'layout constant in %s' % base, 'master/slave offsets %s, expected %s' % (arms, want))
        const = 'const' in fn.sig.split(')')[-1]
        if base not in ('getDataOffset', 'getDataSize', 'getCalculatedDataSize', 'isComplete', 'dataAt', 'adjustHeader'):
            continue
        ctx.touch(fn)
        bad = []
        states = 0
        try:
            for master, lo, data in _layout_states():
                ln = len(data)
                behind = max(0, ln - lo - 1)
                nn = data[lo] if ln > lo else None
                idxs = (0, 1, 2, behind - 1, behind, behind + 1) if base == 'dataAt' else (None,)
                for i in idxs:
                    if i is not None and i < 0:
                        continue
                    fields = {'m_isMaster': master, 'm_data': list(data)}
                    states += 1
                    try:
                        got = tinyeval.run(fn, fields, [] if i is None else [i], returns_ref=(base == 'dataAt' and not const), resolve=resolve)
                    except tinyeval.OutOfBounds as e:
                        bad.append('%s string of %d bytes%s: access outside the stored bytes (%s)' % (
                            'master' if master else 'slave', ln, '' if i is None else ', index %d' % i, e))
                        continue
                    after = fields['m_data']
                    where = '%s string of %d bytes%s%s' % ('master' if master else 'slave', ln, '' if nn is None else ', NN=%d' % nn,
                                                           '' if i is None else ', index %d' % i)
                    if base == 'getDataOffset':
                        want = lo + 1
                    elif base == 'getCalculatedDataSize':
                        want = behind
                    elif base == 'getDataSize':
                        want = 0 if nn is None else min(nn, behind)
                    elif base == 'isComplete':
                        want = 1 if (nn is not None and behind >= nn) else 0
                    elif base == 'dataAt' and const:
                        want = data[lo + 1 + i] if lo + 1 + i < ln else 0
                    elif base == 'dataAt':
                        ok = isinstance(got, tinyeval.Ref) and got.box is after and got.key == lo + 1 + i and len(after) > lo + 1 + i \
                            and after[:ln] == data and all(b == 0 for b in after[ln:])
                        if not ok:
                            bad.append('%s: does not refer to byte %d of the grown string' % (where, lo + 1 + i))
                        continue
                    else:   # adjustHeader
                        if got:
                            ok = len(after) == max(ln, lo + 1) and after[lo] == len(after) - lo - 1 and \
                                all(after[j] == data[j] for j in range(ln) if j != lo)
                            if not ok:
                                bad.append('%s: NN becomes %s with %d bytes stored behind it' % (where, after[lo] if len(after) > lo else None, len(after) - lo - 1))
                        elif behind <= 16:
                            bad.append('%s: refused although only %d bytes follow NN' % (where, behind))
                        continue
                    if (1 if got else 0) != want if base == 'isComplete' else got != want:
                        bad.append('%s: %s yields %s, the layout gives %s' % (where, base, got, want))
        except tinyeval.Unknown as e:
            raise AnalysisBroken('%s: %s of symbol.h uses a construct the accessor evaluation does not model (%s)' % (rid, base, e))
        n += 1
        done.add(base + (' const' if const else ''))
        ctx.ob(rid, fn, fn.body, not bad, '%s%s against the telegram layout' % (base, ' const' if const else ''),
               '; '.join(bad[:3]) or 'agrees on all %d model states' % states)
    missing = {'getDataOffset const', 'getDataSize const', 'getCalculatedDataSize const', 'isComplete const', 'dataAt const',
               'dataAt', 'adjustHeader'} - done
    if missing:
        raise AnalysisBroken('%s: accessors not found in symbol.h: %s' % (rid, sorted(missing)))


def r10(ctx):
    ctx.rule('C09.R10', 'Message::decodeLastData hands the slave fields an index that is relative to the slave part: every path to '
             'the read of m_lastSlaveData on which the requested field index is not negative passes the subtraction of the '
             'number of master fields (getCount(pt_masterData, ...)), whichever part was asked for, and that number is counted for the same field name as the read is filtered by',
             minimum=2)
    fb = ctx.fb
    fn = fb.fn('ebusd::Message::decodeLastData')
    ctx.touch(fn)
    reads = [c for c in fn.calls('ebusd::DataField::read', suffix=False) if fn.key(fn.nodes[c]['args'][0]) == 'this.m_lastSlaveData']
    idx = [p for p in fn.params if p.get('name') == 'fieldIndex'] or [fn.params[3]]
    idxd, idxn = idx[0]['decl'], idx[0]['name']
    pm = fb.enumerator('ebusd::PartType', 'pt_masterData')
    subs = set(nid for nid, d, rhs, op, lhs in fn.assignments() if d == idxd and op == '-=' and rhs is not None and
               any((fn.nodes[x].get('callee') or '').endswith('::getCount') and fn.val(fn.nodes[x]['args'][0]) == pm
                   for x in fn.walk(fn.def_expr(rhs))))
    if not reads or not subs:
        raise AnalysisBroken('C09.R10: slave read (%d) or master field count subtraction (%d) not found' % (len(reads), len(subs)))
    negkey = '(%s < #0)' % idxn
    writes = set(nid for nid, d, rhs, op, lhs in fn.assignments() if d == idxd)
    res = {}

    def on_elem(user, e, path):
        if e in subs:
            return frozenset(set(user) | {'sub'})
        if e in writes:
            return frozenset(x for x in user if x != 'neg')
        if e in reads and 'sub' not in user and 'neg' not in user:
            res.setdefault(e, path)
        return user

    def on_edge(user, b, j, dnf):
        if len(dnf) == 1 and any(facts.atom_key(fn, a) == (negkey, True) for a in dnf[0]):
            return frozenset(set(user) | {'neg'})
        return user
    facts.Explorer(fn, on_elem=on_elem, on_edge=on_edge).run(fn.entry, 0, frozenset())
    # the index counts the fields of the requested name: the count that is subtracted is taken for the same name filter as
    # the slave read gets
    fnames = [p for p in fn.params if p.get('name') == 'fieldName'] or [fn.params[2]]
    fnn = fnames[0]['name']
    for sid in sorted(subs):
        rhs_ = [rhs for nid, d, rhs, op, lhs in fn.assignments() if nid == sid][0]
        gc = [x for x in fn.walk(fn.def_expr(rhs_)) if (fn.nodes[x].get('callee') or '').endswith('::getCount')]
        same = bool(gc) and all(fnn in [fn.key(a) for a in fn.nodes[x].get('args', [])] for x in gc)
        ctx.ob('C09.R10', fn, sid, same, 'master field count', 'counted for the requested field name: %s' % same)
    for c in reads:
        if not any(fn.nodes[x].get('decl') == idxd for a in fn.nodes[c]['args'] for x in fn.walk(a)):
            ctx.ob('C09.R10', fn, c, False, 'slave read', 'the field index is not passed to the slave read')
            continue
        bad = c in res
        ctx.ob('C09.R10', fn, c, not bad, 'index of the slave read', 'reachable with a non-negative index that still counts the '
               'master fields: %s' % bad)


def r11(ctx):
    ctx.rule('C09.R11', 'the room a definition offers for data is what its ID column states: in Message::create the limit '
             '(maxLength) is the sum of the chain part lengths accumulated in the parsing loop; behind that loop it is changed '
             'only when the last part came without an explicit length (then that part may use the maximum). An explicit '
             'length must not be widened, or a value that does not fit the chain is cut off silently when it is built',
             minimum=2)
    fb = ctx.fb
    fn = fb.fn('ebusd::Message::create')
    ctx.touch(fn)
    acc = [(nid, d) for nid, d, rhs, op, lhs in fn.assignments() if op == '+=' and rhs is not None and d and
           any((fn.nodes[l].get('k') == 'WhileStmt') for l in fn.ancestors(nid)) and 'chainLength' in fn.key(rhs)]
    flags = [d for nid, d, rhs, op, lhs in fn.assignments() if op == '=' and rhs is not None and d and
             fn.key(rhs).endswith('!= #18446744073709551615)') and any(fn.nodes[l].get('k') == 'WhileStmt' for l in fn.ancestors(nid))]
    if len(acc) != 1 or len(set(flags)) != 1:
        raise AnalysisBroken('C09.R11: accumulation of the part lengths (%d) or the explicit-length flag (%d) not found' % (len(acc), len(set(flags))))
    mx = acc[0][1]
    flag = flags[0].split(':')[-1]
    loop = [l for l in fn.ancestors(acc[0][0]) if fn.nodes[l].get('k') == 'WhileStmt'][0]
    inloop = set(fn.walk(loop))
    n = 0
    for nid, d, rhs, op, lhs in fn.assignments():
        if d != mx or nid in inloop or op == 'init':
            continue
        n += 1
        ok = fn.needs_one_of(nid, [(flag, False)])
        ctx.ob('C09.R11', fn, nid, ok, 'limit changed behind the chain loop', 'only without explicit last length: %s' % ok)
    if n < 2:
        raise AnalysisBroken('C09.R11: only %d changes of the limit behind the loop found' % n)


def file_state_rule(ctx, rid):
    ctx.mark('file-state', rid)
    ctx.rule(rid, 'a definition means what its own file says: MappedFileReader::readFromStream starts every file with empty per-file '
             'state - each non-const container member of MappedFileReader (column names, last defaults, last field defaults) '
             'is cleared on every path before the first line is read; a container that survives hands the defaults of an '
             'earlier file to the definitions of a later one', minimum=3)
    fb = ctx.fb
    cls = fb.classes.get('ebusd::MappedFileReader')
    fn = fb.fn('ebusd::MappedFileReader::readFromStream')
    if not cls:
        raise AnalysisBroken('%s: class MappedFileReader not found' % rid)
    ctx.touch(fn)
    members = [f['name'] for f in cls.get('fields', []) if not (f.get('t') or '').startswith('const ') and
               any(x in (f.get('t') or '') for x in ('map<', 'vector<', 'set<', 'list<', 'deque<'))]
    reads = [c for c in fn.all('CallExpr', 'CXXMemberCallExpr') if (fn.nodes[c].get('callee') or '').split('::')[-1] in
             ('readLineFromStream', 'splitFields', 'getline') or (fn.nodes[c].get('callee') or '') == 'ebusd::FileReader::readFromStream']
    if len(members) < 3 or not reads:
        raise AnalysisBroken('%s: per-file members (%s) or the line reading call not found' % (rid, members))
    for mname in members:
        clears = set(c for c in fn.all('CXXMemberCallExpr') if (fn.nodes[c].get('callee') or '').endswith('::clear') and
                     fn.key(fn.nodes[c].get('obj', -1)) == 'this.' + mname)
        for c in fn.all('CXXOperatorCallExpr'):
            v = fn.nodes[c]
            if v.get('op') == '=' and len(v.get('args', [])) == 2 and fn.key(v['args'][0]) == 'this.' + mname:
                r = fn.nodes[fn.strip(v['args'][1], casts=True)]
                while r.get('k') in ('MaterializeTemporaryExpr', 'CXXBindTemporaryExpr', 'CXXFunctionalCastExpr') and r.get('ch'):
                    r = fn.nodes[fn.strip(r['ch'][0], casts=True)]
                if r.get('k') in ('CXXConstructExpr', 'CXXTemporaryObjectExpr', 'InitListExpr') and not r.get('args') and not r.get('ch'):
                    clears.add(c)      # assignment of an empty container
        stale = any(fn.reaches_point(fn.entry, fn.pos(r), clears) for r in reads)
        ctx.ob(rid, fn, fn.body, bool(clears) and not stale, 'per-file state %s' % mname,
               'cleared before the first line on every path: %s' % (bool(clears) and not stale))


def r14(ctx):
    ctx.rule('C09.R14', 'a loop over the parts of a chained message addresses the part it is at: in the eBUS library sources every store to an '
             'element of a vector inside a counting loop depends on the iteration - the element index, or the stored value, '
             'mentions the loop variable or something the loop changes. A store that is the same in every pass is a slip of the '
             'index (prepareMasterPart has to forget the arrival times of ALL parts when a chained read starts over; otherwise '
             'the answer of the first part is joined with the other parts of the previous round)', minimum=8)
    fb = ctx.fb
    n = 0
    seen = set()
    for fn in fb.functions:
        if not fn.relfile.startswith('src/lib/ebus/') or not fn.nodes or (fn.name, fn.sig) in seen:
            continue
        seen.add((fn.name, fn.sig))
        for f in fn.all('ForStmt'):
            v = fn.nodes[f]
            if v.get('init') is None or v.get('body') is None:
                continue
            iv = [d.get('decl') for x in fn.walk(v['init']) if fn.nodes[x]['k'] == 'DeclStmt' for d in fn.nodes[x].get('decls', [])]
            if len(iv) != 1:
                continue
            inner = set()
            for x in fn.walk(v['body']):
                if x != f and fn.nodes[x]['k'] in ('ForStmt', 'WhileStmt', 'DoStmt', 'CXXForRangeStmt'):
                    inner |= set(fn.walk(x))
            region = set(fn.walk(v['body'])) | (set(fn.walk(v['inc'])) if v.get('inc') is not None else set())
            changed = set([iv[0]])
            for nid, d, rhs, op, lhs in fn.assignments():
                if nid in region and d:
                    changed.add(d)
            for nid, d, rhs, op, lhs in fn.assignments():
                if nid not in set(fn.walk(v['body'])) or nid in inner or lhs is None or op == 'init':
                    continue
                l = fn.nodes[fn.strip(lhs)]
                if not (l.get('k') == 'ArraySubscriptExpr' or (l.get('k') == 'CXXOperatorCallExpr' and l.get('op') == '[]')):
                    continue
                n += 1
                ctx.touch(fn)
                nodes = list(fn.walk(nid))
                dep = any(fn.ref_decl(x) in changed for x in nodes if fn.nodes[x]['k'] in ('DeclRefExpr', 'MemberExpr')) or \
                    any(fn.nodes[x]['k'] == 'UnaryOperator' and fn.nodes[x].get('op') in ('++', '--') for x in nodes)
                calls = any(fn.nodes[x]['k'] in ('CallExpr', 'CXXMemberCallExpr') and
                            (fn.nodes[x].get('callee') or '').split('::')[-1] not in ('size', 'length') for x in nodes)
                # a chained assignment a[i] = b[i] = 0 is reported once, at the outer store
                par = fn.nodes.get(fn.parent(nid), {})
                if par.get('k') in ('BinaryOperator',) and par.get('op') == '=' and par.get('rhs') == nid:
                    n -= 1
                    continue
                ctx.ob('C09.R14', fn, nid, dep or calls, 'store in a loop of %s' % fn.name.split('::', 1)[1],
                       'depends on the iteration: %s (%s)' % (dep or calls, fn.key(lhs)[:60]))
    if n < 8:
        raise AnalysisBroken('C09.R14: only %d element stores in counting loops found' % n)


def r15(ctx):
    ctx.rule('C09.R15', 'the parts of a chain are joined only when every part has arrived in this round: '
             'ChainedMessage::combineLastParts reads the master and the slave arrival time of every part 0..n-1 before it '
             'joins (a loop from 0, or a loop from 1 plus an explicit read of element 0, for each of the two time vectors); a '
             'part whose time is not looked at joins with the stale data of the previous round', minimum=2)
    fb = ctx.fb
    fn = fb.fn('ebusd::ChainedMessage::combineLastParts')
    ctx.touch(fn)
    for vec in ('this.m_lastMasterUpdateTimes', 'this.m_lastSlaveUpdateTimes'):
        const0 = False
        loop_from = None
        for x, v in sorted(fn.nodes.items()):
            if v['k'] == 'CXXOperatorCallExpr' and v.get('op') == '[]' and v.get('args') and fn.key(v['args'][0]) == vec:
                idx = v['args'][1]
            elif v['k'] == 'ArraySubscriptExpr' and fn.key(v['base']) == vec:
                idx = v['idx']
            else:
                continue
            par = fn.nodes.get(fn.parent(x), {})
            if par.get('k') in ('BinaryOperator', 'CompoundAssignOperator') and par.get('lhs') == x and par.get('op') == '=':
                continue    # a store, not a read
            if fn.val(idx) == 0:
                const0 = True
                continue
            d = fn.ref_decl(fn.strip(idx, casts=True))
            for f in fn.all('ForStmt'):
                fv = fn.nodes[f]
                if fv.get('init') is None or x not in set(fn.walk(f)):
                    continue
                for y in fn.walk(fv['init']):
                    if fn.nodes[y]['k'] == 'DeclStmt':
                        for dd in fn.nodes[y].get('decls', []):
                            if dd.get('decl') == d and 'init' in dd and fn.val(dd['init']) is not None:
                                s0 = fn.val(dd['init'])
                                loop_from = s0 if loop_from is None else min(loop_from, s0)
        ok = loop_from == 0 or (loop_from == 1 and const0)
        ctx.ob('C09.R15', fn, fn.body, ok, 'arrival times %s' % vec.replace('this.', ''),
               'read for the parts from %s on%s' % (loop_from, ' and for part 0' if const0 else ''))


def r16(ctx):
    ctx.rule('C09.R16', 'NN is set before the telegram is used: where a function of message.cpp builds a telegram with a '
             'placeholder length (push_back(0), "set later") and sets it with adjustHeader(), the telegram is compared with, '
             'assigned to or stored as last data (m_last*Data, storeLastData) only behind that adjustHeader() - the cached '
             'copy of an answer prepared in answer mode would otherwise keep NN=0 and decodeLastData fails on it', minimum=3)
    fb = ctx.fb
    n = 0
    seen = set()
    for fn in fb.functions:
        if not fn.relfile.startswith('src/lib/ebus/message.') or not fn.nodes or (fn.name, fn.sig) in seen:
            continue
        seen.add((fn.name, fn.sig))
        adj = {}
        for c in fn.calls('adjustHeader'):
            if 'obj' in fn.nodes[c]:
                adj.setdefault(fn.key(fn.nodes[c]['obj']).lstrip('*'), set()).add(c)
        if not adj:
            continue
        for x, adjs in sorted(adj.items()):
            ph = [c for c in fn.calls('push_back') if 'obj' in fn.nodes[c] and fn.key(fn.nodes[c]['obj']).lstrip('*') == x and
                  fn.nodes[c].get('args') and fn.val(fn.nodes[c]['args'][0]) == 0]
            if not ph:
                continue
            uses = []
            for nid, d, rhs, op, lhs in fn.assignments():
                if rhs is not None and lhs is not None and fn.key(rhs).lstrip('*') == x and fn.key(lhs).startswith('this.'):
                    uses.append((nid, 'stored as %s' % fn.key(lhs)))
            for c in fn.calls():
                v = fn.nodes[c]
                keys = [fn.key(a).lstrip('*') for a in v.get('args', [])]
                last = (v.get('callee') or '').split('::')[-1]
                if v['k'] == 'CXXOperatorCallExpr' and v.get('op') in ('==', '!=') and x in keys:
                    uses.append((c, 'compared (%s)' % fn.key(c)[:50]))
                elif last == 'storeLastData' and x in keys:
                    uses.append((c, 'handed to storeLastData'))
            for u, what in uses:
                if fn.block_of(u) is None:
                    continue
                ctx.touch(fn)
                n += 1
                early = any(fn.reaches_point(fn.pos(p_)[0], fn.pos(u), adjs, start_idx=fn.pos(p_)[1] + 1) for p_ in ph)
                ctx.ob('C09.R16', fn, u, not early, 'telegram %s %s in %s' % (x, what, fn.name.split('::', 1)[1]),
                       'only behind %s.adjustHeader(): %s' % (x, not early))
    if n < 3:
        raise AnalysisBroken('C09.R16: only %d uses of a telegram built with a placeholder length found' % n)


def r17(ctx):
    ctx.rule('C09.R17', 'a chained read that starts over forgets the arrival times of ALL parts: where '
             'ChainedMessage::prepareMasterPart prepares part 0 it resets both time vectors (master and slave) over the whole '
             'part count - by an element store of 0 in a loop bounded by the number of parts, or by a memset/fill whose size is '
             'that count times the element size; a reset that covers fewer bytes leaves the times of the later parts, and the '
             'parts of the new round are joined with stale parts of the previous one', minimum=2)
    fb = ctx.fb
    fn = fb.fn('ebusd::ChainedMessage::prepareMasterPart')
    ctx.touch(fn)
    comb = fb.fn('ebusd::ChainedMessage::combineLastParts')
    arrays = {}
    for f in (fn, comb):
        for x, v in f.nodes.items():
            if v['k'] == 'ArraySubscriptExpr' and 'base' in v or v['k'] == 'ArraySubscriptExpr':
                k = f.key(x)
                if k.startswith('this.m_last') and 'UpdateTimes[' in k:
                    arrays[k.split('[')[0]] = v.get('w') or 64
    if len(arrays) < 2:
        raise AnalysisBroken('C09.R17: the arrival time vectors of ChainedMessage were not recognised')

    def is_count(x):
        cnts = ('this.m_ids.size()', 'this.getCount()', 'this.m_lengths.size()')
        return fn.xkey(x) in cnts or fn.key(x) in cnts
    loops = {}
    for f in fn.all('ForStmt'):
        v = fn.nodes[f]
        if v.get('cond') is None or v.get('body') is None:
            continue
        c = fn.nodes[fn.strip(v['cond'], casts=True)]
        full = c.get('k') == 'BinaryOperator' and c.get('op') == '<' and is_count(c['rhs'])
        start0 = v.get('init') is not None and any(fn.nodes[y]['k'] == 'DeclStmt' and any(
            d.get('init') is not None and fn.val(d['init']) == 0 for d in fn.nodes[y].get('decls', [])) for y in fn.walk(v['init']))
        for y in fn.walk(v['body']):
            loops[y] = full and start0
    for arr, w in sorted(arrays.items()):
        sites = []
        for nid, d, rhs, op, lhs in fn.assignments():
            if lhs is None or not fn.key(lhs).startswith(arr + '['):
                continue
            r = rhs
            while r is not None and fn.nodes[fn.strip(r, casts=True)].get('k') == 'BinaryOperator' and fn.nodes[fn.strip(r, casts=True)].get('op') == '=':
                r = fn.nodes[fn.strip(r, casts=True)]['rhs']
            if r is None or fn.val(r) != 0:
                continue
            if ('(index == #0)', True) not in set((a[0], a[1]) for a in fn.atoms(nid)) and \
                    ('(%s == #0)' % fn.P(0), True) not in set((a[0], a[1]) for a in fn.atoms(nid)):
                continue
            sites.append((nid, bool(loops.get(nid)), 'element store in a loop over all parts'))
        for c in fn.calls('memset', 'fill_n', 'fill', 'bzero'):
            v = fn.nodes[c]
            args = v.get('args', [])
            if not args or fn.key(fn.strip(args[0], casts=True)) != arr:
                continue
            last = (v.get('callee') or '').split('::')[-1]
            ok = False
            if last == 'memset' and len(args) == 3:
                sz = fn.nodes[fn.strip(args[2], casts=True)]
                if sz.get('k') == 'BinaryOperator' and sz.get('op') == '*':
                    a, b = sz['lhs'], sz['rhs']
                    ok = (is_count(a) and fn.val(b) == w // 8) or (is_count(b) and fn.val(a) == w // 8)
            elif last == 'fill_n' and len(args) == 3:
                ok = is_count(args[1]) and fn.val(args[2]) == 0
            sites.append((c, ok, '%s over count * element size' % last))
        if not sites:
            ctx.ob('C09.R17', fn, fn.body, False, 'reset of %s for part 0' % arr, 'no reset found')
            continue
        for nid, ok, how in sites:
            ctx.ob('C09.R17', fn, nid, ok, 'reset of %s for part 0' % arr, '%s: %s' % (how, ok))


def r18(ctx):
    ctx.rule('C09.R18', 'a chain part without a written length has the length of the part before it (the first one 16): inside the '
             'loop over the parts in Message::create the variable whose value is stored as the length of the part is written '
             'only from the parsed ":len" text of that part; any other write inside the loop gives such a part a length of '
             'its own, and prepareMasterPart / storeLastData then cut the data at other positions than the definition says',
             minimum=1)
    fb = ctx.fb
    fn = fb.fn('ebusd::Message::create')
    ctx.touch(fn)
    loops = [l for l in fn.all('WhileStmt') if 'getline' in fn.key(fn.nodes[l].get('cond', -1))]
    inloop = set()
    for l in loops:
        inloop |= set(fn.walk(l))
    pushes = [c for c in fn.calls('push_back') if c in inloop and 'obj' in fn.nodes[c] and
              'vector<unsigned long' in (fn.nodes[fn.strip(fn.nodes[c]['obj'])].get('t') or '') or
              (c in inloop and 'obj' in fn.nodes[c] and 'ength' in fn.key(fn.nodes[c]['obj']))]
    n = 0
    for c in pushes:
        lv = None
        for x in fn.walk(fn.nodes[c]['args'][0]):
            if fn.nodes[x]['k'] == 'DeclRefExpr' and fn.nodes[x].get('rk') == 'local':
                lv = fn.nodes[x].get('decl')
        if lv is None:
            continue
        writes = [(nid, rhs) for nid, d, rhs, op, lhs in fn.assignments() if d == lv and op != 'init' and nid in inloop]
        for nid, rhs in writes:
            n += 1
            src = fn.nodes[fn.def_expr(rhs)] if rhs is not None else {}
            if src.get('k') == 'DeclRefExpr' and src.get('rk') == 'local':
                # a local that is initialised once and never written again stands for its initialiser
                ds = [(o2, r2) for n2, d2, r2, o2, l2 in fn.assignments() if d2 == src.get('decl')]
                if len(ds) == 1 and ds[0][0] == 'init' and ds[0][1] is not None:
                    src = fn.nodes[fn.strip(ds[0][1], casts=True)]
            ok = (src.get('callee') or '').split('::')[-1] in ('parseInt', 'parseSignedInt', 'strtoul', 'stoul')
            ctx.ob('C09.R18', fn, nid, ok, 'write of the part length %s in the loop over the parts' % lv.split(':')[-1],
                   'taken from the parsed length of this part: %s' % ok)
    if n < 1:
        raise AnalysisBroken('C09.R18: the length of a chain part in Message::create was not recognised')


def r19(ctx):
    ctx.rule('C09.R19', 'every stored part of a chain is followed by the attempt to join: in both ChainedMessage::storeLastData(index, '
             'part) overloads every path to a return with a result that is not negative passes combineLastParts() - the join that '
             'publishes a round is the one triggered by its last part, and a part that is identical to the stored one still '
             'completes a round in which an earlier part changed', minimum=2)
    fb = ctx.fb
    n = 0
    for fn in fb.fns('ebusd::ChainedMessage::storeLastData'):
        if len(fn.params) != 2 or 'size_t' not in (fn.params[0].get('t') or ''):
            continue
        n += 1
        ctx.touch(fn)
        joins = set(c for c in fn.calls('combineLastParts'))
        bad = []
        for r in fn.all('ReturnStmt'):
            val = fn.nodes[r].get('val')
            if val is None:
                continue
            c_ = fn.val(val)
            if c_ is not None and c_ < 0:
                continue
            if fn.nodes[fn.strip(val, casts=True)].get('callee', '').endswith('combineLastParts'):
                continue
            if fn.reaches_point(fn.entry, fn.pos(r), joins):
                bad.append(fn.line_of(r))
        ctx.ob('C09.R19', fn, fn.body, bool(joins) and not bad, 'storeLastData(index, %s)' % ('master' if 'Master' in fn.sig else 'slave'),
               'every successful return passes combineLastParts(): %s%s' % (bool(joins) and not bad, '' if not bad else ' (return at line %s does not)' % bad))
    if n < 2:
        raise AnalysisBroken('C09.R19: the two storeLastData(index, part) overloads of ChainedMessage were not found')


def r21(ctx):
    ctx.rule('C09.R21', 'a telegram built for sending is identified for every source address: in MessageMap::find(master, ...) each '
             'lookup of the key combined with an active read / write source marker (key | ID_SOURCE_ACTIVE_...) is reached '
             'only with the source bits of the key cleared - every path from the initialisation of the key passes the store '
             'that clears them (key &= ~ID_SOURCE_MASK) or the edge on which they are tested to be zero, whatever the '
             'passive flag says - because the master number of QQ left in the key turns the read marker 0x1e into the write '
             'marker 0x1f for the odd master numbers', minimum=2)
    import re
    fb = ctx.fb
    fns = [f for f in fb.fns('ebusd::MessageMap::find') if 'MasterSymbolString' in f.sig]
    if len(fns) != 1:
        raise AnalysisBroken('C09.R21: MessageMap::find(master, ...) not found')
    fn = fns[0]
    ctx.touch(fn)
    asg = list(fn.assignments())
    n = 0
    M64 = (1 << 64) - 1
    for c in fn.calls('find'):
        v = fn.nodes[c]
        if 'map<' not in (v.get('callee') or '') or not v.get('args'):
            continue
        arg = fn.strip(v['args'][-1], casts=True)
        av = fn.nodes[arg]
        if av.get('k') != 'BinaryOperator' or av.get('op') != '|':
            continue
        kv = fn.nodes[fn.strip(av['lhs'], casts=True)]
        if kv.get('rk') != 'local':
            raise AnalysisBroken('C09.R21: the key of the active lookup is not a local variable')
        bits = 0

        def consts(x):
            val = fn.val(x)
            if val is not None:
                return [val & M64]
            out = []
            ch = fn.nodes[x].get('ch', [])
            if fn.nodes[x]['k'] == 'ConditionalOperator':
                ch = ch[1:]
            for y in ch:
                out += consts(y)
            return out
        for val in consts(av['rhs']):
            bits |= val
        if not bits:
            raise AnalysisBroken('C09.R21: the source marker of the active lookup is not constant')
        n += 1
        kd, kn = kv['decl'], kv['name']
        inits = [nid for nid, d, rhs, op, lhs in asg if d == kd and op == 'init']
        clears = set(nid for nid, d, rhs, op, lhs in asg if d == kd and op == '&=' and rhs is not None and
                     fn.val(rhs) is not None and (fn.val(rhs) & M64) & bits == 0)
        cut = []
        for b in fn.blocks.values():
            if b.cond is None or b.tk == 'SwitchStmt' or len(b.succs) != 2:
                continue
            cnd = fn.effective_cond(b.id)
            for j in (0, 1):
                for a in fn.norm_atom(cnd, j == 0):
                    m = re.match(r'^\(\(%s & #(\d+)\) == #0\)$' % re.escape(kn), a[0])
                    if m and a[1] and int(m.group(1)) & bits == bits:
                        cut.append((b.id, j))
        if len(inits) != 1:
            raise AnalysisBroken('C09.R21: initialisation of the lookup key not found')
        ib, ii = fn.pos(inits[0])
        bad = fn.reaches_point(ib, fn.pos(c), clears, start_idx=ii + 1, cut_edges=cut)
        ctx.ob('C09.R21', fn, c, not bad, 'lookup of %s' % fn.key(arg)[:60],
               'reached only with the source bits cleared (%d clearing store(s), %d zero-test edge(s)): %s' % (len(clears), len(cut), not bad))
    if n < 2:
        raise AnalysisBroken('C09.R21: only %d active lookups found in MessageMap::find' % n)


def run(ctx):
    r21(ctx)
    r19(ctx)
    r18(ctx)
    r16(ctx)
    r17(ctx)
    r15(ctx)
    r14(ctx)
    file_state_rule(ctx, 'C09.R13')
    r11(ctx)
    r10(ctx)
    r1(ctx)
    r2(ctx)
    r3(ctx)
    r4(ctx)
    import rules.C08 as c08
    ctx.borrow(c08.run, {'C08.R1': 'C09.R5', 'C08.R2': 'C09.R6', 'C08.R3': 'C09.R20'},
               'the built telegram must be identified back to the same definition, and a chained part is stored into the '
               'slot that checkId selects')
    r7(ctx)
    r8(ctx)
    symbol_layout_rule(ctx, 'C09.R9')
    import rules.common as _common
    ctx.rule('C09.R12', 'arguments keep their roles across calls: at every call of a repository function in message.cpp (part index, ID and data must reach the builder in their own slots) whose arguments are named like parameters of the callee, no two of them are passed crosswise (argument i named like parameter j and argument j like parameter i)', minimum=8)
    _common.swapped_args_rule(ctx, 'C09.R12', ('src/lib/ebus/message.',), 8)
