"""C09 - building, storing and decoding a message agree (necessary structural conditions only; weak claim).

C09.R1 every successful exit of prepareMasterPart / prepareSlave passes adjustHeader(); prepareMaster pushes QQ ZZ PB SB first
C09.R2 the data length check in Message::create precedes every construction of a Message / ChainedMessage
C09.R3 chained message indexes are bounded before every indexed access
C09.R4 the NN of a chained part counts exactly the bytes pushed after it (its ID tail and its slice of the data)
C09.R5 identification back: shares the exact ID check of C08.R2 (a prepared telegram is found by the same checkId)
"""
import facts
from facts import AnalysisBroken
import rules.common as common


def r1(ctx):
    ctx.rule('C09.R1', 'prepareMasterPart and prepareSlave reserve the NN byte first and fix it up with adjustHeader() on '
             'every successful path after the data was written; prepareMaster pushes source, destination, PB, SB in this '
             'order before the part', minimum=3)
    fb = ctx.fb
    for name in ('ebusd::Message::prepareMasterPart', 'ebusd::Message::prepareSlave'):
        fn = fb.fn(name)
        ctx.touch(fn)
        adj = set(c for c in fn.all('CXXMemberCallExpr') if (fn.nodes[c].get('callee') or '').endswith('::adjustHeader'))
        writes = [c for c in fn.all('CXXMemberCallExpr') if (fn.nodes[c].get('callee') or '').endswith('DataField::write')]
        ok_rets = []
        for r in fn.all('ReturnStmt'):
            rv = fn.nodes[r].get('val')
            if rv is None:
                continue
            if fn.val(rv) == 0 or (fn.val(rv) is None):
                ok_rets.append(r)
        problems = []
        for r in ok_rets:
            atoms = set((a[0], a[1]) for a in fn.atoms(r))
            rk = fn.key(fn.nodes[r]['val'])
            if any(k.startswith('(%s == #0)' % rk) and not p for k, p in atoms):
                continue   # error return of a non-OK result variable
            if fn.val(fn.nodes[r]['val']) not in (0, None):
                continue
            if not adj or fn.reaches_point(fn.entry, fn.pos(r), adj):
                # is this return reachable with success? returns of the variable `result` after the write check
                if ('(%s == #0)' % rk, True) in atoms or fn.val(fn.nodes[r]['val']) == 0:
                    problems.append('successful return at line %d not preceded by adjustHeader()' % fn.line_of(r))
        # adjustHeader after the data write
        if adj and writes:
            a = sorted(adj)[0]
            if fn.block_of(a) not in fn.reach([fn.block_of(writes[0])]):
                problems.append('adjustHeader() does not follow the data write')
        if not adj:
            problems.append('no adjustHeader() call')
        # NN placeholder pushed first
        pushes = [c for c in fn.all('CXXMemberCallExpr') if (fn.nodes[c].get('callee') or '').endswith('::push_back')]
        if not pushes or fn.val(fn.nodes[sorted(pushes, key=lambda c: (fn.line_of(c), c))[0]]['args'][0]) != 0:
            problems.append('length placeholder is not the first byte of the part')
        ctx.ob('C09.R1', fn, fn.body, not problems, 'NN fix-up in %s' % name.split('::')[-1], '; '.join(problems) or 'adjustHeader() on every successful path')
    fn = fb.fn('ebusd::Message::prepareMaster')
    ctx.touch(fn)
    seq = []
    for c in sorted([c for c in fn.all('CXXMemberCallExpr') if (fn.nodes[c].get('callee') or '').endswith('::push_back')],
                    key=lambda c: (fn.line_of(c), c)):
        seq.append(fn.key(fn.nodes[c]['args'][0]))
    part = [c for c in fn.all('CXXMemberCallExpr') if (fn.nodes[c].get('callee') or '').endswith('::prepareMasterPart')]
    srcp, dstp = fn.P(1), fn.P(2)
    ok = len(seq) == 5 and seq[0] == srcp and set(seq[1:3]) == {'this.m_dstAddress', dstp} and \
        seq[3:] == ['this.m_id[#0]', 'this.m_id[#1]'] and bool(part) and all(fn.line_of(part[0]) > 0 for _ in [0])
    clr = [c for c in fn.all('CXXMemberCallExpr') if (fn.nodes[c].get('callee') or '').endswith('::clear')]
    ok = ok and bool(clr)
    ctx.ob('C09.R1', fn, fn.body, ok, 'header order in prepareMaster', 'pushes %s then the part' % seq)


def r2(ctx):
    ctx.rule('C09.R2', 'Message::create constructs a Message/ChainedMessage only after the total data length (ID + master '
             'data, slave data) was checked against the maximum', minimum=2)
    fb = ctx.fb
    fn = fb.fn('ebusd::Message::create')
    ctx.touch(fn)
    news = [n for n in fn.all('CXXNewExpr') if fn.nodes[n].get('newt', '').endswith('Message')]
    if len(news) < 2:
        raise AnalysisBroken('C09.R2: constructions in Message::create not found')
    # the check: a condition containing getLength(pt_masterData...) and getLength(pt_slaveData...) whose true edge returns
    tests = [b.id for b in fn.blocks.values() if b.cond is not None and 'getLength(' in fn.key(b.cond) and 'maxLength' in fn.key(b.cond)]
    if not tests:
        for n in news:
            ctx.ob('C09.R2', fn, n, False, 'new %s' % fn.nodes[n]['newt'], 'no data length check found in Message::create')
        return
    for n in news:
        ok = fn.block_of(n) not in fn.reach([fn.entry], cut_blocks=tests)
        ctx.ob('C09.R2', fn, n, ok, 'new %s' % fn.nodes[n]['newt'].split('::')[-1], 'dominated by the data length check: %s' % ok)


def r3(ctx):
    ctx.rule('C09.R3', 'every access to the per-part vectors of a chained message (m_ids, m_lengths, m_last*Datas, update '
             'times) with a caller-supplied index is dominated by a bound test of that index against the part count',
             minimum=3)
    fb = ctx.fb
    n = 0
    for fn in fb.functions:
        if fn.cls != 'ebusd::ChainedMessage' or not fn.blocks:
            continue
        params = {p['name'] for p in fn.params if p.get('w')}
        for nid, v in sorted(fn.nodes.items()):
            if (v['k'] == 'CXXOperatorCallExpr' and v.get('op') == '[]' and len(v.get('args', [])) == 2) or \
                    v['k'] == 'ArraySubscriptExpr':
                if v['k'] == 'ArraySubscriptExpr':
                    base, idx = fn.key(v['base']), fn.key(v['idx'])
                else:
                    base = fn.key(v['args'][0])
                    idx = fn.key(v['args'][1])
                if not base.startswith('this.m_') or idx not in params:
                    continue
                n += 1
                ctx.touch(fn)
                atoms = set((a[0], a[1]) for a in fn.atoms(nid))
                ok = any(k.startswith('(%s < ' % idx) and p for k, p in atoms)
                ctx.ob('C09.R3', fn, nid, ok, '%s[%s] in %s' % (base, idx, fn.name.split('::')[-1]),
                       'index bounded by %s' % sorted(k for k, p in atoms if k.startswith('(%s ' % idx)))
    if n < 3:
        raise AnalysisBroken('C09.R3: only %d indexed accesses found' % n)


def r4(ctx):
    ctx.rule('C09.R4', 'ChainedMessage::prepareMasterPart pushes NN = (ID bytes of the part beyond PB SB) + (its data slice) '
             'and then exactly those bytes: one loop over the ID tail starting at 2 and one loop of addData bytes from the '
             'slice start', minimum=1)
    fb = ctx.fb
    fn = fb.fn('ebusd::ChainedMessage::prepareMasterPart')
    ctx.touch(fn)
    pushes = sorted([c for c in fn.all('CXXMemberCallExpr') if (fn.nodes[c].get('callee') or '').endswith('::push_back')],
                    key=lambda c: (fn.line_of(c), c))
    keys = [fn.key(fn.nodes[c]['args'][0]) for c in pushes]
    loops = [(fn.key(fn.nodes[l]['cond']) if 'cond' in fn.nodes[l] else '') for l in fn.all('ForStmt')]
    import re
    ok = False
    okb = False
    m0 = re.match(r'^(?:\(ebusd::symbol_t\))?\(\((\w+)\.size\(\) - #2\) \+ (\w+)\)$', keys[0]) if len(keys) == 3 else None
    if m0:
        idv, addv = m0.group(1), m0.group(2)
        m1 = re.match(r'^(\w+)\[(\w+)\]$', keys[1])
        m2 = re.match(r'^(\w+)\.dataAt\(\((\w+) \+ (\w+)\)\)$', keys[2])
        if m1 and m2 and m1.group(1) == idv:
            allv, posv = m2.group(1), m2.group(2)
            idx = fn.P(0)
            id_init = [fn.key(rhs) for nid, d, rhs, op, lhs in fn.assignments() if d and d.split(':')[-1] == idv and rhs is not None]
            ok = '(%s < %s.size())' % (m1.group(2), idv) in loops and '(%s < %s)' % (m2.group(3), addv) in loops and \
                all('this.m_ids[%s]' % idx in k for k in id_init) and bool(id_init)
            # the ID tail loop starts at 2, the data loop at 0
            starts = {}
            for l in fn.all('ForStmt'):
                for dd in fn.nodes.get(fn.nodes[l].get('init'), {}).get('decls', []):
                    starts[fn.key(fn.nodes[l]['cond']) if 'cond' in fn.nodes[l] else ''] = fn.val(dd.get('init'))
            ok = ok and starts.get('(%s < %s.size())' % (m1.group(2), idv)) == 2 and starts.get('(%s < %s)' % (m2.group(3), addv)) == 0
            rets = [r for r in fn.all('ReturnStmt') if fn.val(fn.nodes[r].get('val')) not in (0, None)]
            # the buffer all field data was written to has no length byte yet: its size is the calculated one (or the
            # header was adjusted before getDataSize() is consulted)
            adj = set(c for c in fn.all('CXXMemberCallExpr') if (fn.nodes[c].get('callee') or '').endswith('::adjustHeader') and
                      fn.key(fn.nodes[c].get('obj', -1)) == allv)
            for r in rets:
                for k, p in ((a[0], a[1]) for a in fn.atoms(r)):
                    if p:
                        continue
                    if '((%s + %s) <= %s.getCalculatedDataSize())' % (posv, addv, allv) in k:
                        okb = True
                    if '((%s + %s) <= %s.getDataSize())' % (posv, addv, allv) in k and adj and \
                            not fn.reaches_point(fn.entry, fn.pos(r), adj):
                        okb = True
    ctx.ob('C09.R4', fn, fn.body, ok, 'NN of a chained part', 'pushes %s; loops %s' % (keys, loops))
    # slice start of part n = sum of the lengths of the parts before it: the running length is added to the start before
    # it is replaced by the length of the next part (which starts as the length of part 0)
    if m0:
        import re as _re
        acc = [(nid, rhs) for nid, d, rhs, op, lhs in fn.assignments() if d and d.split(':')[-1] == posv and op == '+=' and rhs is not None]
        upd = [(nid, rhs) for nid, d, rhs, op, lhs in fn.assignments() if d and d.split(':')[-1] == addv and op == '=' and rhs is not None]
        start_ok = any(fn.key(r_) == 'this.m_lengths[#0]' for n_, r_ in upd)
        nxt = [(n_, r_) for n_, r_ in upd if _re.match(r'^this\.m_lengths\[\(\w+ \+ #1\)\]$', fn.key(r_))]
        order_ok = False
        if len(acc) == 1 and len(nxt) == 1 and fn.key(acc[0][1]) == addv:
            pa, pu = fn.pos(acc[0][0]), fn.pos(nxt[0][0])
            order_ok = pa is not None and pu is not None and pa[0] == pu[0] and pa[1] < pu[1]
        ctx.ob('C09.R4', fn, acc[0][0] if acc else fn.body, start_ok and order_ok, 'slice start of a chained part',
               'running length starts as the length of part 0: %s; it is added to the start before it is replaced by the '
               'next length: %s' % (start_ok, order_ok))
    # the slice must lie inside the written data
    ctx.ob('C09.R4', fn, fn.body, okb, 'slice bound', 'slice start + length checked against the size of the data written (not the unset length byte): %s' % okb)


def r7(ctx):
    ctx.rule('C09.R7', 'the arrival time of a chain part is refreshed whenever the part is stored, changed or not: in both '
             'ChainedMessage::storeLastData(index, ...) overloads every path that reaches combineLastParts() passes '
             'time(&m_last{Master,Slave}UpdateTimes[index]); the re-join needs all part times within its window, a part that '
             'answers with the same bytes again must not keep a stale time', minimum=2)
    fb = ctx.fb
    n = 0
    for fn in fb.fns('ebusd::ChainedMessage::storeLastData'):
        if len(fn.params) != 2 or 'size_t' not in (fn.params[0].get('t') or '') and 'unsigned long' not in (fn.params[0].get('t') or ''):
            continue
        comb = [c for c in fn.all('CXXMemberCallExpr') if (fn.nodes[c].get('callee') or '').endswith('::combineLastParts')]
        stamps = set(c for c in fn.all('CallExpr') if fn.nodes[c].get('callee') == 'time' and fn.nodes[c].get('args') and
                     'UpdateTimes[%s]' % fn.P(0) in fn.key(fn.nodes[c]['args'][0]))
        for c in comb:
            n += 1
            ctx.touch(fn)
            stale = not stamps or fn.reaches_point(fn.entry, fn.pos(c), stamps)
            ctx.ob('C09.R7', fn, c, not stale, 'part time refreshed in storeLastData(%s)' % fn.params[1].get('t', '')[:40],
                   'every path to combineLastParts() passes the time stamp of this part: %s' % (not stale))
    if n < 2:
        raise AnalysisBroken('C09.R7: only %d combineLastParts() calls found in the indexed storeLastData overloads' % n)

def r8(ctx):
    ctx.rule('C09.R8', 'a message to the broadcast address or to a master has no slave part: in DataField::create a field becomes '
             'slave data only if the destination is neither broadcast nor a master (whatever the part column says), otherwise '
             'the value supplied for it is dropped from the telegram that is built', minimum=1)
    fb = ctx.fb
    fn = fb.fn('ebusd::DataField::create')
    ctx.touch(fn)
    slave = None
    for en, e in fb.enums.items():
        for x in e['enumerators']:
            if x['name'] == 'pt_slaveData':
                slave = x['v']
    bc = fn.P(2)
    n = 0
    for nid, d, rhs, op, lhs in fn.assignments():
        if rhs is None or fn.val(rhs) != slave or op not in ('=', 'init'):
            continue
        t = fn.nodes.get(fn.strip(lhs), {}).get('t') if lhs is not None else None
        if lhs is not None and 'PartType' not in (t or ''):
            continue
        n += 1
        atoms = set((a[0], a[1]) for a in fn.atoms(nid))
        ok = (bc, False) in atoms
        ctx.ob('C09.R8', fn, nid, ok, 'field becomes slave data', 'only for a slave destination (%s false): %s' % (bc, ok))
    if n < 1:
        raise AnalysisBroken('C09.R8: assignment of pt_slaveData not found in DataField::create')


def symbol_layout_rule(ctx, rid):
    ctx.rule(rid, 'the inline accessors of SymbolString agree on the telegram layout: the length byte NN is at offset 4 of a master '
             'string and 0 of a slave string (adjustHeader, getDataSize, getCalculatedDataSize, isComplete), the data starts '
             'behind it at 5 / 1 (getDataOffset, dataAt const and non-const); adjustHeader stores size - offset - 1, '
             'getDataSize never reports more bytes than are stored, the const dataAt tests the offset against the size before '
             'it reads', minimum=9, star=True)
    fb = ctx.fb
    seen = set()
    n = 0
    import re
    for fn in fb.functions:
        if not fn.relfile.endswith('lib/ebus/symbol.h') or not fn.blocks or fn.cls != 'ebusd::SymbolString':
            continue
        ident = (fn.name, fn.sig)
        if ident in seen:
            continue
        seen.add(ident)
        base = fn.name.split('::')[-1]
        for x in fn.all('ConditionalOperator'):
            v = fn.nodes[x]
            if fn.key(v['cond']) != 'this.m_isMaster':
                continue
            arms = (fn.val(v['then']), fn.val(v['else']))
            want = (5, 1) if base in ('dataAt', 'getDataOffset') else (4, 0)
            n += 1
            ctx.ob(rid, fn, x, arms == want, 'layout constant in %s' % base, 'master/slave offsets %s, expected %s' % (arms, want))
        if base == 'adjustHeader':
            lo = fn.local_where(lambda k, r: k == '(this.m_isMaster ? #4 : #0)')
            st = [fn.key(rhs) for nid, d, rhs, op, lhs in fn.assignments() if lhs is not None and rhs is not None and
                  lo and fn.key(lhs) == 'this.m_data[%s]' % lo[0]]
            ok = bool(lo) and st == ['(ebusd::symbol_t)((this.m_data.size() - %s) - #1)' % lo[0]]
            n += 1
            ctx.ob(rid, fn, fn.body, ok, 'adjustHeader stores the number of bytes behind NN', '%s' % st)
        if base == 'getDataSize':
            rets = [fn.key(fn.nodes[r]['val']) for r in fn.all('ReturnStmt') if fn.nodes[r].get('val') is not None]
            lo = fn.local_where(lambda k, r: k == '(this.m_isMaster ? #4 : #0)')
            nn = fn.local_where(lambda k, r: lo and k == 'this.m_data[%s]' % lo[0])
            want = '((this.m_data.size() < ((%s + #1) + %s)) ? ((this.m_data.size() - %s) - #1) : %s)' % (lo[0], nn[0], lo[0], nn[0]) if lo and nn else None
            n += 1
            ctx.ob(rid, fn, fn.body, want in rets and '#0' in rets, 'getDataSize is limited to the stored bytes', '%s' % rets)
        if base == 'dataAt' and 'const' in fn.sig.split(')')[-1]:
            off = fn.local_where(lambda k, r: k.startswith('((this.m_isMaster ? #5 : #1) + '))
            reads = [x for x in fn.all('CXXOperatorCallExpr') if fn.nodes[x].get('op') == '[]' and off and
                     fn.key(x) == 'this.m_data[%s]' % off[0]]
            ok = bool(off) and bool(reads) and all(fn.needs_one_of(x, [('(%s < this.m_data.size())' % off[0], True)]) for x in reads)
            n += 1
            ctx.ob(rid, fn, fn.body, ok, 'const dataAt reads inside the stored bytes', 'offset tested against the size before the read: %s' % ok)
    if n < 9:
        raise AnalysisBroken('%s: only %d layout sites found in symbol.h' % (rid, n))


def run(ctx):
    r1(ctx)
    r2(ctx)
    r3(ctx)
    r4(ctx)
    import rules.C08 as c08
    ctx.borrow(c08.run, {'C08.R1': 'C09.R5', 'C08.R2': 'C09.R6'},
               'the built telegram must be identified back to the same definition, and a chained part is stored into the '
               'slot that checkId selects')
    r7(ctx)
    r8(ctx)
    symbol_layout_rule(ctx, 'C09.R9')
