"""helpers shared by rule modules: interval evaluation of bound expressions, small utilities"""
import math

import facts
from facts import AnalysisBroken

# facts the interval evaluator may assume about members; each is established by another rule of this framework
MEMBER_RANGES = {
    # C05.R1 checks every built-in/contributed type against the table: bit counts are 1..32 (strings/date-times up to MAX_LEN*8)
    'this.m_bitCount': (1, 32),
}


class IntervalEnv(object):
    def __init__(self, fn, member_ranges=None):
        self.fn = fn
        self.members = dict(MEMBER_RANGES)
        if member_ranges:
            self.members.update(member_ranges)
        self._defs = None

    def single_def(self, decl):
        """init expression of a local that is defined exactly once (its declaration) and never written again"""
        if self._defs is None:
            self._defs = {}
            for nid, d, rhs, op, lhs in self.fn.assignments():
                if d is not None:
                    self._defs.setdefault(d, []).append((op, rhs))
            # address-taken locals are not trusted
            self._addr = set()
            for nid, v in self.fn.nodes.items():
                if v['k'] == 'UnaryOperator' and v.get('op') == '&':
                    d = self.fn.ref_decl(v['ch'][0])
                    if d:
                        self._addr.add(d)
        ds = self._defs.get(decl, [])
        if len(ds) == 1 and ds[0][0] == 'init' and decl not in self._addr:
            return ds[0][1]
        return None


def type_range(v):
    if v.get('bool'):
        return (0, 1)
    w = v.get('w')
    if w:
        if v.get('sg'):
            return (-(2 ** (w - 1)), 2 ** (w - 1) - 1)
        return (0, 2 ** w - 1)
    return None


def interval(fn, nid, env, depth=0):
    """conservative [lo, hi] of an arithmetic expression, or None if unknown. Values are exact Python numbers."""
    if depth > 20:
        return None
    nid = fn.strip(nid)
    v = fn.nodes.get(nid)
    if v is None:
        return None
    k = v['k']
    if 'v' in v and k not in ('CallExpr', 'CXXMemberCallExpr'):
        return (v['v'], v['v'])
    if k == 'FloatingLiteral':
        try:
            f = float(v.get('fv'))
        except (TypeError, ValueError):
            return None
        return (f, f)
    if k in facts.CAST_KINDS:
        inner = interval(fn, v['ch'][0], env, depth + 1) if v.get('ch') else None
        tr = type_range(v)
        if inner is None:
            return tr
        if tr is None:
            return inner
        if inner[0] >= tr[0] and inner[1] <= tr[1]:
            return inner
        return tr
    if k == 'MemberExpr':
        key = fn.key(nid)
        if key in env.members:
            return env.members[key]
        return type_range(v)
    if k == 'DeclRefExpr':
        if v.get('rk') == 'local':
            init = env.single_def(v.get('decl'))
            if init is not None:
                iv = interval(fn, init, env, depth + 1)
                if iv is not None:
                    tr = type_range(v)
                    if tr and not (iv[0] >= tr[0] and iv[1] <= tr[1]):
                        return tr
                    return iv
        return type_range(v)
    if k == 'UnaryOperator':
        iv = interval(fn, v['ch'][0], env, depth + 1)
        if iv is None:
            return None
        if v['op'] == '-':
            return (-iv[1], -iv[0])
        if v['op'] == '+':
            return iv
        return None
    if k == 'BinaryOperator':
        a = interval(fn, v['lhs'], env, depth + 1)
        b = interval(fn, v['rhs'], env, depth + 1)
        if a is None or b is None:
            return None
        op = v['op']
        if op == '+':
            return (a[0] + b[0], a[1] + b[1])
        if op == '-':
            return (a[0] - b[1], a[1] - b[0])
        if op == '*':
            c = [a[0] * b[0], a[0] * b[1], a[1] * b[0], a[1] * b[1]]
            return (min(c), max(c))
        if op == '/':
            if b[0] <= 0 <= b[1]:
                return None
            c = [a[0] / b[0], a[0] / b[1], a[1] / b[0], a[1] / b[1]]
            lo, hi = min(c), max(c)
            if not v.get('fl'):
                lo, hi = math.floor(lo) if lo < 0 else int(lo), int(hi) if hi >= 0 else math.ceil(hi)
            return (lo, hi)
        if op == '<<':
            if b[0] < 0 or b[1] > 64 or a[0] < 0:
                return None
            return (a[0] << int(b[0]), a[1] << int(b[1]))
        if op == '>>':
            if b[0] < 0 or a[0] < 0:
                return None
            return (a[0] >> int(min(b[1], 64)), a[1] >> int(b[0]))
        if op == '&':
            if a[0] >= 0 and b[0] >= 0:
                return (0, min(a[1], b[1]))
            return None
        if op == '%':
            if b[0] > 0 and a[0] >= 0:
                return (0, b[1] - 1)
            return None
        return None
    if k == 'CallExpr':
        cal = (v.get('callee') or '').split('::')[-1]
        if cal in ('exp2', 'exp2f', 'exp2l') and v.get('args'):
            a = interval(fn, v['args'][0], env, depth + 1)
            if a is None or a[1] > 1000 or a[0] < -1000:
                return None
            return (2.0 ** a[0], 2.0 ** a[1])
        return None
    if k in ('ConditionalOperator',):
        a = interval(fn, v['then'], env, depth + 1)
        b = interval(fn, v['else'], env, depth + 1)
        if a is None or b is None:
            return None
        return (min(a[0], b[0]), max(a[1], b[1]))
    return None


# ---------------------------------------------------------------------------
# path-sensitive integer bounds (used for shift amounts, subscripts, key lengths)

def _tr_or(v, default=(-(2 ** 63), 2 ** 64 - 1)):
    return type_range(v) or default


class Bounds(object):
    """bounds of integer expressions at a program point, over all feasible paths of one function.
    Tracked variables (locals, parameters, members of this) get an interval that is updated by assignments and
    refined by branch conditions; loops are unrolled while the abstract state changes and widened after that."""

    def __init__(self, fn, member_ranges=None, param_ranges=None, widen_after=40):
        self.fn = fn
        self.members = dict(MEMBER_RANGES)
        if member_ranges:
            self.members.update(member_ranges)
        self.params = dict(param_ranges or {})
        self.widen_after = widen_after
        self._full = {}

    # -- expression evaluation under a state --------------------------------
    def key_of(self, nid):
        fn = self.fn
        s = fn.strip(nid)
        v = fn.nodes.get(s, {})
        if v.get('k') == 'DeclRefExpr' and v.get('rk') in ('local', 'param') and (v.get('w') or v.get('bool')):
            return v.get('name')
        if v.get('k') == 'MemberExpr' and v.get('this') and v.get('rk') == 'field' and v.get('w'):
            return 'this.' + v.get('name')
        if v.get('k') == 'MemberExpr' and v.get('rk') == 'field' and v.get('w') and v.get('ch'):
            b = fn.nodes.get(fn.strip(v['ch'][0]), {})
            if b.get('k') == 'DeclRefExpr' and b.get('rk') in ('local', 'param'):
                return '%s.%s' % (b.get('name'), v.get('name'))
        return None

    def initial(self, key, v):
        if key in self.members:
            r = self.members[key]
        elif key in self.params:
            r = self.params[key]
        else:
            r = _tr_or(v)
        self._full.setdefault(key, _tr_or(v) if key not in self.members else r)
        return r

    def ev(self, nid, state, depth=0):
        fn = self.fn
        if depth > 24:
            return None
        s = fn.strip(nid)
        v = fn.nodes.get(s)
        if v is None:
            return None
        k = v['k']
        if 'v' in v and k not in ('CallExpr', 'CXXMemberCallExpr'):
            return (v['v'], v['v'])
        key = self.key_of(s)
        if key is not None:
            if key in state:
                return state[key]
            return self.initial(key, v)
        if k == 'FloatingLiteral':
            try:
                f = float(v.get('fv'))
                return (f, f)
            except (TypeError, ValueError):
                return None
        if k in facts.CAST_KINDS:
            inner = self.ev(v['ch'][0], state, depth + 1) if v.get('ch') else None
            tr = type_range(v)
            if inner is None:
                return tr
            if tr is None or (inner[0] >= tr[0] and inner[1] <= tr[1]):
                return inner
            return tr
        if k == 'UnaryOperator':
            op = v['op']
            inner = self.ev(v['ch'][0], state, depth + 1)
            if inner is None:
                return type_range(v)
            if op == '-':
                return (-inner[1], -inner[0])
            if op == '+':
                return inner
            if op in ('++', '--') and v.get('post'):
                # the side effect is already applied when the enclosing expression is evaluated
                d = 1 if op == '++' else -1
                return (inner[0] - d, inner[1] - d)
            if op in ('++', '--'):
                return inner
            if op == '!':
                return (0, 1)
            return type_range(v)
        if k == 'BinaryOperator':
            op = v['op']
            if op in ('<', '>', '<=', '>=', '==', '!=', '&&', '||'):
                return (0, 1)
            a = self.ev(v['lhs'], state, depth + 1)
            b = self.ev(v['rhs'], state, depth + 1)
            r = arith(op, a, b, bool(v.get('fl')))
            tr = type_range(v)
            if r is None:
                return tr
            if tr and not (r[0] >= tr[0] and r[1] <= tr[1]):
                # wrap-around possible: fall back to the type range
                return tr
            return r
        if k == 'ConditionalOperator':
            a = self.ev(v['then'], state, depth + 1)
            b = self.ev(v['else'], state, depth + 1)
            if a is None or b is None:
                return type_range(v)
            return (min(a[0], b[0]), max(a[1], b[1]))
        if k == 'CallExpr':
            cal = (v.get('callee') or '').split('::')[-1]
            args = v.get('args', [])
            if cal in ('min', 'max') and len(args) == 2:
                a = self.ev(args[0], state, depth + 1)
                b = self.ev(args[1], state, depth + 1)
                if a and b:
                    if cal == 'min':
                        return (min(a[0], b[0]), min(a[1], b[1]))
                    return (max(a[0], b[0]), max(a[1], b[1]))
            if cal in ('exp2', 'exp2f') and args:
                a = self.ev(args[0], state, depth + 1)
                if a and -1000 < a[0] and a[1] < 1000:
                    return (2.0 ** a[0], 2.0 ** a[1])
            return type_range(v)
        if k == 'UnaryExprOrTypeTraitExpr' and 'v' in v:
            return (v['v'], v['v'])
        return type_range(v)

    # -- state transfer ----------------------------------------------------
    def slice_keys(self, roots):
        """tracked variables: those in the queried expressions plus everything they are compared with / computed from"""
        fn = self.fn
        keys = set()
        for r in roots:
            for x in fn.walk(r):
                k = self.key_of(x)
                if k:
                    keys.add(k)
        # switch operands select whole regions: always track them
        for b in fn.blocks.values():
            if b.cond is not None and b.tk == 'SwitchStmt':
                k = self.key_of(b.cond)
                if k:
                    keys.add(k)
        # variables of loop / branch conditions steer how often tracked variables are updated
        condkeys = set()
        for b in fn.blocks.values():
            if b.cond is not None and b.tk != 'SwitchStmt':
                for x in fn.walk(b.cond):
                    k = self.key_of(x)
                    if k:
                        condkeys.add(k)
        if len(condkeys | keys) <= 14:
            keys |= condkeys
        changed = True
        while changed:
            changed = False
            for nid, d, rhs, op, lhs in fn.assignments():
                tk = None
                if lhs is not None:
                    tk = self.key_of(lhs)
                elif d:
                    tk = d.split(':')[-1] if not d.startswith('this.') else d
                if tk in keys and rhs is not None:
                    for x in fn.walk(rhs):
                        k = self.key_of(x)
                        if k and k not in keys:
                            keys.add(k)
                            changed = True
            for b in fn.blocks.values():
                if b.cond is None:
                    continue
                ks = set()
                for x in fn.walk(b.cond):
                    k = self.key_of(x)
                    if k:
                        ks.add(k)
                if ks & keys and not ks <= keys and len(ks) <= 4:
                    keys |= ks
                    changed = True
        return keys

    @staticmethod
    def _drop_alias(st, key):
        al = st.get('__alias__')
        if al:
            al2 = tuple(p for p in al if key not in p)
            if al2:
                st['__alias__'] = al2
            else:
                st.pop('__alias__', None)

    def _assign(self, state, key, iv, v, copy_of=None):
        tr = self.initial(key, v) if key in self.members else _tr_or(v)
        if key in self.members or iv is None:
            pass
        st = dict(state)
        self._full.setdefault(key, self.members.get(key) or _tr_or(v))
        self._drop_alias(st, key)
        if copy_of is not None and copy_of != key:
            st['__alias__'] = tuple(sorted(set(st.get('__alias__', ())) | {tuple(sorted((key, copy_of)))}))
        if iv is None:
            st[key] = _tr_or(v)
        else:
            t = _tr_or(v)
            if iv[0] < t[0] or iv[1] > t[1]:
                st[key] = t
            else:
                st[key] = iv
        return st

    def transfer(self, state, e, keys):
        fn = self.fn
        v = fn.nodes[e]
        k = v['k']
        if k in ('BinaryOperator', 'CompoundAssignOperator') and v.get('op', '').endswith('=') and \
                v['op'] not in ('==', '!=', '<=', '>='):
            key = self.key_of(v['lhs'])
            if key in keys:
                lv = fn.nodes[fn.strip(v['lhs'])]
                if v['op'] == '=':
                    iv = self.ev(v['rhs'], state)
                    ck = self.key_of(fn.strip(v['rhs'], casts=False))
                    if ck in keys:
                        return self._assign(state, key, iv, lv, copy_of=ck)
                else:
                    a = self.ev(v['lhs'], state)
                    b = self.ev(v['rhs'], state)
                    iv = arith(v['op'][:-1], a, b, False)
                return self._assign(state, key, iv, lv)
        elif k == 'UnaryOperator' and v.get('op') in ('++', '--'):
            key = self.key_of(v['ch'][0])
            if key in keys:
                lv = fn.nodes[fn.strip(v['ch'][0])]
                a = self.ev(v['ch'][0], state)
                d = 1 if v['op'] == '++' else -1
                iv = (a[0] + d, a[1] + d) if a else None
                return self._assign(state, key, iv, lv)
        elif k == 'DeclStmt':
            st = state
            for dd in v.get('decls', []):
                if dd['name'] in keys and (dd.get('w') or dd.get('bool')):
                    iv = self.ev(dd['init'], st) if 'init' in dd else None
                    ck = self.key_of(dd['init']) if 'init' in dd else None
                    st = self._assign(st, dd['name'], iv, dd, copy_of=ck if ck in keys else None)
            return st
        elif k in ('CallExpr', 'CXXMemberCallExpr', 'CXXConstructExpr'):
            st = None
            sig = v.get('sig') or ''
            try:
                ptypes = [p.strip() for p in sig[sig.index('(') + 1:sig.rindex(')')].split(',')]
            except ValueError:
                ptypes = []
            for i, a in enumerate(v.get('args', [])):
                s = fn.strip(a)
                sv = fn.nodes.get(s, {})
                tgt = None
                if sv.get('k') == 'UnaryOperator' and sv.get('op') == '&':
                    tgt = self.key_of(sv['ch'][0])
                    tv = fn.nodes.get(fn.strip(sv['ch'][0]), {})
                elif i < len(ptypes) and ptypes[i].endswith('&') and not ptypes[i].startswith('const'):
                    tgt = self.key_of(a)
                    tv = sv
                if tgt in keys:
                    st = dict(st if st is not None else state)
                    st[tgt] = _tr_or(tv)
                    self._drop_alias(st, tgt)
            if k == 'CXXMemberCallExpr' and not sig.endswith(' const') and v.get('obj') is not None and \
                    fn.nodes.get(fn.strip(v['obj']), {}).get('k') == 'CXXThisExpr':
                # non-const method on this: members may change
                st = dict(st if st is not None else state)
                for kk in list(st.keys()):
                    if kk.startswith('this.') and kk not in self.members:
                        del st[kk]
            if st is not None:
                return st
        return state

    def refine(self, state, dnf, keys):
        """returns refined state or None if infeasible"""
        fn = self.fn
        results = []
        for conj in dnf:
            st = dict(state)
            feasible = True
            for a in conj:
                if a[0] != 'cmp':
                    continue
                l, op, r = a[1], a[2], a[3]
                for (x, y, o) in ((l, r, op), (r, l, facts.CMP_MIRROR[op])):
                    if isinstance(x, tuple):
                        continue
                    key = self.key_of(x)
                    if key is None or key not in keys:
                        continue
                    xv = fn.nodes[fn.strip(x)]
                    cur = st.get(key) or self.initial(key, xv)
                    oth = (y[1], y[1]) if isinstance(y, tuple) else self.ev(y, st)
                    if oth is None:
                        continue
                    lo, hi = cur
                    if o == '<':
                        hi = min(hi, oth[1] - 1)
                    elif o == '<=':
                        hi = min(hi, oth[1])
                    elif o == '>':
                        lo = max(lo, oth[0] + 1)
                    elif o == '>=':
                        lo = max(lo, oth[0])
                    elif o == '==':
                        lo, hi = max(lo, oth[0]), min(hi, oth[1])
                    elif o == '!=':
                        if oth[0] == oth[1]:
                            if lo == oth[0]:
                                lo += 1
                            if hi == oth[0]:
                                hi -= 1
                    if lo > hi:
                        feasible = False
                        break
                    st[key] = (lo, hi)
                    for pa in st.get('__alias__', ()):
                        if key in pa:
                            other = pa[0] if pa[1] == key else pa[1]
                            oc = st.get(other)
                            if oc is not None or other in self._full:
                                oc = oc or self._full[other]
                                nl, nh2 = max(oc[0], lo), min(oc[1], hi)
                                if nl > nh2:
                                    feasible = False
                                    break
                                st[other] = (nl, nh2)
                            else:
                                st[other] = (lo, hi)
                if not feasible:
                    break
            if feasible:
                results.append(st)
        if not results:
            return None
        if len(results) == 1:
            return results[0]
        out = {}
        for key in set().union(*[set(r.keys()) for r in results]):
            if key in ('__alias__', '__it__'):
                continue
            ivs = [r.get(key) for r in results]
            if any(i is None for i in ivs):
                continue
            out[key] = (min(i[0] for i in ivs), max(i[1] for i in ivs))
        return out

    def at(self, queries):
        """queries: list of (site node, expression node). Returns {index: (lo, hi, witness path)} hull over all
        feasible paths; a missing index means the site is unreachable."""
        fn = self.fn
        keys = self.slice_keys([q[1] for q in queries])
        sites = {}
        for i, (site, expr) in enumerate(queries):
            p = fn.pos(site)
            if p is None:
                continue
            blk = fn.blocks[p[0]]
            el = blk.elems[p[1]] if p[1] < len(blk.elems) else None
            sites.setdefault(el, []).append(i)
        res = {}
        visits = {}
        seen_iv = {}
        growth = {}

        def freeze(st):
            return tuple(sorted(st.items()))

        def on_elem(user, e, path):
            st = dict(user)
            if e in sites:
                for i in sites[e]:
                    iv = self.ev(queries[i][1], st)
                    if iv is None:
                        iv = _tr_or(fn.nodes[fn.strip(queries[i][1])])
                    old = res.get(i)
                    if old is None:
                        res[i] = (iv[0], iv[1], path, path)
                    else:
                        lo, hi, plo, phi = old
                        if iv[0] < lo:
                            lo, plo = iv[0], path
                        if iv[1] > hi:
                            hi, phi = iv[1], path
                        res[i] = (lo, hi, plo, phi)
            st2 = self.transfer(st, e, keys)
            return freeze(st2) if st2 is not st else user

        ex = None

        selectors = sorted(k for k in (self.key_of(bb.cond) for bb in fn.blocks.values()
                                       if bb.cond is not None and bb.tk == 'SwitchStmt') if k)

        def on_edge(user, b, j, dnf):
            st = self.refine(dict(user), dnf, keys)
            if st is None:
                return None
            tgt = fn.blocks[b].succs[j]
            # widening history is kept per block and per value of the switch operands (mode variables such as a
            # type selector split the function into independent regimes)
            tgt = (tgt, tuple(st.get(k) for k in selectors))
            cnt = visits.get(tgt, 0) + 1
            visits[tgt] = cnt
            if cnt > self.widen_after:
                # widening: hull with everything seen at this block, then the full range if it keeps growing
                hist = seen_iv.setdefault(tgt, {})
                for key, iv in list(st.items()):
                    if key == '__alias__':
                        continue
                    h = hist.get(key)
                    if h is None:
                        hist[key] = iv
                    else:
                        nh = (min(h[0], iv[0]), max(h[1], iv[1]))
                        if nh != h:
                            # a hull that keeps growing (loop counters) is given up after a dozen growth steps; a
                            # cyclic variable (wrapped byte counters) stabilises before that
                            g = growth.get((tgt, key), 0) + 1
                            growth[(tgt, key)] = g
                            if g > 12:
                                nh = self._full.get(key, (-(2 ** 63), 2 ** 64 - 1))
                        hist[key] = nh
                        st[key] = nh
            return freeze(st)

        ex = facts.Explorer(fn, on_elem=on_elem, on_edge=on_edge)
        self.explorer = ex
        ex.run(fn.entry, 0, freeze({}), max_states=400000)
        return res


def arith(op, a, b, floating):
    if a is None or b is None:
        return None
    if op == '+':
        return (a[0] + b[0], a[1] + b[1])
    if op == '-':
        return (a[0] - b[1], a[1] - b[0])
    if op == '*':
        c = [a[0] * b[0], a[0] * b[1], a[1] * b[0], a[1] * b[1]]
        return (min(c), max(c))
    if op == '/':
        if b[0] <= 0 <= b[1]:
            return None
        c = [a[0] / b[0], a[0] / b[1], a[1] / b[0], a[1] / b[1]]
        lo, hi = min(c), max(c)
        if not floating:
            lo = math.floor(lo) if lo < 0 else int(lo)
            hi = int(hi) if hi >= 0 else math.ceil(hi)
        return (lo, hi)
    if op == '%':
        if b[0] > 0 and a[0] >= 0:
            return (0, min(a[1], b[1] - 1))
        return None
    if op == '<<':
        if b[0] < 0 or b[1] > 64 or a[0] < 0:
            return None
        return (int(a[0]) << int(b[0]), int(a[1]) << int(b[1]))
    if op == '>>':
        if b[0] < 0 or a[0] < 0:
            return None
        return (int(a[0]) >> int(min(b[1], 64)), int(a[1]) >> int(b[0]))
    if op == '&':
        if a[0] >= 0 and b[0] >= 0:
            return (0, min(a[1], b[1]))
        if b[0] >= 0:
            return (0, b[1])
        if a[0] >= 0:
            return (0, a[1])
        return None
    if op == '|' or op == '^':
        if a[0] >= 0 and b[0] >= 0:
            m = max(a[1], b[1])
            bits = int(m).bit_length()
            return (0, (1 << bits) - 1)
        return None
    return None


def _norm_name(s):
    s = s or ''
    if s.startswith('m_'):
        s = s[2:]
    return s.replace('_', '').lower()


def swapped_args_rule(ctx, rid, files, minimum):
    """argument/parameter name agreement: at a call of a function of the repository whose arguments are plain names
    (members m_x, locals, parameters), two arguments must not be passed crosswise, i.e. argument i carries the name of
    parameter j while argument j carries the name of parameter i (names compared without the m_ prefix, case and
    underscores).  Only calls where at least two arguments are named like parameters of the callee are instances."""
    fb = ctx.fb
    byname = {}
    for f in fb.functions:
        if f.params:
            byname.setdefault((f.name, f.sig), f)
    n = 0
    seen = set()
    for fn in fb.functions:
        if not fn.relfile.startswith(files) or not fn.nodes:
            continue
        ident = (fn.name, fn.sig)
        if ident in seen:
            continue
        seen.add(ident)
        for c, v in sorted(fn.nodes.items()):
            if v['k'] not in ('CallExpr', 'CXXMemberCallExpr', 'CXXConstructExpr') or not v.get('repo'):
                continue
            cal = byname.get((v.get('callee'), v.get('sig')))
            args = v.get('args', [])
            if cal is None or len(args) < 2 or len(cal.params) < len(args):
                continue
            pn = [_norm_name(p.get('name')) for p in cal.params[:len(args)]]
            an = []
            for a in args:
                x = fn.nodes.get(fn.strip(a, casts=True), {})
                an.append(_norm_name(x.get('name')) if x.get('k') in ('MemberExpr', 'DeclRefExpr') and x.get('rk') != 'method' else '')
            named = [i for i in range(len(args)) if an[i] and an[i] in pn]
            if len(named) < 2:
                continue
            n += 1
            ctx.touch(fn)
            swaps = [(i, j) for i in named for j in named if i < j and an[i] != an[j] and an[i] == pn[j] and an[j] == pn[i]]
            ctx.ob(rid, fn, c, not swaps, 'arguments of %s' % (v.get('callee') or '').split('::')[-1],
                   'crosswise: %s' % ', '.join('argument %d is "%s" but parameter %d is "%s"' % (i + 1, an[i], i + 1, pn[i]) for i, j in swaps)
                   if swaps else 'named arguments in parameter order')
    if n < minimum:
        from facts import AnalysisBroken
        raise AnalysisBroken('%s: only %d calls with arguments named like parameters found' % (rid, n))


_FIND = ('find', 'rfind', 'find_first_of', 'find_last_of', 'find_first_not_of', 'find_last_not_of')
_SHRINK = ('operator=', 'erase', 'resize', 'clear', 'assign', 'swap', 'pop_back')
_POSUSE = ('substr', 'at', 'erase', 'insert', 'replace', 'compare')


def stale_position_rule(ctx, rid, scope, minimum):
    """a position found in a std::string (pos = s.find...(...)) is valid for that content of s only: a use of the position as
    the start argument of s.substr/at/erase/insert/replace/compare or as subscript s[pos...] must not be reachable from the
    find through a statement that replaces or shrinks s (=, erase, resize, clear, assign, swap, pop_back) unless the
    position is assigned again in between.  substr(p) and at(p) throw std::out_of_range for p beyond the (new) size."""
    fb = ctx.fb
    seen = set()
    n = 0
    for fn in fb.functions:
        if not scope(fn) or not fn.blocks or (fn.name, fn.sig) in seen:
            continue
        seen.add((fn.name, fn.sig))
        finds = []
        for nid, d, rhs, op, lhs in fn.assignments():
            if rhs is None or not d:
                continue
            r = fn.nodes[fn.strip(rhs, casts=True)]
            if r.get('k') == 'CXXMemberCallExpr' and (r.get('callee') or '').split('::')[-1] in _FIND and \
                    (r.get('cls') or '').startswith('std::basic_string') and 'obj' in r:
                finds.append((nid, d, fn.key(r['obj'])))
        if not finds:
            continue
        calls = [(c, fn.nodes[c]) for c in fn.all('CXXMemberCallExpr', 'CXXOperatorCallExpr')]
        for f, pd, sk in finds:
            pw = set(x for x, d, rhs, op, lhs in fn.assignments() if d == pd and x != f)
            uses, mods = [], []
            for c, v in calls:
                cal = (v.get('callee') or '').split('::')[-1]
                if v['k'] == 'CXXMemberCallExpr' and 'obj' in v and fn.key(v['obj']) == sk:
                    if cal in _POSUSE and v.get('args') and any(fn.nodes[x].get('decl') == pd for x in fn.walk(v['args'][0])):
                        uses.append(c)
                    if cal in _SHRINK:
                        mods.append(c)
                elif v['k'] == 'CXXOperatorCallExpr' and v.get('args') and fn.key(v['args'][0]) == sk:
                    if v.get('op') == '[]' and any(fn.nodes[x].get('decl') == pd for x in fn.walk(v['args'][1])):
                        uses.append(c)
                    if v.get('op') == '=':
                        mods.append(c)
            pf = fn.pos(f)
            for u in uses:
                pu = fn.pos(u)
                if pf is None or pu is None:
                    continue
                n += 1
                ctx.touch(fn)
                stale = []
                for m in mods:
                    pm = fn.pos(m)
                    if pm is None:
                        continue
                    if fn.reaches_point(pf[0], pm, pw, start_idx=pf[1] + 1) and \
                            fn.reaches_point(pm[0], pu, pw | {f}, start_idx=pm[1] + 1):
                        stale.append(fn.line_of(m))
                ctx.ob(rid, fn, u, not stale, 'position from line %d used on %s' % (fn.line_of(f), sk),
                       '%s is replaced or shortened at line(s) %s between the search and this use' % (sk, sorted(set(stale)))
                       if stale else 'the string is not replaced or shortened between the search and the use')
    if n < minimum:
        from facts import AnalysisBroken
        raise AnalysisBroken('%s: only %d uses of searched positions found' % (rid, n))


_STR_SHRINK = ('operator=', 'erase', 'resize', 'clear', 'assign', 'swap', 'pop_back')


def _minval(fn, x, depth=0):
    """a lower bound of a non-negative integer expression (constants, ?:, +, *, casts), None if unknown"""
    if isinstance(x, tuple):
        return x[1]
    x = fn.strip(x, casts=True)
    v = fn.nodes.get(x, {})
    if fn.cval(x) is not None:
        return fn.cval(x)
    if depth > 6:
        return None
    if v.get('k') == 'DeclRefExpr' and v.get('rk') == 'local':
        src = fn.def_expr(x)
        if src != x:
            return _minval(fn, src, depth + 1)
    if v.get('k') == 'ConditionalOperator':
        a, b = _minval(fn, v['then'], depth + 1), _minval(fn, v['else'], depth + 1)
        return None if a is None or b is None else min(a, b)
    if v.get('k') == 'BinaryOperator' and v.get('op') in ('+', '*'):
        a, b = _minval(fn, v['lhs'], depth + 1), _minval(fn, v['rhs'], depth + 1)
        if a is None or b is None or a < 0 or b < 0:
            return None
        return a + b if v['op'] == '+' else a * b
    return None


def substr_bound_rule(ctx, rid, scope, minimum):
    """s.substr(k, ...) with a constant start k > 0 throws std::out_of_range when s is shorter than k.  For every such call the
    length that is known for s on each path (from tests of size()/length()/empty(), of a local copy of the size, of a
    prefix comparison s.substr(0, n) == "literal" or of a character s[i] == c) must reach k.  A call whose string is never
    tested on the way is reported as not decided; a call whose string is tested but only for a shorter length is a
    violation (the test shows the length matters and is too weak)."""
    import re
    import facts
    fb = ctx.fb
    seen = set()
    n = 0
    for fn in fb.functions:
        if not scope(fn) or not fn.blocks or (fn.name, fn.sig) in seen:
            continue
        seen.add((fn.name, fn.sig))
        targets = []
        for c in fn.all('CXXMemberCallExpr'):
            v = fn.nodes[c]
            if (v.get('callee') or '').split('::')[-1] != 'substr' or not (v.get('cls') or '').startswith('std::basic_string') or \
                    not v.get('args') or 'obj' not in v:
                continue
            k = fn.cval(v['args'][0])
            if k is None or k <= 0:
                continue
            targets.append((c, fn.key(v['obj']), k))
        for c, sk, k in targets:
            n += 1
            ctx.touch(fn)
            if not re.match(r'^[\w.*]+$', sk):
                ctx.ob(rid, fn, c, False, '%s.substr(%d...)' % (sk, k), 'the string is a temporary (not decided here)', status='unclassified')
                continue
            sizes = ('%s.size()' % sk, '%s.length()' % sk)
            assigns = {}
            for nid, d, rhs, op, lhs in fn.assignments():
                if d and ':' in d:
                    assigns[nid] = (d.split(':')[-1], fn.key(fn.strip(rhs, casts=True)) if rhs is not None else None)
            mods = set()
            for m, mv in fn.nodes.items():
                if mv['k'] == 'CXXMemberCallExpr' and 'obj' in mv and fn.key(mv['obj']) == sk and \
                        (mv.get('callee') or '').split('::')[-1] in _STR_SHRINK:
                    mods.add(m)
                if mv['k'] == 'CXXOperatorCallExpr' and mv.get('op') == '=' and mv.get('args') and fn.key(mv['args'][0]) == sk:
                    mods.add(m)
            res = {'lb': None, 'tested': False}
            # positions found in sk: local -> start of the search (a hit at position p >= start means size > p)
            founds = {}
            for nid, d, rhs, op, lhs in fn.assignments():
                if d and ':' in d and rhs is not None:
                    r = fn.nodes[fn.strip(rhs, casts=True)]
                    if r.get('k') == 'CXXMemberCallExpr' and 'obj' in r and fn.key(r['obj']) == sk and \
                            (r.get('callee') or '').split('::')[-1] in _FIND:
                        frm = fn.cval(r['args'][1]) if len(r.get('args', [])) > 1 else 0
                        founds[nid] = (d.split(':')[-1], frm if frm is not None else 0)

            def on_elem(user, e, path):
                lb, al, tested = user
                if e in assigns:
                    nm, rk = assigns[e]
                    al = frozenset(x for x in al if x != nm and not (isinstance(x, tuple) and x[0] == nm))
                    if rk in sizes:
                        al = frozenset(set(al) | {nm})
                    if e in founds:
                        al = frozenset(set(al) | {founds[e]})
                if e in mods and e != c:
                    lb, al = 0, frozenset()
                if e == c:
                    res['lb'] = lb if res['lb'] is None else min(res['lb'], lb)
                    res['tested'] = res['tested'] or tested
                    return None
                return (lb, al, tested)

            def bound_of(a, lb, al):
                """(new lower bound implied by the atom, whether it is a test of the length of sk)"""
                xs = set(sizes) | set(x for x in al if not isinstance(x, tuple))
                fpos = dict(x for x in al if isinstance(x, tuple))
                if a[0] == 'cmp':
                    lk0 = fn.key(a[1])
                    rk0 = ('#%d' % a[3][1]) if isinstance(a[3], tuple) else fn.key(a[3])
                    if lk0 in fpos and a[2] == '!=' and rk0 == '#18446744073709551615':
                        return fpos[lk0] + 1, True
                if a[0] == 'b':
                    key, pol = a[1], a[2]
                    if key == '%s.empty()' % sk:
                        return (1 if not pol else 0), True
                    m = re.match(r'^std::operator==\(%s\.substr\(#0,#(\d+)\),"(.*)"\)$' % re.escape(sk), key)
                    if m and pol:
                        return min(int(m.group(1)), len(m.group(2))), True
                    return 0, False
                l, op, r = a[1], a[2], a[3]
                lk = fn.key(l)
                rk = ('#%d' % r[1]) if isinstance(r, tuple) else fn.key(r)
                m = re.match(r'^%s\[#(\d+)\]$' % re.escape(sk), lk)
                if m and op == '==' and rk.startswith('#') and rk != '#0':
                    return int(m.group(1)) + 1, True
                m = re.match(r'^%s\.substr\(#0,#(\d+)\)$' % re.escape(sk), lk)
                if m and op == '==' and rk.startswith('"'):
                    return min(int(m.group(1)), len(rk) - 2), True
                if lk in xs:
                    mv = _minval(fn, r)
                elif rk in xs:
                    mv = _minval(fn, l)
                    op = {'<': '>', '>': '<', '<=': '>=', '>=': '<=', '==': '==', '!=': '!='}[op]
                else:
                    return 0, False
                if mv is None:
                    return 0, True
                if op == '>=':
                    return mv, True
                if op == '>':
                    return mv + 1, True
                if op == '==':
                    return mv, True
                if op == '!=' and mv == lb:
                    return lb + 1, True
                return 0, True

            def on_edge(user, b, j, dnf):
                lb, al, tested = user
                best = None
                for conj in dnf:
                    cl = lb
                    for a in conj:
                        nb, t = bound_of(a, cl, al)
                        tested = tested or t
                        cl = max(cl, nb)
                    best = cl if best is None else min(best, cl)
                return (best if best is not None else lb, al, tested)
            ex = facts.Explorer(fn, on_elem=on_elem, on_edge=on_edge)
            # only conditions on the string itself need to be remembered along a path (keeps large handlers tractable)
            ex.corr = set(k for k in ex.corr if re.search(r'(?<![\w.])%s(?![\w])' % re.escape(sk), k))
            ex.run(fn.entry, 0, (0, frozenset(), False), max_states=1000000)
            if res['lb'] is None:
                ctx.ob(rid, fn, c, True, '%s.substr(%d...)' % (sk, k), 'not reachable', nontrivial=False)
            elif res['lb'] >= k:
                ctx.ob(rid, fn, c, True, '%s.substr(%d...)' % (sk, k), 'at least %d characters on every path' % res['lb'])
            elif not res['tested']:
                ctx.ob(rid, fn, c, False, '%s.substr(%d...)' % (sk, k), 'the length of %s is not tested in this function (caller contract, not decided here)' % sk,
                       status='unclassified')
            else:
                ctx.ob(rid, fn, c, False, '%s.substr(%d...)' % (sk, k), 'the tests on the way only guarantee %d character(s)' % res['lb'])
    if n < minimum:
        from facts import AnalysisBroken
        raise AnalysisBroken('%s: only %d substr calls with a constant start found' % (rid, n))


def dead_store_rule(ctx, rid, scope, is_source, minimum):
    """a value that is fetched on purpose (is_source(fn, rhs node): e.g. the element of a defaults map found by key) and assigned to a
    local is used: on some path from the assignment the local is read before it is overwritten.  A store nobody reads means the
    value was put into the wrong variable."""
    fb = ctx.fb
    seen = set()
    n = 0
    for fn in fb.functions:
        if not scope(fn) or not fn.blocks or (fn.name, fn.sig) in seen:
            continue
        seen.add((fn.name, fn.sig))
        decls = set()
        for x, v in fn.nodes.items():
            if v['k'] == 'DeclStmt':
                for d in v.get('decls', []):
                    if not (d.get('t') or '').rstrip().endswith(('&', '*')) and not d.get('static'):
                        decls.add(d['decl'])
        if not decls:
            continue
        reads = {}
        addr = set()
        for x, v in fn.nodes.items():
            if v['k'] == 'DeclRefExpr' and v.get('decl') in decls:
                reads.setdefault(v['decl'], []).append(x)
            if v['k'] == 'UnaryOperator' and v.get('op') == '&':
                d = fn.ref_decl(v['ch'][0])
                if d:
                    addr.add(d)
        asg = list(fn.assignments())
        for nid, d, rhs, op, lhs in asg:
            if d not in decls or op != '=' or d in addr or lhs is None or rhs is None:
                continue
            if fn.nodes[fn.strip(lhs)].get('k') != 'DeclRefExpr' or not is_source(fn, rhs):
                continue
            p = fn.pos(nid)
            if p is None:
                continue
            n += 1
            ctx.touch(fn)
            kills = {}
            for n2, d2, r2, o2, l2 in asg:
                if d2 == d and o2 == '=' and n2 != nid and l2 is not None and fn.nodes[fn.strip(l2)].get('k') == 'DeclRefExpr':
                    kills[n2] = set(fn.walk(l2))
            own = set(fn.walk(lhs))
            used = False
            for r in reads.get(d, []):
                if r in own or any(r in t for t in kills.values()):
                    continue
                pr = fn.pos(r)
                if pr is None or fn.reaches_point(p[0], pr, set(kills), start_idx=p[1] + 1):
                    used = True
                    break
            ctx.ob(rid, fn, nid, used, 'fetched value stored in %s (%s)' % (d.split(':')[-1], fn.name.split('::')[-1]),
                   'read afterwards: %s' % used)
    if n < minimum:
        from facts import AnalysisBroken
        raise AnalysisBroken('%s: only %d stores of fetched values found' % (rid, n))


def size_minus_rule(ctx, rid, scope, minimum):
    """s.length() - k (k >= 1) used as a position of s (subscript, at, erase, substr, insert, replace) wraps around to a huge
    value when s is shorter than k: erase/at/substr then throw std::out_of_range, a subscript reads outside.  Every such use
    is reached only behind a test that s holds at least k characters."""
    import re
    import facts
    fb = ctx.fb
    seen = set()
    n = 0
    for fn in fb.functions:
        if not scope(fn) or not fn.blocks or (fn.name, fn.sig) in seen:
            continue
        seen.add((fn.name, fn.sig))
        for x, v in sorted(fn.nodes.items()):
            if v['k'] != 'BinaryOperator' or v.get('op') != '-' or fn.val(v['rhs']) is None or fn.val(v['rhs']) < 1:
                continue
            m = re.match(r'^(.*)\.(length|size)\(\)$', fn.key(v['lhs']))
            if not m:
                continue
            S = m.group(1)
            use = None
            for a in fn.ancestors(x):
                av = fn.nodes[a]
                if av['k'] == 'CXXOperatorCallExpr' and av.get('op') == '[]' and fn.key(av['args'][0]) == S and x in set(fn.walk(av['args'][1])):
                    use = a
                    break
                if av['k'] == 'CXXMemberCallExpr' and (av.get('callee') or '').split('::')[-1] in ('at', 'erase', 'substr', 'insert', 'replace') and \
                        'obj' in av and fn.key(av['obj']) == S and av.get('args') and x in set(fn.walk(av['args'][0])):
                    use = a
                    break
                if av['k'] not in facts.STRIP_KINDS and av['k'] not in ('ImplicitCastExpr', 'BinaryOperator', 'ParenExpr'):
                    break
            if use is None:
                continue
            n += 1
            ctx.touch(fn)
            k = fn.val(v['rhs'])
            alts = [('%s.empty()' % S, False)] if k == 1 else []
            atoms = set()
            for b in fn.blocks.values():
                if b.cond is not None and len(b.succs) == 2:
                    for j in (0, 1):
                        for conj in facts.implied(fn, fn.effective_cond(b.id), j == 0):
                            for a in conj:
                                atoms.add(facts.atom_key(fn, a)[0])
            for key in atoms:
                mm = re.match(r'^\(%s\.(?:length|size)\(\) (<=|<|==) #(\d+)\)$' % re.escape(S), key)
                if not mm:
                    continue
                c = int(mm.group(2))
                if (mm.group(1) == '<=' and c >= k - 1) or (mm.group(1) == '<' and c >= k) or (mm.group(1) == '==' and c == 0 and k == 1):
                    alts.append((key, False))
                if mm.group(1) == '==' and c >= k:
                    alts.append((key, True))
            ok = bool(alts) and fn.needs_one_of(use, alts)
            ctx.ob(rid, fn, use, ok, '%s.%s() - %d used as a position' % (S, m.group(2), k),
                   'reached only with at least %d character(s) in %s: %s' % (k, S, ok))
    if n < minimum:
        from facts import AnalysisBroken
        raise AnalysisBroken('%s: only %d positions computed from a length found' % (rid, n))


def find_result_rule(ctx, rid, scope, minimum):
    """the result of s.find...() is npos when nothing was found; used as it is as the start of s.erase/substr/at/insert/replace
    it throws std::out_of_range (pos + 1 wraps to 0 and is harmless).  Every such use is reached only behind a test that
    excludes npos: pos != npos (also in the form (pos = s.find(..)) != npos), or pos < / <= something."""
    import re
    import facts
    fb = ctx.fb
    seen = set()
    n = 0
    for fn in fb.functions:
        if not scope(fn) or not fn.blocks or (fn.name, fn.sig) in seen:
            continue
        seen.add((fn.name, fn.sig))
        asg = list(fn.assignments())
        allatoms = None
        for nid, d, rhs, op, lhs in asg:
            if rhs is None or not d or ':' not in d:
                continue
            r = fn.nodes[fn.strip(rhs, casts=True)]
            if not (r.get('k') == 'CXXMemberCallExpr' and (r.get('callee') or '').split('::')[-1] in _FIND and
                    (r.get('cls') or '').startswith('std::basic_string') and 'obj' in r):
                continue
            S = fn.key(r['obj'])
            pn = d.split(':')[-1]
            others = set(n2 for n2, d2, _, _, _ in asg if d2 == d and n2 != nid)
            for c in fn.all('CXXMemberCallExpr'):
                v = fn.nodes[c]
                if 'obj' not in v or fn.key(v['obj']) != S or not v.get('args') or \
                        (v.get('callee') or '').split('::')[-1] not in ('erase', 'substr', 'at', 'insert', 'replace'):
                    continue
                a0 = fn.nodes[fn.strip(v['args'][0], casts=True)]
                if a0.get('decl') != d:
                    continue
                pf, pc = fn.pos(nid), fn.pos(c)
                if pf is None or pc is None or not fn.reaches_point(pf[0], pc, others, start_idx=pf[1] + 1):
                    continue
                n += 1
                ctx.touch(fn)
                if allatoms is None:
                    allatoms = set()
                    for b in fn.blocks.values():
                        if b.cond is not None and len(b.succs) == 2:
                            for j in (0, 1):
                                for conj in facts.implied(fn, fn.effective_cond(b.id), j == 0):
                                    for a in conj:
                                        allatoms.add(facts.atom_key(fn, a)[0])
                alts = [('(%s == #18446744073709551615)' % pn, False)]
                for k in allatoms:
                    if re.match(r'^\(\(%s = .*\) == #18446744073709551615\)$' % re.escape(pn), k):
                        alts.append((k, False))
                    if re.match(r'^\(%s (<|<=) .*\)$' % re.escape(pn), k):
                        alts.append((k, True))
                    if re.match(r'^\(%s == #\d+\)$' % re.escape(pn), k) and not k.endswith('#18446744073709551615)'):
                        alts.append((k, True))
                ok = fn.needs_one_of(c, alts)
                ctx.ob(rid, fn, c, ok, 'search result %s used as position of %s' % (pn, S), 'reached only where npos is excluded: %s' % ok)
    if n < minimum:
        from facts import AnalysisBroken
        raise AnalysisBroken('%s: only %d uses of a search result as position found' % (rid, n))


def getline_result_rule(ctx, rid, scope, minimum):
    """std::getline leaves the target string as it was when the stream is exhausted or failed.  A caller that reads token by
    token into a variable that outlives the call has to look at the result (if / while / !): with the result discarded the
    previous token is taken once more at the end of the input."""
    fb = ctx.fb
    seen = set()
    n = 0
    for fn in fb.functions:
        if not scope(fn) or not fn.nodes or (fn.name, fn.sig) in seen:
            continue
        seen.add((fn.name, fn.sig))
        for c in fn.calls('getline'):
            v = fn.nodes[c]
            if not (v.get('callee') or '').startswith('std::getline') or len(v.get('args', [])) < 2:
                continue
            x = c
            discarded = None
            while discarded is None:
                par = fn.parent(x)
                if par is None:
                    discarded = True
                    break
                pv = fn.nodes[par]
                k = pv['k']
                if k in ('ImplicitCastExpr', 'ExprWithCleanups', 'ParenExpr', 'CXXBindTemporaryExpr', 'MaterializeTemporaryExpr', 'CXXFunctionalCastExpr', 'CStyleCastExpr') and pv.get('ck') != 'ToVoid':
                    if k == 'ImplicitCastExpr' and pv.get('ck') in ('UserDefinedConversion',):
                        discarded = False
                        break
                    x = par
                    continue
                if k in ('CompoundStmt', 'CaseStmt', 'DefaultStmt', 'LabelStmt') or pv.get('ck') == 'ToVoid':
                    discarded = True
                elif k in ('IfStmt', 'WhileStmt', 'ForStmt', 'DoStmt', 'CXXForRangeStmt'):
                    discarded = pv.get('cond') != x
                else:
                    discarded = False
            tgt = fn.nodes[fn.strip(v['args'][1], casts=True)]
            fresh = False
            if discarded and tgt.get('k') == 'DeclRefExpr' and tgt.get('rk') == 'local':
                # declared in the statement list the call stands in (a fresh string per pass): nothing stale to pick up
                par = fn.parent(x)
                if par is not None and fn.nodes[par]['k'] == 'CompoundStmt':
                    for sib in fn.nodes[par].get('ch', []):
                        if sib == x:
                            break
                        if fn.nodes[sib]['k'] == 'DeclStmt' and any(d.get('decl') == tgt.get('decl') and d.get('init') is None
                                                                    for d in fn.nodes[sib].get('decls', [])):
                            fresh = True
            n += 1
            ctx.touch(fn)
            ok = not discarded or fresh
            ctx.ob(rid, fn, c, ok, 'getline into %s in %s' % (fn.key(v['args'][1]), fn.name.split('::', 1)[-1]),
                   'the result is looked at (or the target is fresh): %s' % ok)
    if n < minimum:
        from facts import AnalysisBroken
        raise AnalysisBroken('%s: only %d getline calls found' % (rid, n))


def _int_range(w, sg):
    return (-(1 << (w - 1)), (1 << (w - 1)) - 1) if sg else (0, (1 << w) - 1)


def compare_domain_rule(ctx, rid, scope, minimum):
    """a variable is compared with a constant in the domain of its own type: where a function compares a value read from a
    variable, member, element or call result (seen through the implicit conversions the compiler adds) with an integer
    constant, the constant lies inside the value range of the integer type the value has BEFORE promotion.  A symbol kept in
    a signed char never equals 0xA9 or 0xAA, a byte never equals 256: such a comparison has one outcome for all inputs, the
    branch behind it is dead, and what it was meant to catch passes."""
    fb = ctx.fb
    seen = set()
    n = 0
    for fn in fb.functions:
        if not scope(fn) or not fn.nodes or (fn.name, fn.sig) in seen:
            continue
        seen.add((fn.name, fn.sig))
        for x, v in sorted(fn.nodes.items()):
            if v['k'] != 'BinaryOperator' or v.get('op') not in ('==', '!=', '<', '<=', '>', '>='):
                continue
            for a, b in ((v['lhs'], v['rhs']), (v['rhs'], v['lhs'])):
                c = fn.val(b)
                if c is None or fn.nodes[fn.strip(b, casts=True)].get('k') == 'DeclRefExpr' and fn.nodes[fn.strip(b, casts=True)].get('rk') in ('local', 'param'):
                    continue
                # the operand before the promotions: strip parentheses and implicit integral casts only
                y = a
                while True:
                    yv = fn.nodes[y]
                    if yv['k'] == 'ParenExpr' and yv.get('ch'):
                        y = yv['ch'][0]
                    elif yv['k'] == 'ImplicitCastExpr' and yv.get('ck') in ('IntegralCast', 'LValueToRValue', 'NoOp') and yv.get('ch'):
                        y = yv['ch'][0]
                    else:
                        break
                yv = fn.nodes[y]
                if yv['k'] not in ('DeclRefExpr', 'MemberExpr', 'ArraySubscriptExpr', 'CallExpr', 'CXXMemberCallExpr', 'CXXOperatorCallExpr', 'UnaryOperator'):
                    continue
                if yv['k'] == 'UnaryOperator' and yv.get('op') != '*':
                    continue
                if yv.get('rk') == 'enumerator' or yv.get('bool') or not yv.get('w') or yv.get('ptr') or yv.get('w') > 32:
                    continue
                t = yv.get('t') or ''
                if 'float' in t or 'double' in t:
                    continue
                lo, hi = _int_range(yv['w'], yv.get('sg'))
                n += 1
                inside = lo <= c <= hi
                # ordering tests against a bound just outside the range (x <= 255, x < 256) are range documentation, not dead code
                if not inside and v['op'] not in ('==', '!='):
                    continue
                if inside:
                    ctx.touch(fn)
                ctx.ob(rid, fn, x, inside, 'comparison %s' % fn.key(x)[:70],
                       'the constant %d lies in the range %d..%d of the %d bit %s operand: %s' % (
                           c, lo, hi, yv['w'], 'signed' if yv.get('sg') else 'unsigned', inside), nontrivial=not inside)
                break
        # a bool holds a truth value: compared with a character or number that is not a constant, one of the two was meant
        # to be something else (char escaped -> bool escaped keeps "a quote is open" but loses WHICH quote)
        def plain(y):
            while True:
                yv = fn.nodes[y]
                if yv['k'] in ('ParenExpr', 'ImplicitCastExpr') and yv.get('ch') and yv.get('ck') in (None, 'IntegralCast', 'LValueToRValue', 'NoOp'):
                    y = yv['ch'][0]
                else:
                    return y
        for x, v in sorted(fn.nodes.items()):
            if v['k'] != 'BinaryOperator' or v.get('op') not in ('==', '!='):
                continue
            a, b = plain(v['lhs']), plain(v['rhs'])
            for p_, q_ in ((a, b), (b, a)):
                pv, qv = fn.nodes[p_], fn.nodes[q_]
                if pv.get('bool') and pv['k'] in ('DeclRefExpr', 'MemberExpr') and not qv.get('bool') and qv.get('w') and fn.val(q_) is None:
                    n += 1
                    ctx.touch(fn)
                    ctx.ob(rid, fn, x, False, 'comparison %s' % fn.key(x)[:70],
                           'the bool %s is compared with the %d bit value %s: a truth value equals only 0 or 1' % (fn.key(p_), qv['w'], fn.key(q_)[:40]))
                    break
    if n < minimum:
        from facts import AnalysisBroken
        raise AnalysisBroken('%s: only %d comparisons with constants found' % (rid, n))


def getter_width_rule(ctx, rid, scope, minimum):
    """an accessor hands out what the member holds: where a member function does nothing but return a data member of integer
    type, its return type has the width and signedness of the member (or is wider) and no cast narrows the value on the
    way.  A narrower return type truncates silently for exactly the values the callers compare against (replacement
    patterns, limits, lengths)."""
    fb = ctx.fb
    seen = set()
    n = 0
    for fn in fb.functions:
        if not scope(fn) or not fn.nodes or (fn.name, fn.sig) in seen or not fn.cls:
            continue
        seen.add((fn.name, fn.sig))
        body = fn.nodes.get(fn.body, {})
        ch = [c_ for c_ in body.get('ch', []) if fn.nodes[c_]['k'] != 'NullStmt' and
              not (fn.nodes[c_].get('ck') == 'ToVoid' and fn.val(fn.nodes[c_]['ch'][0]) is not None)]     # statements without effect
        if body.get('k') != 'CompoundStmt' or len(ch) != 1 or fn.nodes[ch[0]]['k'] != 'ReturnStmt' or fn.nodes[ch[0]].get('val') is None:
            continue
        val = fn.nodes[ch[0]]['val']
        top = fn.nodes[val]
        y = val
        casts = []
        while True:
            yv = fn.nodes[y]
            if yv['k'] in ('ParenExpr', 'ImplicitCastExpr', 'CStyleCastExpr', 'CXXStaticCastExpr', 'CXXFunctionalCastExpr') and yv.get('ch'):
                if yv.get('w'):
                    casts.append((yv['w'], yv.get('sg')))
                y = yv['ch'][0]
            else:
                break
        m = fn.nodes[y]
        if m['k'] != 'MemberExpr' or not m.get('this') or not m.get('w') or m.get('bool') or m.get('ptr'):
            continue
        t = m.get('t') or ''
        if 'float' in t or 'double' in t or not top.get('w'):
            continue
        n += 1
        ctx.touch(fn)
        mw = m['w']
        narrow = [w for w, sg in casts if w < mw] or (top['w'] < mw)
        ctx.ob(rid, fn, val, not narrow, 'accessor %s returns %s' % (fn.name.split('::', 1)[1], m.get('name')),
               'the %d bit member reaches the caller in at least %d bits: %s (return type %s)' % (mw, mw, not narrow, fn.d.get('ret')))
    if n < minimum:
        from facts import AnalysisBroken
        raise AnalysisBroken('%s: only %d plain accessors found' % (rid, n))


def byte_scale_rule(ctx, rid, scope, minimum):
    """a byte is scaled in a domain that holds the result: where a function multiplies or shifts a value read from an 8 bit
    unsigned variable (promoted to int by the language) in SIGNED 32 bit arithmetic, the other factor / the shift amount is a
    constant that keeps 255 * factor below 2^31.  With a factor that can reach 2^24 (the fourth byte of a little-endian
    number: byte * (1 << 8*i), byte << 24) the product of a byte >= 0x80 overflows the int, and on widening to a 64 bit
    accumulator the sign is extended over the upper half.  Unsigned or 64 bit arithmetic is fine."""
    fb = ctx.fb
    seen = set()
    n = 0
    for fn in fb.functions:
        if not scope(fn) or not fn.nodes or (fn.name, fn.sig) in seen:
            continue
        seen.add((fn.name, fn.sig))
        for x, v in sorted(fn.nodes.items()):
            if v['k'] != 'BinaryOperator' or v.get('op') not in ('*', '<<'):
                continue

            def byte_var(y):
                yv = fn.nodes[y]
                while yv['k'] in ('ParenExpr', 'ImplicitCastExpr') and yv.get('ch') and yv.get('ck') in (None, 'IntegralCast', 'LValueToRValue', 'NoOp'):
                    y = yv['ch'][0]
                    yv = fn.nodes[y]
                return yv['k'] in ('DeclRefExpr', 'MemberExpr', 'ArraySubscriptExpr') and yv.get('w') == 8 and not yv.get('sg') and \
                    not yv.get('bool') and yv.get('rk') != 'enumerator' and fn.val(y) is None
            if v['op'] == '<<':
                if not byte_var(v['lhs']):
                    continue
                other = v['rhs']
            else:
                if byte_var(v['lhs']):
                    other = v['rhs']
                elif byte_var(v['rhs']):
                    other = v['lhs']
                else:
                    continue
            n += 1
            ctx.touch(fn)
            signed32 = v.get('w') == 32 and v.get('sg')
            c = fn.val(other)
            if not signed32:
                ok, how = True, 'evaluated in %d bit %s arithmetic' % (v.get('w') or 0, 'signed' if v.get('sg') else 'unsigned')
            elif c is not None:
                top = 255 * c if v['op'] == '*' else 255 << c if 0 <= c < 64 else 1 << 63
                ok, how = top < (1 << 31), 'in int with the constant %d: at most %d' % (c, top)
            else:
                ok, how = False, 'in int with a factor that is not constant (%s)' % fn.key(other)[:40]
            ctx.ob(rid, fn, x, ok, 'byte scaled: %s' % fn.key(x)[:60], 'the result fits the arithmetic it is computed in: %s (%s)' % (ok, how))
    if n < minimum:
        from facts import AnalysisBroken
        raise AnalysisBroken('%s: only %d scalings of a byte found' % (rid, n))


def _loop_counter_params(fn):
    """[(for statement, parameter decl, [reads of the parameter behind the loop])] for loops that take a by-value parameter
    over as their counter (assignment in the init part, no declaration)"""
    res = []
    pd = {p.get('decl'): p for p in fn.params if p.get('decl') and not (p.get('t') or '').rstrip().endswith(('&', '*'))}
    asg = list(fn.assignments())
    for f in fn.all('ForStmt'):
        v = fn.nodes[f]
        if v.get('init') is None:
            continue
        init = set(fn.walk(v['init']))
        inside = set(fn.walk(f))
        for nid, d, rhs, op, lhs in asg:
            if nid in init and op != 'init':
                reads = []
                if d in pd:
                    later = set(n2 for n2, d2, r2, o2, l2 in asg if d2 == d and n2 not in inside and o2 in ('=',))
                    for x, xv in fn.nodes.items():
                        if xv['k'] == 'DeclRefExpr' and xv.get('decl') == d and x not in inside and fn.block_of(x) is not None and \
                                fn.block_of(f) is not None:
                            par = fn.nodes.get(fn.parent(x), {})
                            if par.get('k') == 'BinaryOperator' and par.get('op') == '=' and par.get('lhs') == x:
                                continue
                            # reachable from the loop without a fresh assignment in between
                            if any(fn.reaches_point(fn.pos(i_)[0], fn.pos(x), later, start_idx=fn.pos(i_)[1] + 1) for i_ in [nid]):
                                reads.append(x)
                res.append((f, d if d in pd else None, reads))
    return res


def loop_counter_param_rule(ctx, rid, scope, minimum):
    """an argument is still the argument where it is read: a for loop that takes a by-value parameter over as its counter
    (for (p = first; ...; p++)) destroys the argument; a read of the parameter that control reaches behind such a loop sees
    what the loop left, not what the caller passed (BusHandler::prepareScan decided the ownership of a scan request by
    slave == SYN behind for (slave = 1; slave != 0; slave++)).  The rule is checked against a positive example on every
    run."""
    import os
    import facts
    from facts import AnalysisBroken
    fb = ctx.fb
    sample = os.path.join(os.path.dirname(os.path.dirname(os.path.dirname(os.path.abspath(__file__)))), 'spec', 'samples',
                          'loop_counter_param.cpp')
    try:
        d = facts.extract_file(sample, root=os.path.dirname(sample))
        sfb = facts.FactBase([(sample, d)])
        hits = [r for f in sfb.functions for r in _loop_counter_params(f) if r[1] and r[2]]
    except Exception as e:     # noqa
        raise AnalysisBroken('%s: the positive example could not be analysed (%s)' % (rid, e))
    if len(hits) != 1:
        raise AnalysisBroken('%s: the positive example is not recognised any more (%d hits)' % (rid, len(hits)))
    seen = set()
    n = 0
    for fn in fb.functions:
        if not scope(fn) or not fn.blocks or (fn.name, fn.sig) in seen:
            continue
        seen.add((fn.name, fn.sig))
        for f, pdcl, reads in _loop_counter_params(fn):
            n += 1
            if pdcl is None:
                ctx.ob(rid, fn, f, True, 'loop counter assigned in the init part', 'not a parameter', nontrivial=False)
                continue
            ctx.touch(fn)
            nm = pdcl.split(':')[-1]
            if not reads:
                ctx.ob(rid, fn, f, True, 'parameter %s taken over as loop counter' % nm, 'not read behind the loop')
            for x in reads:
                ctx.ob(rid, fn, x, False, 'parameter %s read behind a loop that used it as counter' % nm,
                       'the read at line %d sees the value the loop at line %d left, not the argument' % (fn.line_of(x), fn.line_of(f)))
    if n < minimum:
        raise AnalysisBroken('%s: only %d loops with an assigned counter found' % (rid, n))


def wide_result_rule(ctx, rid, scope, minimum):
    """a 64 bit key or time stays 64 bit: where a function of the repository is declared to return uint64_t (message and answer
    keys, the millisecond clock), the value is not converted implicitly to a narrower integer at the call - held in an
    unsigned int, a key loses the ID length, source, destination and command bytes and never matches a stored key again."""
    fb = ctx.fb
    wide = {}
    for f in fb.functions:
        r = (f.d.get('ret') or '')
        if r.replace('const ', '').strip() in ('uint64_t', 'unsigned long long', 'std::uint64_t', 'ebusd::uint64_t') and f.name.startswith('ebusd::'):
            wide[f.name] = r
    for cls in fb.classes.values():
        pass
    seen = set()
    n = 0
    for fn in fb.functions:
        if not scope(fn) or not fn.nodes or (fn.name, fn.sig) in seen:
            continue
        seen.add((fn.name, fn.sig))
        for c in fn.calls():
            v = fn.nodes[c]
            if v.get('callee') not in wide or v['k'] not in ('CallExpr', 'CXXMemberCallExpr'):
                continue
            n += 1
            ctx.touch(fn)
            x = c
            narrowed = None
            while True:
                par = fn.parent(x)
                if par is None:
                    break
                pv = fn.nodes[par]
                if pv['k'] in ('ParenExpr', 'ExprWithCleanups', 'MaterializeTemporaryExpr', 'CXXBindTemporaryExpr'):
                    x = par
                    continue
                if pv['k'] == 'ImplicitCastExpr' and pv.get('ck') == 'IntegralCast' and pv.get('w') and pv['w'] < 64:
                    narrowed = pv['w']
                break
            ctx.ob(rid, fn, c, narrowed is None, 'result of %s in %s' % (v['callee'].split('::', 1)[1], fn.name.split('::', 1)[1]),
                   'kept in 64 bit: %s%s' % (narrowed is None, '' if narrowed is None else ' (converted to %d bit)' % narrowed))
    if n < minimum:
        from facts import AnalysisBroken
        raise AnalysisBroken('%s: only %d calls of functions returning uint64_t found' % (rid, n))


def wide_mask_rule(ctx, rid, scope, minimum):
    """a mask for a 64 bit value is computed in 64 bits: where a 64 bit integer is combined (&, |, ^ and their assignment
    forms) with an operand that the compiler widens from 32 bits or less, that operand contains no shift or complement whose
    value is not a compile-time constant - ~(0xff << n) in int is sign-extended for n < 24 but clears the upper half for
    n = 24, and x << n loses the bits above 31."""
    fb = ctx.fb
    seen = set()
    n = 0
    for fn in fb.functions:
        if not scope(fn) or not fn.nodes or (fn.name, fn.sig) in seen:
            continue
        seen.add((fn.name, fn.sig))
        for x, v in sorted(fn.nodes.items()):
            if v['k'] not in ('BinaryOperator', 'CompoundAssignOperator') or v.get('op') not in ('&', '|', '^', '&=', '|=', '^=') or v.get('w') != 64:
                continue
            n += 1
            bad = None
            for side in ('lhs', 'rhs'):
                o = fn.nodes[v[side]]
                while o['k'] == 'ParenExpr' and o.get('ch'):
                    o = fn.nodes[o['ch'][0]]
                if o['k'] == 'ImplicitCastExpr' and o.get('ck') == 'IntegralCast' and (o.get('sw') or 64) <= 32 and fn.val(o['ch'][0]) is None:
                    for y in fn.walk(o['ch'][0]):
                        yv = fn.nodes[y]
                        if (yv['k'] == 'BinaryOperator' and yv.get('op') == '<<') or (yv['k'] == 'UnaryOperator' and yv.get('op') == '~'):
                            bad = '%s is computed in %d bit and then widened' % (fn.key(o['ch'][0])[:60], o.get('sw'))
            if bad:
                ctx.touch(fn)
            ctx.ob(rid, fn, x, bad is None, '64 bit combination %s' % fn.key(x)[:50],
                   'no shifted or complemented operand of 32 bits or less: %s%s' % (bad is None, '' if bad is None else ' (%s)' % bad),
                   nontrivial=bad is not None)
    if n < minimum:
        from facts import AnalysisBroken
        raise AnalysisBroken('%s: only %d combinations of 64 bit values found' % (rid, n))


_POSIX_MINUS1 = ('read', 'write', 'recv', 'send', 'recvfrom', 'sendto', 'poll', 'ppoll', 'select', 'open', 'socket', 'accept',
                 'connect', 'bind', 'listen', 'ioctl', 'fcntl', 'lseek', 'tcgetattr', 'tcsetattr', 'setsockopt', 'getsockopt')


def signed_result_rule(ctx, rid, scope, minimum):
    """a failure reported as -1 must stay negative: the result of a POSIX call that reports errors as -1 (read, write, recv,
    send, poll, open, socket, ioctl, ...) is not converted to an unsigned type where it is stored or compared - in a size_t
    the failed read is SIZE_MAX received bytes and the test size <= 0 only sees end of file."""
    fb = ctx.fb
    seen = set()
    n = 0
    for fn in fb.functions:
        if not scope(fn) or not fn.nodes or (fn.name, fn.sig) in seen:
            continue
        seen.add((fn.name, fn.sig))
        for c in fn.all('CallExpr'):
            v = fn.nodes[c]
            cal = (v.get('callee') or '')
            if cal.lstrip(':') not in _POSIX_MINUS1 or not v.get('sg'):
                continue
            n += 1
            ctx.touch(fn)
            x = c
            unsigned_to = None
            while True:
                par = fn.parent(x)
                if par is None:
                    break
                pv = fn.nodes[par]
                if pv['k'] in ('ParenExpr', 'ExprWithCleanups'):
                    x = par
                    continue
                if pv['k'] in ('ImplicitCastExpr', 'CStyleCastExpr', 'CXXStaticCastExpr') and pv.get('ck') == 'IntegralCast' and pv.get('w') and not pv.get('sg') \
                        and not pv.get('bool'):
                    # equality with the requested length is exact also after the conversion (-1 becomes SIZE_MAX, never the length)
                    gp = fn.nodes.get(fn.parent(par), {})
                    if not (gp.get('k') == 'BinaryOperator' and gp.get('op') in ('==', '!=')):
                        unsigned_to = pv.get('t')
                break
            ctx.ob(rid, fn, c, unsigned_to is None, 'result of %s() in %s' % (cal.lstrip(':'), fn.name.split('::', 1)[-1]),
                   'stays signed where it is first used: %s%s' % (unsigned_to is None, '' if unsigned_to is None else ' (converted to %s)' % unsigned_to))
    if n < minimum:
        from facts import AnalysisBroken
        raise AnalysisBroken('%s: only %d calls of POSIX functions with a -1 error result found' % (rid, n))


def _parsed_scalings(fn):
    """[(multiplication node, name of the parsed local, bounded?)] for integer multiplications of a local that holds the
    result of strtol/strtoul/strtoll/strtoull"""
    import re
    src = {}
    for nid, d, rhs, op, lhs in fn.assignments():
        if rhs is not None and d and ':' in d and (fn.nodes[fn.strip(rhs, casts=True)].get('callee') or '') in (
                'strtol', 'strtoul', 'strtoll', 'strtoull'):
            src[d] = nid
    res = []
    for x, v in sorted(fn.nodes.items()):
        if v['k'] not in ('BinaryOperator', 'CompoundAssignOperator') or v.get('op') not in ('*', '*=', '<<', '<<='):
            continue
        t = v.get('t') or ''
        if 'float' in t or 'double' in t:
            continue
        for side in ('lhs', 'rhs'):
            o = fn.nodes[fn.strip(v[side], casts=True)]
            if o.get('k') == 'DeclRefExpr' and o.get('decl') in src:
                nm = o.get('name')
                atoms = set((a[0], a[1]) for a in fn.atoms(x)) if fn.block_of(x) is not None else set()
                upper = any((re.match(r'^\(%s (<|<=) #\d+\)$' % re.escape(nm), k) and p) for k, p in atoms)
                lower = not o.get('sg') or any((re.match(r'^\(%s (<|<=) #-?\d+\)$' % re.escape(nm), k) and not p) for k, p in atoms)
                res.append((x, nm, upper and lower))
    return res, len(src)


def parsed_scale_rule(ctx, rid, scope, minimum):
    """a parsed integer is scaled only after it was bounded: the 64 bit result of strtol/strtoul is not multiplied or shifted in
    integer arithmetic unless constants bound it from above (and from below if signed) on the way - the unchecked product
    of a 17 to 19 digit text wraps around and lands inside the range of the field.  Scaling in double (as the data types do)
    cannot wrap.  Checked against a positive example on every run."""
    import os
    import facts
    from facts import AnalysisBroken
    sample = os.path.join(os.path.dirname(os.path.dirname(os.path.dirname(os.path.abspath(__file__)))), 'spec', 'samples', 'parsed_scale.cpp')
    try:
        d = facts.extract_file(sample, root=os.path.dirname(sample))
        sfb = facts.FactBase([(sample, d)])
        hits = [r for f in sfb.functions for r in _parsed_scalings(f)[0] if not r[2]]
    except Exception as e:     # noqa
        raise AnalysisBroken('%s: the positive example could not be analysed (%s)' % (rid, e))
    if len(hits) != 1:
        raise AnalysisBroken('%s: the positive example is not recognised any more (%d hits)' % (rid, len(hits)))
    fb = ctx.fb
    seen = set()
    n = 0
    for fn in fb.functions:
        if not scope(fn) or not fn.nodes or (fn.name, fn.sig) in seen:
            continue
        seen.add((fn.name, fn.sig))
        sc, nsrc = _parsed_scalings(fn)
        n += nsrc
        if nsrc:
            ctx.touch(fn)
        if nsrc and not sc:
            ctx.ob(rid, fn, fn.body, True, 'parsed integers in %s' % fn.name.split('::', 1)[-1], '%d result(s) of strtol/strtoul, none scaled in integer arithmetic' % nsrc)
        for x, nm, ok in sc:
            ctx.ob(rid, fn, x, ok, 'integer scaling of the parsed number %s' % nm, 'bounded by constants before it is multiplied: %s' % ok)
    if n < minimum:
        raise AnalysisBroken('%s: only %d parsed integers found' % (rid, n))
