"""helpers shared by rule modules: interval evaluation of bound expressions, small utilities"""
import math

import facts
from facts import AnalysisBroken

# facts the interval evaluator may assume about members; each is established by another rule of this framework
MEMBER_RANGES = {
    # C05.R1 checks every built-in/contributed type against the table: bit counts are 1..32 (strings/date-times up to MAX_LEN*8)
    'this.m_bitCount': (1, 32),
}


class IntervalEnv(object):
    def __init__(self, fn, member_ranges=None):
        self.fn = fn
        self.members = dict(MEMBER_RANGES)
        if member_ranges:
            self.members.update(member_ranges)
        self._defs = None

    def single_def(self, decl):
        """init expression of a local that is defined exactly once (its declaration) and never written again"""
        if self._defs is None:
            self._defs = {}
            for nid, d, rhs, op, lhs in self.fn.assignments():
                if d is not None:
                    self._defs.setdefault(d, []).append((op, rhs))
            # address-taken locals are not trusted
            self._addr = set()
            for nid, v in self.fn.nodes.items():
                if v['k'] == 'UnaryOperator' and v.get('op') == '&':
                    d = self.fn.ref_decl(v['ch'][0])
                    if d:
                        self._addr.add(d)
        ds = self._defs.get(decl, [])
        if len(ds) == 1 and ds[0][0] == 'init' and decl not in self._addr:
            return ds[0][1]
        return None


def type_range(v):
    if v.get('bool'):
        return (0, 1)
    w = v.get('w')
    if w:
        if v.get('sg'):
            return (-(2 ** (w - 1)), 2 ** (w - 1) - 1)
        return (0, 2 ** w - 1)
    return None


def interval(fn, nid, env, depth=0):
    """conservative [lo, hi] of an arithmetic expression, or None if unknown. Values are exact Python numbers."""
    if depth > 20:
        return None
    nid = fn.strip(nid)
    v = fn.nodes.get(nid)
    if v is None:
        return None
    k = v['k']
    if 'v' in v and k not in ('CallExpr', 'CXXMemberCallExpr'):
        return (v['v'], v['v'])
    if k == 'FloatingLiteral':
        try:
            f = float(v.get('fv'))
        except (TypeError, ValueError):
            return None
        return (f, f)
    if k in facts.CAST_KINDS:
        inner = interval(fn, v['ch'][0], env, depth + 1) if v.get('ch') else None
        tr = type_range(v)
        if inner is None:
            return tr
        if tr is None:
            return inner
        if inner[0] >= tr[0] and inner[1] <= tr[1]:
            return inner
        return tr
    if k == 'MemberExpr':
        key = fn.key(nid)
        if key in env.members:
            return env.members[key]
        return type_range(v)
    if k == 'DeclRefExpr':
        if v.get('rk') == 'local':
            init = env.single_def(v.get('decl'))
            if init is not None:
                iv = interval(fn, init, env, depth + 1)
                if iv is not None:
                    tr = type_range(v)
                    if tr and not (iv[0] >= tr[0] and iv[1] <= tr[1]):
                        return tr
                    return iv
        return type_range(v)
    if k == 'UnaryOperator':
        iv = interval(fn, v['ch'][0], env, depth + 1)
        if iv is None:
            return None
        if v['op'] == '-':
            return (-iv[1], -iv[0])
        if v['op'] == '+':
            return iv
        return None
    if k == 'BinaryOperator':
        a = interval(fn, v['lhs'], env, depth + 1)
        b = interval(fn, v['rhs'], env, depth + 1)
        if a is None or b is None:
            return None
        op = v['op']
        if op == '+':
            return (a[0] + b[0], a[1] + b[1])
        if op == '-':
            return (a[0] - b[1], a[1] - b[0])
        if op == '*':
            c = [a[0] * b[0], a[0] * b[1], a[1] * b[0], a[1] * b[1]]
            return (min(c), max(c))
        if op == '/':
            if b[0] <= 0 <= b[1]:
                return None
            c = [a[0] / b[0], a[0] / b[1], a[1] / b[0], a[1] / b[1]]
            lo, hi = min(c), max(c)
            if not v.get('fl'):
                lo, hi = math.floor(lo) if lo < 0 else int(lo), int(hi) if hi >= 0 else math.ceil(hi)
            return (lo, hi)
        if op == '<<':
            if b[0] < 0 or b[1] > 64 or a[0] < 0:
                return None
            return (a[0] << int(b[0]), a[1] << int(b[1]))
        if op == '>>':
            if b[0] < 0 or a[0] < 0:
                return None
            return (a[0] >> int(min(b[1], 64)), a[1] >> int(b[0]))
        if op == '&':
            if a[0] >= 0 and b[0] >= 0:
                return (0, min(a[1], b[1]))
            return None
        if op == '%':
            if b[0] > 0 and a[0] >= 0:
                return (0, b[1] - 1)
            return None
        return None
    if k == 'CallExpr':
        cal = (v.get('callee') or '').split('::')[-1]
        if cal in ('exp2', 'exp2f', 'exp2l') and v.get('args'):
            a = interval(fn, v['args'][0], env, depth + 1)
            if a is None or a[1] > 1000 or a[0] < -1000:
                return None
            return (2.0 ** a[0], 2.0 ** a[1])
        return None
    if k in ('ConditionalOperator',):
        a = interval(fn, v['then'], env, depth + 1)
        b = interval(fn, v['else'], env, depth + 1)
        if a is None or b is None:
            return None
        return (min(a[0], b[0]), max(a[1], b[1]))
    return None
