"""C08 - a telegram is matched to the right message definition (key layout, exact check, bookkeeping, probe loop).

C08.R1 (core) the key builders (Message::createKey x3, the re-keying loop in MessageMap::find) agree on the bit layout
              and fold schedule; masks cover exactly those fields
C08.R2 (core) the exact ID check behind the hashed key compares every ID byte (plain and chained) and is applied to every
              lookup by telegram
C08.R3        max ID length bookkeeping on every insertion path
C08.R4 (core) probe loop: from the maximum ID length downwards by one, the source field is cleared before the
              active read/write variants are probed, direction filters guard their probes
"""
import facts
from facts import AnalysisBroken
import rules.layout as layout
import rules.common as common

U64 = (1 << 64) - 1


def builders(fb):
    out = []
    for f in fb.fns('ebusd::Message::createKey'):
        out.append(f)
    return out


def r1(ctx):
    ctx.rule('C08.R1', 'all key builders place length at bit 61 (3 bits), the source number at 56 (5 bits, or the special '
             'active read/write markers 0x1e/0x1f there), the destination at 48, PB at 40, SB at 32 and fold further ID bytes '
             'with XOR starting at bit 24 in steps of 8 down to 0 and then wrapping to 24 again; the lookup-side re-keying '
             'loop in MessageMap::find uses the same schedule; ID_SOURCE_MASK and ID_LENGTH_AND_IDS_MASK cover exactly these '
             'fields', minimum=6, star=True)
    fb = ctx.fb
    fns = builders(fb)
    if len(fns) != 3:
        raise AnalysisBroken('C08.R1: expected 3 Message::createKey overloads, found %d' % len(fns))
    find = [f for f in fb.fns('ebusd::MessageMap::find') if 'MasterSymbolString' in f.sig]
    if len(find) != 1:
        raise AnalysisBroken('C08.R1: MessageMap::find(master, ...) not found')
    find = find[0]
    ref = None
    for fn in fns + [find]:
        ctx.touch(fn)
        acc = layout.accumulator(fn) if fn is not find else None
        if fn is find:
            # the re-keying accumulator in find: the local that is XOR-ed with shifted telegram bytes
            for nid, d, rhs, op, lhs in fn.assignments():
                if op in ('^=', '|=', '+=') and d and rhs is not None and '<<' in fn.key(rhs) and 'dataAt(' in fn.key(rhs):
                    acc = d.split(':')[-1]
        if acc is None:
            raise AnalysisBroken('C08.R1: key accumulator not found in %s' % fn.sig)
        pl = layout.placements(fn, acc)
        cnt = layout.fold_counter(fn, acc) or 'exp'
        fold = layout.fold_schedule(fn, cnt)
        if not pl:
            raise AnalysisBroken('C08.R1: no key placements in %s' % fn.sig)
        problems = []
        fixed = {}
        for p in pl:
            if isinstance(p['shift'], int) and p['shift'] > 0:
                fixed.setdefault(p['shift'], []).append(p)
        is_find = fn is find
        # header fields
        for sh, items in fixed.items():
            if sh not in (61, 56, 48, 40, 32):
                problems.append('field placed at unexpected bit %d (%s)' % (sh, items[0]['src']))
        if not is_find:
            for need in (56, 48):
                if need not in fixed:
                    problems.append('no field at bit %d' % need)
        if 61 in fixed:
            for p in fixed[61]:
                if p['op'] not in ('=', '|='):
                    problems.append('length merged with %s' % p['op'])
        # source markers
        for p in fixed.get(56, []):
            if p['const'] is not None and (p['const'] >> 56) not in (0x1e, 0x1f):
                problems.append('source marker %#x' % (p['const'] >> 56))
            if p['const'] is None and 'getMasterNumber' not in p['src']:
                problems.append('source field from %s' % p['src'])
        for sh in (48, 40, 32):
            for p in fixed.get(sh, []):
                if p['const'] is None and p['width'] != 8:
                    problems.append('%d bit wide source at bit %d' % (p['width'], sh))
        # fold
        folds = [p for p in pl if not isinstance(p['shift'], int)]
        if folds:
            f0 = folds[0]
            if f0['op'] != '^=':
                problems.append('ID bytes folded with %s instead of ^=' % f0['op'])
            if f0['shift'] != '(#8 * %s--)' % cnt:
                problems.append('fold shift %s' % f0['shift'])
            has_hdr = 40 in fixed and 32 in fixed
            want_init = 3 if (has_hdr or is_find) else 5
            if fold['init'] != want_init:
                problems.append('fold starts at byte position %s (expected %d)' % (fold['init'], want_init))
            if fold['steps'] != [-1]:
                problems.append('fold step %s' % fold['steps'])
            rs = fold['resets']
            if len(rs) != 1 or rs[0][0] != 3 or ('(%s < #0)' % cnt, True) not in rs[0][1]:
                problems.append('fold wrap %s (expected: exp < 0 -> 3)' % rs)
            if f0['width'] != 8:
                problems.append('folded source is %s bits wide' % f0['width'])
        elif len(fn.params) != 3 or 'MasterSymbolString' in fn.sig or 'vector' in fn.sig:
            problems.append('no ID fold found')
        narrow = [(p['src'], p['shift']) for p in pl if p.get('shiftw') is not None and p['shiftw'] < 64]
        if narrow:
            problems.append('fields shifted in a type narrower than the key (bits above 31 lost / sign extension): %s' % narrow)
        ctx.ob('C08.R1', fn, fn.body, not problems, 'key layout in %s' % fn.sig.split('(')[0].split('::')[-1] +
               ('(%s)' % fn.sig.split('(')[1][:24]), '; '.join(problems) or 'fields at 61/56/48/40/32, XOR fold 24..0 wrapping')
    # masks
    vals = {}
    src = open(find.file).read()
    import re
    names = sorted(set(re.findall(r'#define\s+(ID_\w+|INVALID_KEY)\b', src)))
    mv = macro_exprs_in_tu(find.file, names)
    okm = mv.get('ID_SOURCE_MASK') == (0x1f << 56) and mv.get('ID_LENGTH_AND_IDS_MASK') == ((7 << 61) | 0xffffffff)
    ctx.ob('C08.R1', find, find.body, okm, 'key masks', 'ID_SOURCE_MASK=%#x ID_LENGTH_AND_IDS_MASK=%#x' % (
        mv.get('ID_SOURCE_MASK', 0), mv.get('ID_LENGTH_AND_IDS_MASK', 0)))
    markers = {k: (v >> 56) for k, v in mv.items() if k.startswith('ID_SOURCE_ACTIVE')}
    okk = set(markers.values()) <= {0x1e, 0x1f} and markers.get('ID_SOURCE_ACTIVE_WRITE') != markers.get('ID_SOURCE_ACTIVE_READ') and \
        all(v > 25 for v in markers.values())
    ctx.ob('C08.R1', find, find.body, okk, 'active direction markers', 'markers %s must lie above the 25 master numbers and '
           'distinguish read from write' % markers)
    return find, mv


def macro_exprs_in_tu(path, names):
    """evaluate object-like macros defined inside a .cpp file: the probe includes the file itself"""
    import os
    import shutil
    os.makedirs(facts.CACHE, exist_ok=True)
    pdir = os.path.join(facts.CACHE, 'probe_m_%d' % os.getpid())
    os.makedirs(pdir, exist_ok=True)
    p = os.path.join(pdir, 'probe.cpp')
    with open(p, 'w') as fh:
        fh.write('#include "%s"\nnamespace ebusd_probe {\n' % path)
        for n in names:
            fh.write('#ifdef %s\nstatic const unsigned long long P_%s = (unsigned long long)(%s);\n#endif\n' % (n, n, n))
        fh.write('}\n')
    try:
        d = facts.extract_file(p, root=pdir)
    finally:
        shutil.rmtree(pdir, ignore_errors=True)
    res = {}
    for g in d.get('globals', []):
        nm = g['name'].split('::')[-1]
        if nm.startswith('P_') and isinstance(g.get('init'), int):
            res[nm[2:]] = g['init'] & U64
    return res


def r2(ctx, find):
    ctx.rule('C08.R2', 'a key hit is only a candidate: every lookup by telegram passes the telegram to getFirstAvailable so '
             'that checkId() runs; Message::checkId compares all getIdLength() bytes, ChainedMessage::checkId compares the '
             'common prefix and then every remaining byte of a part (a mismatch in any byte rejects the part)', minimum=6,
             star=True)
    fb = ctx.fb
    # call sites in find
    n = 0
    for c in find.all('CXXMemberCallExpr'):
        v = find.nodes[c]
        if (v.get('callee') or '').endswith('::getFirstAvailableFromIterator'):
            n += 1
            a = find.key(v['args'][1])
            ctx.ob('C08.R2', find, c, a == '&' + find.P(0), 'lookup passes the telegram', 'second argument %s' % a)
    gfa = [f for f in fb.fns('ebusd::getFirstAvailable') if 'MasterSymbolString' in f.sig]
    if len(gfa) != 1:
        raise AnalysisBroken('C08.R2: getFirstAvailable(messages, master, ...) not found')
    g = gfa[0]
    ctx.touch(g)
    rets = [r for r in g.all('ReturnStmt') if g.nodes[r].get('val') is not None and g.key(g.nodes[r]['val']) != '#0']
    for r in rets:
        # a message is returned only if (no telegram given) or checkId succeeded
        pn = g.P(1)
        mv = g.key(g.nodes[r]['val'])
        ok = g.needs_one_of(r, [(pn, False), ('%s.checkId(*%s,#0)' % (mv, pn), True)])
        n += 1
        ctx.ob('C08.R2', g, r, ok, 'getFirstAvailable returns only ID-checked candidates', 'checkId dominates the return: %s' % ok)
    # Message::checkId: loop over all id bytes
    for name in ('ebusd::Message::checkId', 'ebusd::ChainedMessage::checkId'):
        fns = [f for f in fb.fns(name) if 'MasterSymbolString' in f.sig]
        if len(fns) != 1:
            raise AnalysisBroken('C08.R2: %s(master, index) not found' % name)
        f = fns[0]
        ctx.touch(f)
        mname = f.P(0)
        cmps = [x for x in f.all('BinaryOperator') if f.nodes[x].get('op') in ('!=', '==') and ('%s.dataAt(' % mname) in f.key(x)]
        loops = f.all('ForStmt')
        problems = []
        if not cmps:
            problems.append('no byte comparison with the telegram')
        # loop bounds
        bounds = []
        for l in loops:
            c = f.nodes[l].get('cond')
            if c is not None:
                bounds.append(f.key(c))
        # the telegram must carry at least as many data bytes as the ID is long: dataAt() pads a short telegram with
        # zeros, so without this test an ID with a zero tail matches a telegram that ends before it
        fulls = f.local_where(lambda k, r: (f.nodes.get(f.strip(r), {}).get('callee') or '').endswith(name.rsplit('::', 1)[0] + '::getIdLength'))
        short_ok = bool(fulls) and bool(cmps) and all(
            f.needs_one_of(x, [('(%s.getDataSize() < %s)' % (mname, fulls[0]), False)]) for x in cmps)
        if not short_ok:
            problems.append('byte comparison reachable with fewer telegram data bytes than the ID length (no getDataSize() < idLength rejection)')
        if name.endswith('Message::checkId') and 'Chained' not in name:
            full = f.local_where(lambda k, r: k == 'this.getIdLength()')
            if not full or not any(b.endswith(' < %s)' % full[0]) for b in bounds):
                problems.append('loop bound %s (expected: position < local holding getIdLength())' % bounds)
        else:
            cal = lambda r: f.nodes.get(f.strip(r), {}).get('callee')
            full = f.local_where(lambda k, r: cal(r) == 'ebusd::ChainedMessage::getIdLength')
            pre = f.local_where(lambda k, r: cal(r) == 'ebusd::Message::getIdLength')
            if not full or not pre or not any(b.endswith(' < %s)' % pre[0]) for b in bounds) or \
                    not any(b.endswith(' < %s)' % full[0]) for b in bounds):
                problems.append('loops %s (expected prefix loop and suffix loop up to the full ID length)' % bounds)
            # inside the suffix loop a mismatch must lead to rejection of this part: after the mismatch branch the
            # "found" flag is false when the loop is left
            flag = None
            for nid, d, rhs, op, lhs in f.assignments():
                if op == 'init' and rhs is not None and f.val(rhs) == 0 and d and f.nodes.get(f.strip(rhs), {}).get('k') == 'CXXBoolLiteralExpr' and \
                        any(d2 == d and r2 is not None and f.val(r2) == 1 for n2, d2, r2, o2, l2 in f.assignments()):
                    flag = d
            mism = [x for x in cmps if f.nodes[x].get('op') == '!=' and 'this.m_id[' not in f.key(x)]
            if flag and mism:
                # explore: after taking the mismatch-true edge, reaching the `if (found)` test with found == true is a defect
                bad = []

                def on_elem(user, e, path):
                    v = f.nodes[e]
                    if v['k'] == 'BinaryOperator' and v.get('op') == '=' and f.ref_decl(v['lhs']) == flag:
                        return ('T' if f.val(v['rhs']) == 1 else 'F', user[1])
                    if v['k'] == 'DeclStmt' and any(dd['decl'] == flag for dd in v.get('decls', [])):
                        return ('F', False)
                    return user

                def on_edge(user, b, j, dnf):
                    st, mm = user
                    for conj in dnf:
                        for a in conj:
                            k, p = facts.atom_key(f, a)
                            if k == f.key(mism[0]).replace(' != ', ' == ') and not p and a[0] == 'cmp':
                                mm = True
                            if k == flag.split(':')[-1] and len(dnf) == 1:
                                if p and mm and st == 'T':
                                    bad.append(1)
                                if (p and st == 'F') or (not p and st == 'T'):
                                    return None
                    return (st, mm)
                ex = facts.Explorer(f, on_elem=on_elem, on_edge=on_edge)
                ex.run(f.entry, 0, ('F', False))
                if bad:
                    problems.append('a part is accepted (found stays true) although one of its ID bytes differs from the telegram')
            else:
                problems.append('suffix comparison not recognised')
        n += 1
        ctx.ob('C08.R2', f, f.body, not problems, '%s compares the whole ID' % name.split('::', 1)[1], '; '.join(problems) or 'all ID bytes compared')
    if n < 6:
        raise AnalysisBroken('C08.R2: only %d instances' % n)


def r3(ctx):
    ctx.rule('C08.R3', 'every path of MessageMap::add that stores a message under its key also raises m_maxIdLength (and '
             'm_maxBroadcastIdLength for broadcast destinations) to the message\'s ID length; only add/remove/clear write '
             'm_messagesByKey and clear resets the maxima; each maximum is raised under its own comparison only', minimum=5)
    fb = ctx.fb
    fn = [f for f in fb.fns('ebusd::MessageMap::add') if 'Message *' in f.sig]
    if len(fn) != 1:
        raise AnalysisBroken('C08.R3: MessageMap::add(bool, Message*, bool) not found')
    fn = fn[0]
    ctx.touch(fn)
    refs = set()
    for nid, d, rhs, op, lhs in fn.assignments():
        if op == 'init' and d and rhs is not None and fn.key(rhs).startswith('this.m_messagesByKey['):
            refs.add(d.split(':')[-1])
    stores = [c for c in fn.all('CXXMemberCallExpr') if (fn.nodes[c].get('callee') or '').split('::')[-1] in ('push_back', 'insert') and
              ('this.m_messagesByKey' in fn.key(fn.nodes[c].get('obj', -1)) or fn.key(fn.nodes[c].get('obj', -1)) in refs)]
    if not stores:
        raise AnalysisBroken('C08.R3: insertion into m_messagesByKey not found')
    mx = set(nid for nid, d, rhs, op, lhs in fn.assignments() if d == 'this.m_maxIdLength')
    mb = set(nid for nid, d, rhs, op, lhs in fn.assignments() if d == 'this.m_maxBroadcastIdLength')
    for s in stores:
        # the update is conditional (if idLength > max): require the guarded update statement's test on every path:
        tests = set()
        for b in fn.blocks.values():
            if b.cond is not None and 'this.m_maxIdLength' in fn.key(b.cond):
                tests.add(b.id)
        sp = fn.pos(s)
        # from entry to the store or from the store to the exit, the comparison block must be passed
        before = not fn.reach([fn.entry], cut_blocks=tests) & {sp[0]} if tests else False
        after = (fn.exit not in fn.reach([sp[0]], cut_blocks=tests - {sp[0]})) if tests else False
        ok = bool(mx) and (before or after)
        ctx.ob('C08.R3', fn, s, ok, 'insert under key', 'maximum ID length maintained on every inserting path: %s' % ok)
    # each maximum follows its own comparison only: it is raised exactly when the new ID is longer than *that* maximum (the
    # broadcast one additionally for broadcast destinations); a guard on the other maximum makes the result depend on the
    # order in which definitions were added
    for nid, d, rhs, op, lhs in fn.assignments():
        if d not in ('this.m_maxIdLength', 'this.m_maxBroadcastIdLength') or rhs is None:
            continue
        other = 'this.m_maxBroadcastIdLength' if d == 'this.m_maxIdLength' else 'this.m_maxIdLength'
        atoms = set((a[0], a[1]) for a in fn.atoms(nid))
        own = ('(%s < %s)' % (d, fn.key(rhs)), True) in atoms or ('(%s <= %s)' % (fn.key(rhs), d), False) in atoms
        foreign = sorted(k for k, p in atoms if other in k)
        bc = d == 'this.m_maxIdLength' or any('getDstAddress() == #254' in k and p for k, p in atoms)
        ctx.ob('C08.R3', fn, nid, own and not foreign and bc, 'update of %s' % d.split('.')[-1],
               'guarded by its own comparison: %s; guards on the other maximum: %s; broadcast test: %s' % (own, foreign, bc))
    # who writes the map
    writers = set()
    for f in fb.functions:
        if f.cls != 'ebusd::MessageMap':
            continue
        for c in f.all('CXXMemberCallExpr', 'CXXOperatorCallExpr'):
            v = f.nodes[c]
            cal = (v.get('callee') or '')
            objk = f.key(v.get('obj', -1)) if 'obj' in v else (f.key(v['args'][0]) if v.get('args') else '')
            if 'this.m_messagesByKey' in objk and cal.split('::')[-1] in ('push_back', 'erase', 'clear', 'operator[]', 'insert', 'emplace'):
                writers.add(f.name)
    ok = writers <= {'ebusd::MessageMap::add', 'ebusd::MessageMap::remove', 'ebusd::MessageMap::clear'}
    ctx.ob('C08.R3', fn, fn.body, ok, 'writers of m_messagesByKey', '%s' % sorted(writers), nontrivial=False)
    clr = fb.fn('ebusd::MessageMap::clear')
    def chained_val(f, rhs):
        r = f.nodes.get(f.strip(rhs), {})
        while r.get('k') == 'BinaryOperator' and r.get('op') == '=':
            rhs = r['rhs']
            r = f.nodes.get(f.strip(rhs), {})
        return f.val(rhs)
    z = [d for nid, d, rhs, op, lhs in clr.assignments() if d in ('this.m_maxIdLength', 'this.m_maxBroadcastIdLength') and rhs is not None and chained_val(clr, rhs) == 0]
    ctx.ob('C08.R3', clr, clr.body, len(set(z)) == 2, 'clear resets the maxima', 'reset: %s' % sorted(set(z)), nontrivial=False)


def r4(ctx, find, mv):
    ctx.rule('C08.R4', 'MessageMap::find probes ID lengths from the maximum downwards by one until 0; at each length the '
             'passive key (with source, then without) is probed under withPassive, then the source field is cleared '
             'unconditionally before the active-read and active-write markers are OR-ed in, each under its own direction '
             'flag (withRead / withWrite)', minimum=5, star=True)
    fn = find
    # loop variable
    loops = fn.all('ForStmt')
    ok_loop = False
    maxv = None
    for c in fn.all('CallExpr', 'CXXMemberCallExpr'):
        if (fn.nodes[c].get('callee') or '').endswith('Message::createKey') and len(fn.nodes[c].get('args', [])) > 1:
            maxv = fn.key(fn.nodes[c]['args'][1])
    lenv = None
    for l in loops:
        v = fn.nodes[l]
        inc = fn.key(v['inc']) if 'inc' in v else ''
        init = fn.nodes.get(v.get('init'), {})
        iv = [(dd.get('name'), fn.key(dd['init'])) for dd in init.get('decls', []) if 'init' in dd]
        if len(iv) == 1 and iv[0][1] == maxv and maxv is not None:
            lenv = iv[0][0]
            ok_loop = inc in (lenv + '--', '--' + lenv)
    if lenv is None:
        raise AnalysisBroken('C08.R4: probe loop over the ID length not found in MessageMap::find')
    flagP, flagR, flagW = fn.P(4), fn.P(2), fn.P(3)
    ctx.ob('C08.R4', fn, fn.body, ok_loop, 'probe loop direction', 'starts at maxIdLength and decreases by one: %s' % ok_loop)
    brk = [b for b in fn.all('BreakStmt')]
    ok_exit = any(('(%s == #0)' % lenv, True) in set((a[0], a[1]) for a in fn.atoms(b)) for b in brk)
    ctx.ob('C08.R4', fn, fn.body, ok_exit, 'probe loop exit', 'leaves only after length 0 was probed: %s' % ok_exit)
    probes = [c for c in fn.all('CXXMemberCallExpr') if (fn.nodes[c].get('callee') or '').endswith('::getFirstAvailableFromIterator')]
    src_mask = mv.get('ID_SOURCE_MASK', 0x1f << 56)
    keyv = None
    for c in probes:
        for x in fn.walk(fn.nodes[c]['args'][0]):
            if fn.nodes[x]['k'] == 'DeclRefExpr' and fn.nodes[x].get('rk') == 'local' and fn.nodes[x].get('t', '').startswith('uint64'):
                keyv = fn.nodes[x].get('name')
    if keyv is None:
        raise AnalysisBroken('C08.R4: key variable of the probes not found')
    clears = set(nid for nid, v in fn.nodes.items() if v['k'] == 'CompoundAssignOperator' and v.get('op') == '&=' and
                 fn.key(v['lhs']) == keyv and fn.val(v['rhs']) is not None and (fn.val(v['rhs']) & U64) == (~src_mask & U64))
    if not clears:
        ctx.ob('C08.R4', fn, fn.body, False, 'source field cleared', 'no key &= ~ID_SOURCE_MASK found')
    for c in probes:
        arg = fn.key(fn.nodes[c]['args'][0])
        atoms = set((a[0], a[1]) for a in fn.atoms(c))
        consts = [fn.val(x) for x in fn.walk(fn.nodes[c]['args'][0]) if fn.val(x) is not None and fn.val(x) > (1 << 56)]
        markers = set((v >> 56) & 0x1f for v in consts)
        if markers & {0x1e, 0x1f}:
            # active probe: the source field must have been cleared on every path where it could be set
            kind = 'read' if any(v == mv.get('ID_SOURCE_ACTIVE_READ') for v in consts) else 'write'
            flag = flagR if kind == 'read' else flagW
            guarded = (flag, True) in atoms
            # every path from the loop body start to this probe either passes a clear or the (key & SOURCE_MASK) == 0 edge
            zero_edges = [e for e in fn.edges() if False]
            cut = []
            for b in fn.blocks.values():
                if b.cond is not None and len(b.succs) == 2:
                    ck = fn.key(fn.effective_cond(b.id))
                    if ck in ('((%s & #%d) == #0)' % (keyv, src_mask), '((%s & #%d) != #0)' % (keyv, src_mask)):
                        j = 0 if '== #0' in ck else 1
                        cut.append((b.id, j))
            tgt = fn.pos(c)
            starts = [fn.block_of(x) for x in probes if fn.line_of(x) < fn.line_of(c)] or [fn.entry]
            reach = fn.reaches_point(fn.entry, tgt, clears, cut_edges=cut)
            ctx.ob('C08.R4', fn, c, guarded and not reach, 'active %s probe' % kind,
                   'guarded by %s: %s; source number cleared (or known zero) on every path: %s' % (flag, guarded, not reach))
        else:
            guarded = (flagP, True) in atoms
            ctx.ob('C08.R4', fn, c, guarded, 'passive probe', 'guarded by withPassive: %s' % guarded)


def r5(ctx):
    ctx.rule('C08.R5', 'definitions that share one key (a chained definition is stored under its common ID prefix next to a '
             'plain definition with that ID) are searched longest ID first whatever the insertion order: MessageMap::add '
             'inserts at a position computed by comparing ID lengths (or the selection compares ID lengths); a plain '
             'push_back makes the result depend on the load order', minimum=1, star=True)
    fb = ctx.fb
    fn = [f for f in fb.fns('ebusd::MessageMap::add') if 'Message *' in f.sig][0]
    ctx.touch(fn)
    ins = []
    for c in fn.all('CXXMemberCallExpr'):
        v = fn.nodes[c]
        base = (v.get('callee') or '').split('::')[-1]
        if base in ('push_back', 'insert', 'emplace_back', 'emplace') and 'obj' in v:
            ok = fn.key(v['obj'])
            if 'm_messagesByKey' in ok:
                ins.append((c, base, None))
            else:
                # a reference local bound to m_messagesByKey[...]
                for nid, d, rhs, op, lhs in fn.assignments():
                    if op == 'init' and d and d.split(':')[-1] == ok and rhs is not None and 'm_messagesByKey' in fn.key(rhs):
                        ins.append((c, base, ok))
    if not ins:
        raise AnalysisBroken('C08.R5: insertion into m_messagesByKey not found')
    for c, base, ref in ins:
        okk = False
        why = 'appended with %s: candidates are tried in load order' % base
        if base in ('insert', 'emplace'):
            posk = fn.key(fn.nodes[c]['args'][0])
            for x in fn.walk(fn.nodes[c]['args'][0]):
                if fn.nodes[x]['k'] == 'DeclRefExpr' and fn.nodes[x].get('rk') == 'local':
                    posk = fn.nodes[x].get('name')
            # the position variable is advanced in a loop whose condition compares ID lengths
            for l in fn.all('WhileStmt', 'ForStmt'):
                cond = fn.nodes[l].get('cond')
                if cond is not None and 'getIdLength()' in fn.key(cond) and posk in fn.key(cond):
                    k = fn.key(cond)
                    okk = '>=' in k or '<' in k or '>' in k
                    why = 'insert position advances while %s' % k
        ctx.ob('C08.R5', fn, c, okk, 'insertion under the key', why)


def r7(ctx):
    ctx.mark('chain-prefix', 'C08.R7')
    ctx.rule('C08.R7', 'a chained definition is stored under the ID prefix that is common to ALL its parts: in Message::create the '
             'length the ID is cut to is reduced inside the loop over the parts, at a mismatch between the current part and '
             'the first one; a prefix computed from some parts only hides the other parts from the lookup', minimum=1)
    fb = ctx.fb
    fn = fb.fn('ebusd::Message::create')
    ctx.touch(fn)
    resizes = [c for c in fn.all('CXXMemberCallExpr') if (fn.nodes[c].get('callee') or '').endswith('::resize') and fn.nodes[c].get('args')]
    loops = [l for l in fn.all('WhileStmt') if 'getline' in fn.key(fn.nodes[l].get('cond', -1))]
    n = 0
    for c in resizes:
        lenv = fn.key(fn.nodes[c]['args'][0])
        if not lenv.isidentifier():
            continue
        decl = fn.ref_decl(fn.nodes[c]['args'][0])
        # only the resize of the ID to the chain prefix: its length variable is compared with the ID size
        ot = fn.nodes.get(fn.strip(fn.nodes[c].get('obj', -1)), {}).get('t') or ''
        if 'vector<unsigned char' not in ot and 'vector<ebusd::symbol_t' not in ot and 'vector<symbol_t' not in ot:
            continue
        n += 1
        inloop = set()
        for l in loops:
            inloop |= set(fn.walk(l))
        upd = [nid for nid, d, rhs, op, lhs in fn.assignments() if d == decl and op == '=' and nid in inloop]
        ok = False

        def loop_in_front(u, want):
            """a loop in front of the update u whose condition (every alternative) contains an atom that satisfies want:
            the update takes the value the loop stopped at"""
            for l in fn.all('ForStmt', 'WhileStmt'):
                lc = fn.nodes[l].get('cond')
                if lc is None or u in set(fn.walk(l)) or fn.line_of(l) > fn.line_of(u) or l not in inloop:
                    continue
                conj = facts.implied(fn, lc, True)
                if conj and all(any(want(*facts.atom_key(fn, a)) for a in cj) for cj in conj):
                    return True
            return False
        for u in upd:
            ua = [a[0] for a in fn.atoms(u)]
            if any('[' in k and ' == ' in k and k.count('[') >= 2 for k in ua):
                ok = True       # reduced at a byte mismatch between two IDs
            elif loop_in_front(u, lambda k, p_: '[' in k and ' == ' in k and k.count('[') >= 2 and p_):
                ok = True       # or set to where a loop over equal bytes of two IDs stopped
        ctx.ob('C08.R7', fn, c, ok, 'chain ID prefix length %s' % lenv, 'reduced per part at a mismatch with the first part: %s' % ok)
        # the prefix only shrinks from part to part: a new value is below the current one (the comparison stops at the
        # current prefix length); a prefix that can grow again holds bytes that an earlier part does not share
        for u in upd:
            uv = fn.nodes[u]
            ua = set((a[0], a[1]) for a in fn.atoms(u))
            rk = fn.key(uv['rhs'])
            if any(k.endswith('.empty()') or (k.isidentifier() and p_) for k, p_ in ua if '[' not in k) and \
                    not any('[' in k and ' == ' in k and k.count('[') >= 2 for k, p_ in ua):
                continue   # the start value taken from the first part
            mono = ('(%s < %s)' % (rk, lenv), True) in ua or ('(%s <= %s)' % (lenv, rk), False) in ua
            if not mono:
                # or the new value is the counter of a loop that is bounded by the current prefix length and lies in front
                # of the assignment: for (pos = 2; pos < prefix && same byte; pos++) {} prefix = pos;
                for l in fn.all('ForStmt', 'WhileStmt'):
                    lc = fn.nodes[l].get('cond')
                    if lc is None or u in set(fn.walk(l)) or fn.line_of(l) > fn.line_of(u):
                        continue
                    conj = facts.implied(fn, lc, True)
                    bounded = bool(conj) and all(any(facts.atom_key(fn, a) == ('(%s < %s)' % (rk, lenv), True) for a in cj) for cj in conj)
                    writes_between = [n2 for n2, d2, r2, o2, l2 in fn.assignments() if d2 and d2.split(':')[-1] in (rk, lenv) and
                                      n2 not in set(fn.walk(l)) and fn.line_of(l) < fn.line_of(n2) < fn.line_of(u)]
                    if bounded and not writes_between:
                        mono = True
            n += 1
            ctx.ob('C08.R7', fn, u, mono, 'new chain ID prefix length %s' % rk, 'only ever smaller than the current one: %s' % mono)
    if n < 1:
        raise AnalysisBroken('C08.R7: cut of the chain ID to its common prefix not found in Message::create')

def _add_fn(fb, rid):
    fn = [f for f in fb.fns('ebusd::MessageMap::add') if 'Message *' in f.sig]
    if len(fn) != 1:
        raise AnalysisBroken('%s: MessageMap::add(bool, Message*, bool) not found' % rid)
    return fn[0]


def r9(ctx):
    ctx.rule('C08.R9', 'only loaded definitions are found: MessageMap::add either stores the definition completely and returns '
             'RESULT_OK or rejects it and leaves no trace - behind every statement that enters the new message into a member '
             'container of the map (push_back / insert / emplace / element assignment with the message, addPollMessage) or '
             'raises a maximum ID length, no return with an error code is reachable; a definition rejected after it was '
             'entered under its key is still returned by find() (and deleted by the loader)', minimum=4)
    fb = ctx.fb
    fn = _add_fn(fb, 'C08.R9')
    ctx.touch(fn)
    msg = fn.P(1)
    errs = [r for r in fn.all('ReturnStmt') if fn.nodes[r].get('val') is not None and fn.val(fn.nodes[r]['val']) not in (0, None)]
    unknown = [r for r in fn.all('ReturnStmt') if fn.nodes[r].get('val') is not None and fn.val(fn.nodes[r]['val']) is None]
    sites = []
    for c in fn.calls():
        v = fn.nodes[c]
        last = (v.get('callee') or '').split('::')[-1]
        keys = [fn.key(a) for a in v.get('args', [])]
        if last in ('push_back', 'insert', 'emplace', 'emplace_back', 'addPollMessage') and msg in keys:
            sites.append((c, '%s(%s)' % (last, msg)))
    for nid, d, rhs, op, lhs in fn.assignments():
        if lhs is None or op == 'init':
            continue
        lk = fn.key(lhs)
        if rhs is not None and fn.key(rhs) == msg and lk.startswith('this.'):
            sites.append((nid, '%s = %s' % (lk, msg)))
        elif lk in ('this.m_maxIdLength', 'this.m_maxBroadcastIdLength'):
            sites.append((nid, 'raise of %s' % lk.split('.')[-1]))
    if len(sites) < 4 or not errs:
        raise AnalysisBroken('C08.R9: stores of the new message in MessageMap::add not recognised (%d sites, %d error returns)' % (len(sites), len(errs)))
    for sid, what in sites:
        if fn.block_of(sid) is None:
            continue
        bad = [r for r in errs + unknown if fn.reaches_point(fn.pos(sid)[0], fn.pos(r), set(), start_idx=fn.pos(sid)[1] + 1)]
        ctx.ob('C08.R9', fn, sid, not bad, what, 'no error return reachable behind it: %s%s' % (
            not bad, '' if not bad else ' (return at line %d)' % fn.line_of(bad[0])))


def r10(ctx):
    ctx.mark('replace-same-id', 'C08.R10')
    ctx.rule('C08.R10', 'replacing a definition removes only definitions with the same ID: the entries of a key bucket '
             '(m_messagesByKey) share a hash of the ID, not the ID, and a chained definition is stored under the prefix of '
             'its parts; so wherever MessageMap::add walks over a key bucket to collect or remove entries, the entry is '
             'taken only behind the virtual comparison checkId(const Message&) between it and the new message (which '
             'ChainedMessage overrides to compare the parts)', minimum=1)
    fb = ctx.fb
    fn = _add_fn(fb, 'C08.R10')
    ctx.touch(fn)
    msg = fn.P(1)

    def is_bucket(x, depth=0):
        k = fn.key(x)
        if 'm_messagesByKey' in k:
            return True
        if depth > 3:
            return False
        for y in fn.walk(x):
            v = fn.nodes[y]
            if v['k'] == 'DeclRefExpr' and v.get('rk') == 'local':
                d = fn.def_expr(y)
                if d is not None and d != y and is_bucket(d, depth + 1):
                    return True
        return False
    pnames = set(p['name'] for p in fn.params)
    # buckets handed to a lambda of this function
    lam_bucket = False
    for c in fn.calls():
        v = fn.nodes[c]
        if v['k'] == 'CXXOperatorCallExpr' and (v.get('callee') or '').endswith('::operator()') and '(anonymous class)' in (v.get('callee') or ''):
            if any(is_bucket(a) for a in v.get('args', [])[1:]):
                lam_bucket = True
    n = 0
    for l in fn.all('CXXForRangeStmt'):
        v = fn.nodes[l]
        rng = v.get('range')
        if rng is None:
            continue
        rv = fn.nodes[fn.strip(rng, casts=True)]
        over = is_bucket(rng) or (lam_bucket and rv.get('k') == 'DeclRefExpr' and rv.get('rk') == 'param' and rv.get('name') not in pnames)
        if not over:
            continue
        lv = (v.get('loopvar') or '').split(':')[-1]
        inside = set(fn.walk(v['body']))
        takes = [c for c in fn.calls() if c in inside and (fn.nodes[c].get('callee') or '').split('::')[-1] in ('push_back', 'remove', 'erase', 'emplace_back')
                 and lv in [fn.key(a) for a in fn.nodes[c].get('args', [])]]
        checks = [c for c in fn.calls() if c in inside and (fn.nodes[c].get('callee') or '') == 'ebusd::Message::checkId' and
                  len(fn.nodes[c].get('args', [])) == 1 and
                  {fn.key(fn.nodes[c].get('obj', -1)), fn.key(fn.nodes[c]['args'][0]).lstrip('*')} == {msg, lv}]
        for t in takes:
            n += 1
            if fn.block_of(t) is not None and checks:
                ok = fn.needs_one_of(t, [(fn.key(c), True) for c in checks])
            else:
                ok = False
            ctx.ob('C08.R10', fn, t, ok, 'entry of a key bucket taken for removal',
                   'only behind checkId(const Message&) with the new message: %s' % ok)
    if n == 0:
        raise AnalysisBroken('C08.R10: the walk over the key bucket in replace mode was not recognised')


def r13(ctx):
    ctx.rule('C08.R13', 'the longest matching ID is found also for a destination wildcard: in MessageMap::find(master, ...) the probe '
             'over ID lengths starts at m_maxIdLength; the smaller m_maxBroadcastIdLength is chosen only for a broadcast telegram '
             'that is NOT looked up with anyDestination (the key of such a lookup carries SYN as destination and addresses the '
             'definitions without destination, which m_maxBroadcastIdLength does not count)', minimum=1)
    fb = ctx.fb
    fns = [f for f in fb.fns('ebusd::MessageMap::find') if 'MasterSymbolString' in f.sig]
    if not fns:
        raise AnalysisBroken('C08.R13: MessageMap::find(master, ...) not found')
    fn = fns[0]
    ctx.touch(fn)
    anyd = [p_['name'] for p_ in fn.params if p_['name'].lower().startswith('anydest')]
    if not anyd:
        raise AnalysisBroken('C08.R13: parameter anyDestination of find not found')
    n = 0
    for x, v in sorted(fn.nodes.items()):
        if v['k'] != 'ConditionalOperator':
            continue
        for side, pol in (('then', True), ('else', False)):
            if fn.key(v[side]) != 'this.m_maxBroadcastIdLength':
                continue
            n += 1
            dnf = facts.implied(fn, v['cond'], pol)
            ok = bool(dnf) and all(any(facts.atom_key(fn, a) == (anyd[0], False) for a in cj) for cj in dnf)
            ctx.ob('C08.R13', fn, x, ok, 'choice of the broadcast maximum as start length', 'only when anyDestination is false: %s' % ok)
    for nid, d, rhs, op, lhs in fn.assignments():
        if rhs is not None and fn.key(rhs) == 'this.m_maxBroadcastIdLength' and fn.block_of(nid) is not None:
            n += 1
            ok = fn.needs_one_of(nid, [(anyd[0], False)])
            ctx.ob('C08.R13', fn, nid, ok, 'choice of the broadcast maximum as start length', 'only when anyDestination is false: %s' % ok)
    if n < 1:
        raise AnalysisBroken('C08.R13: the use of m_maxBroadcastIdLength in find was not recognised')


def run(ctx):
    r13(ctx)
    import rules.common as _cmm
    ctx.rule('C08.R12', 'a mask for a 64 bit value is computed in 64 bits: where the sources of this property combine a 64 bit integer (a key) by &, | or ^ with an operand the compiler widens from 32 bits or less, that operand contains no shift or complement with a non-constant value - ~(0xff << 8*(3-len)) in int clears the whole upper half of the key (length, source, destination, command) for the last shortening', minimum=12)
    _cmm.wide_mask_rule(ctx, 'C08.R12', lambda f: f.relfile.startswith(('src/lib/ebus/message.',)), 12)
    import rules.common as _cmw
    ctx.rule('C08.R11', 'a 64 bit key or time stays 64 bit: where the sources of this property call a repository function declared to return uint64_t (message and answer keys, the millisecond clock), the result is not converted implicitly to a narrower integer at the call - a key held in an unsigned int loses ID length, source, destination and command bytes and never matches a stored key again', minimum=6)
    _cmw.wide_result_rule(ctx, 'C08.R11', lambda f: f.relfile.startswith(('src/lib/ebus/message.',)), 6)
    r9(ctx)
    r10(ctx)
    r5(ctx)
    find, mv = r1(ctx)
    r2(ctx, find)
    r3(ctx)
    r4(ctx, find, mv)
    import rules.C11 as c11
    ctx.borrow(c11.r4, {'C11.R4': 'C08.R6'},
               'the source bits of the lookup key are the master number of QQ: two masters with the same number share the '
               'definitions that are restricted to one of them')
    r7(ctx)
    import rules.C09 as c09
    c09.symbol_layout_rule(ctx, 'C08.R8')
