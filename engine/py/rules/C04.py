"""C04 - every bus request completes exactly once (ownership / pairing clauses).

C04.R1 (core) ownership typestate of m_currentRequest in setState (notify once, exactly one sink, pointer nulled)
C04.R2 (core) take discipline: a request removed from the queue becomes the current request on every path, and the current
              request is only taken through a successful remove
C04.R3 (core) who-may-call: notify() and delete of bus requests
C04.R4        drain of pending requests runs on every setState(noSignal)
C04.R5 (core) queue lock pairing
C04.R6        a waiting remove() only ends when the item was found (or the condition variable failed)
"""
import facts
from facts import AnalysisBroken, Explorer
import rules.automaton as A
import rules.locks as locks

NEXT = 'this.m_nextRequests'
FIN = 'this.m_finishedRequests'
CUR = 'this.m_currentRequest'


def qcall(fn, e, method, obj=None):
    v = fn.nodes[e]
    if v['k'] != 'CXXMemberCallExpr':
        return False
    cal = v.get('callee') or ''
    if not (cal.startswith('ebusd::Queue') and cal.endswith('::' + method)):
        return False
    return obj is None or fn.key(v.get('obj', -1)) == obj


def r1(ctx):
    ctx.rule('C04.R1', 'in setState the current request follows the typestate owned -> (notified)? -> exactly one sink '
             '(re-queue, delete when self-deleting, or finished queue) -> pointer cleared: no path notifies twice, sinks '
             'twice, clears the pointer of an unconsumed request, or leaves the function with a notified/consumed request '
             'still current; the same for each request popped in the no-signal drain loop', minimum=3, star=True)
    fb = ctx.fb
    fn = fb.fn(A.SS)
    ctx.touch(fn)
    problems = {}
    counted = {'notify': set(), 'sink': set(), 'null': set()}

    def report(kind, e, path, ex):
        problems.setdefault((kind, e), path)

    def on_elem(user, e, path):
        v = fn.nodes[e]
        k = v['k']
        st = user
        if k == 'CXXMemberCallExpr':
            cal = v.get('callee') or ''
            if cal.endswith('::notify') and fn.key(v.get('obj', -1)) == CUR:
                counted['notify'].add(e)
                if st == 'T':
                    problems.setdefault(('notified twice', e), path)
                if st == 'C':
                    problems.setdefault(('notified after hand-over', e), path)
                return 'T'
            if qcall(fn, e, 'push') and v.get('args') and fn.key(v['args'][0]) == CUR:
                counted['sink'].add(e)
                if st == 'C':
                    problems.setdefault(('handed over twice', e), path)
                if st == 'N':
                    return st
                return 'C'
            if qcall(fn, e, 'pop', NEXT):
                return st
        if k == 'CXXDeleteExpr' and fn.key(v['ch'][0]) == CUR:
            counted['sink'].add(e)
            if st == 'C':
                problems.setdefault(('deleted after hand-over', e), path)
            return 'C'
        if k == 'BinaryOperator' and v.get('op') == '=' and fn.key(v['lhs']) == CUR:
            rk = fn.key(v['rhs'])
            if rk == '#0':
                counted['null'].add(e)
                if st in ('O', 'T'):
                    problems.setdefault(('request dropped: pointer cleared in state %s' % {'O': 'owned (not completed)', 'T': 'notified but not handed over'}[st], e), path)
                return 'N'
            if 'pop(' in rk:
                # (a still-owned request at this point would need setState(noSignal) with a non-negative result while a
                # request is current, which the callers exclude; only the locally decidable case is reported)
                if st == 'T':
                    problems.setdefault(('notified request overwritten by the drain loop', e), path)
                return 'U'
        if k == 'ReturnStmt':
            if st == 'T':
                problems.setdefault(('returns with a notified request that was not handed over', e), path)
            if st == 'C':
                problems.setdefault(('returns with a dangling current request (handed over but pointer not cleared)', e), path)
        return st

    def on_edge(user, b, j, dnf):
        st = user
        for conj in dnf:
            for a in conj:
                k, p = facts.atom_key(fn, a)
                if k in ('(%s == #0)' % CUR, CUR) or k.startswith('((%s = ' % CUR):
                    isnull = (k != CUR and p) or (k == CUR and not p)
                    if k.startswith('((%s = ' % CUR):
                        isnull = not p if k.endswith('!= #0)') else p
                    if len(dnf) == 1:
                        if isnull and st in ('U',):
                            st = 'N'
                        elif not isnull and st in ('U',):
                            st = 'O'
                        elif isnull and st in ('O', 'T'):
                            return None   # infeasible
        return st

    ex = Explorer(fn, on_elem=on_elem, on_edge=on_edge)
    ex.run(fn.entry, 0, 'U')
    if len(counted['notify']) < 2 or len(counted['sink']) < 4:
        raise AnalysisBroken('C04.R1: setState shape not recognised (notify sites %d, sinks %d)' % (
            len(counted['notify']), len(counted['sink'])))
    sites = sorted(counted['notify'] | counted['sink'] | counted['null'])
    bad_nodes = set(e for (_, e) in problems)
    for e in sites:
        mine = [(k, p) for (k, n), p in problems.items() if n == e]
        ctx.ob('C04.R1', fn, e, not mine, 'ownership event %s' % fn.text(e)[:60],
               '; '.join(k for k, _ in mine) or 'consistent on all paths',
               witness=ex.describe_path(mine[0][1]) if mine else None)
    for (kind, e), path in problems.items():
        if e not in sites:
            ctx.ob('C04.R1', fn, e, False, 'exit of setState', kind, witness=ex.describe_path(path))


def r2(ctx):
    ctx.rule('C04.R2', 'a request taken out of m_nextRequests by a successful remove() becomes m_currentRequest on every path '
             'that follows (it must not be dropped), and m_currentRequest is assigned from the queue head only after such a '
             'successful remove(): a request is never both queued and current, and never neither', minimum=4, star=True)
    fb = ctx.fb
    n = 0
    for name in (A.HS, A.HR):
        fn = fb.fn(name)
        ctx.touch(fn)
        removes = [c for c in fn.all('CXXMemberCallExpr') if qcall(fn, c, 'remove', NEXT)]
        takes = [(nid, rhs) for nid, d, rhs, op, lhs in fn.assignments() if d == CUR and rhs is not None and fn.key(rhs) != '#0']
        for nid, rhs in takes:
            n += 1
            var = fn.key(rhs)
            # dominated by remove(var) success, or an unconditional remove(var) statement precedes on all paths
            atoms = set((a[0], a[1]) for a in fn.atoms(nid))
            ok = ('%s.remove(%s,#0)' % (NEXT, var), True) in atoms
            if not ok:
                stmts = set(c for c in removes if fn.key(fn.nodes[c]['args'][0]) == var and
                            fn.nodes.get(fn.parent(c), {}).get('k') not in ('UnaryOperator', 'BinaryOperator', 'IfStmt', 'ImplicitCastExpr'))
                ok = bool(stmts) and not fn.reaches_point(fn.entry, fn.pos(nid), stmts)
            ctx.ob('C04.R2', fn, nid, ok, 'm_currentRequest = %s in %s' % (var, name.split('::')[-1]),
                   'taken only after the request left the queue: %s' % ok)
        for c in removes:
            n += 1
            var = fn.key(fn.nodes[c]['args'][0])
            mine = set(nid for nid, rhs in takes if fn.key(rhs) == var)
            # success edges of this remove
            edges = fn.edges_with_atom('%s.remove(%s,#0)' % (NEXT, var), True)
            edges = [e for e in edges if fn.block_of(c) == e[0] or c in set(fn.walk(fn.blocks[e[0]].cond or -1))]
            if not edges:
                # remove used as a statement: the following code must assign
                sp = fn.pos(c)
                dropped = fn.reaches_point(sp[0], (fn.exit, 0), mine, start_idx=sp[1] + 1)
            else:
                dropped = any(fn.reaches_point(fn.blocks[b].succs[j], (fn.exit, 0), mine) for b, j in edges)
            ctx.ob('C04.R2', fn, c, not dropped, 'remove(%s) in %s' % (var, name.split('::')[-1]),
                   'the removed request becomes current on every following path: %s' % (not dropped))
    if n < 4:
        raise AnalysisBroken('C04.R2: only %d take sites found' % n)


def r3(ctx):
    ctx.rule('C04.R3', 'BusRequest::notify (any override) is called only from DirectProtocolHandler::setState; a BusRequest is '
             'deleted only there (when it is self-deleting), in the handler destructors after join(), and by its creator in '
             'BusHandler on paths where it was not (successfully) handed to the protocol handler', minimum=6, star=True)
    fb = ctx.fb
    req_classes = {'ebusd::BusRequest'} | fb.derived('ebusd::BusRequest')
    n = 0
    for f in fb.functions:
        for c in f.all('CXXMemberCallExpr'):
            v = f.nodes[c]
            cal = v.get('callee') or ''
            if cal.endswith('::notify') and v.get('cls') in req_classes:
                n += 1
                ok = f.name == A.SS
                ctx.ob('C04.R3', f, c, ok, 'notify() call in %s' % f.name, 'completion callback invoked by the bus state machine only: %s' % ok)
        for d in f.all('CXXDeleteExpr'):
            t = f.nodes[d].get('delt', '')
            if t not in req_classes:
                continue
            n += 1
            what = f.key(f.nodes[d]['ch'][0])
            if f.name == A.SS:
                # either under deleteOnFinish() or ... (both sites)
                atoms = set((a[0], a[1]) for a in f.atoms(d))
                ok = any('deleteOnFinish()' in k and p for k, p in atoms)
                why = 'self-deleting request: %s' % ok
            elif f.d.get('dtor') and f.cls in ('ebusd::DirectProtocolHandler', 'ebusd::ProtocolHandler'):
                joins = f.calls('join')
                ok = bool(joins) and not f.reaches_point(f.entry, f.pos(d), set(joins))
                why = 'after join() of the bus thread: %s' % ok
            elif f.cls == 'ebusd::BusHandler':
                # creator deletes only if the request was not accepted: a dominating test of an addRequest/prepare result
                atoms = set((a[0], a[1]) for a in f.atoms(d))
                ok = any(('result' in k or 'ret' in k.lower() or 'addRequest' in k or 'prepare' in k) for k, p in atoms) or \
                    f.name in ('ebusd::BusHandler::scanAndWait',)
                why = 'creator-side cleanup under %s' % sorted(k for k, p in atoms)[:3]
            else:
                ok = False
                why = 'unexpected owner'
            ctx.ob('C04.R3', f, d, ok, 'delete %s in %s' % (what, f.name.split('::')[-1]), why)
    if n < 6:
        raise AnalysisBroken('C04.R3: only %d notify/delete sites' % n)


def r4(ctx):
    ctx.rule('C04.R4', 'every setState(bs_noSignal, ...) call completes all queued requests: the drain loop is guarded by '
             'state == bs_noSignal alone (not by the previous state), so requests queued while the signal stays away are '
             'completed by the next no-signal tick', minimum=1)
    fb = ctx.fb
    fn = fb.fn(A.SS)
    states, _ = A.bus_states(fb)
    inv = {v: k for k, v in states.items()}
    pops = [c for c in fn.all('CXXMemberCallExpr') if qcall(fn, c, 'pop', NEXT)]
    if not pops:
        raise AnalysisBroken('C04.R4: drain loop not found')
    for c in pops:
        atoms = [(a[0], a[1]) for a in fn.atoms(c)]
        want = ('(%s == #%d)' % (fn.P(0), inv['bs_noSignal']), True)
        extra = [a for a in atoms if a != want]
        ok = want in atoms and not extra
        ctx.ob('C04.R4', fn, c, ok, 'drain loop guard', 'guards %s' % atoms)


def r5(ctx):
    ctx.rule('C04.R5', 'in Queue<T> every access to the list lies between pthread_mutex_lock and pthread_mutex_unlock on all '
             'paths and no path leaves a method with the mutex held', minimum=4, star=True)
    fb = ctx.fb
    seen = set()
    n = 0
    for fn in fb.functions:
        if not fn.name.startswith('ebusd::Queue') or fn.d.get('ctor') or fn.d.get('dtor'):
            continue
        m = fn.name.split('::')[-1]
        if m in seen or not fn.blocks:
            continue
        seen.add(m)
        ctx.touch(fn)
        n += 1
        is_lock = lambda f, e: locks.callee_is(f, e, ('pthread_mutex_lock',))
        is_unlock = lambda f, e: locks.callee_is(f, e, ('pthread_mutex_unlock',))

        def is_access(f, e):
            v = f.nodes[e]
            return v['k'] == 'MemberExpr' and v.get('this') and v.get('name') == 'm_queue'
        problems, ex = locks.pairing(fn, is_lock, is_unlock, is_access)
        ctx.ob('C04.R5', fn, fn.body, not problems, 'Queue::%s' % m,
               '; '.join('%s at line %d' % (k, fn.line_of(e)) for k, e, p in problems) or 'lock/unlock paired, all list accesses locked',
               witness=ex.describe_path(problems[0][2]) if problems and problems[0][2] else None)
    if n < 4:
        raise AnalysisBroken('C04.R5: only %d Queue methods found' % n)


def r6(ctx):
    ctx.rule('C04.R6', 'Queue::remove(item, wait=true) leaves its loop only when the item was found and removed, or the '
             'condition variable reports an error other than a timeout: there is no time-based exit, so a waiting caller '
             '(sendAndWait with a request on its stack) is never released while its request is still queued or in flight',
             minimum=1)
    fb = ctx.fb
    fns = [f for f in fb.functions if f.name.startswith('ebusd::Queue') and f.name.endswith('::remove') and f.blocks]
    if not fns:
        raise AnalysisBroken('C04.R6: Queue::remove instantiation not found')
    fn = fns[0]
    ctx.touch(fn)
    breaks = fn.all('BreakStmt')
    okall = True
    why = []
    for b in breaks:
        atoms = set((a[0], a[1]) for a in fn.atoms(b))
        legit = any('size()' in k and not p and '==' in k for k, p in atoms) or (fn.P(1), False) in atoms or \
            (any(k.endswith(' == #0)') and not p and 'size()' not in k for k, p in atoms) and
             any('#110' in k and not p for k, p in atoms))
        if not legit:
            okall = False
            why.append('break at line %d under %s' % (fn.line_of(b), sorted(atoms)))
    # the queue is searched on every pass through the loop that finds it non-empty: the search is not made dependent on
    # anything remembered from an earlier pass (the size is no fingerprint of the content: one entry taken out by another
    # waiter and another one pushed leave the same size)
    for c in fn.calls('remove'):
        v = fn.nodes[c]
        if 'obj' not in v or not fn.key(v['obj']).endswith('m_queue'):
            continue
        atoms = set((a[0], a[1]) for a in fn.atoms(c))
        import re as _re
        strange = sorted(k for k, p_ in atoms if not _re.match(r'^\((\w+|this\.m_queue\.size\(\)) (==|<|<=) #0\)$', k) and
                         not k.endswith('.empty()') and k != fn.P(1) and not k.startswith('#'))
        if strange:
            okall = False
            why.append('the search for the item depends on %s' % strange)
    loops = fn.all('WhileStmt', 'ForStmt', 'DoStmt')
    cond_true = all(fn.val(fn.nodes[l].get('cond')) == 1 for l in loops if 'cond' in fn.nodes[l])
    ctx.ob('C04.R6', fn, fn.body, okall and cond_true and len(breaks) >= 3, 'exits of Queue::remove loop',
           '; '.join(why) or 'loop is while(true) with %d exits: found / not waiting / condvar error' % len(breaks))


def r7(ctx):
    ctx.rule('C04.R7', 'a request that is told the final result is finished: where the protocol handler calls notify() and '
             'discards the answer (the drain of the queue on signal loss passes a constant result), every notify() '
             'implementation returns false on every path that is feasible for that result - a "restart me" that nobody '
             'looks at leaves the request (and the scan counter behind it) unfinished for ever', minimum=3)
    import re
    fb = ctx.fb
    consts = set()
    for fn in fb.functions:
        if not fn.relfile.startswith('src/lib/ebus/protocol') or not fn.blocks:
            continue
        for c in fn.all('CXXMemberCallExpr'):
            v = fn.nodes[c]
            if not (v.get('callee') or '').endswith('BusRequest::notify') or not v.get('args'):
                continue
            par = fn.nodes.get(fn.parent(c), {})
            if par.get('k') in ('CompoundStmt', 'WhileStmt', 'IfStmt', 'ForStmt') and fn.val(v['args'][0]) is not None:
                consts.add(fn.val(v['args'][0]))
    if not consts:
        raise AnalysisBroken('C04.R7: no notify() call with discarded answer found in the protocol handler')
    impls = [f for f in fb.functions if f.name.endswith('Request::notify') and f.blocks and len(f.params) == 2]
    seen = set()
    n = 0
    for fn in impls:
        if fn.name in seen:
            continue
        seen.add(fn.name)
        ctx.touch(fn)
        rd = fn.params[0]['decl']
        rn = fn.params[0]['name']
        writes = set(nid for nid, d, rhs, op, lhs in fn.assignments() if d == rd)
        for R in sorted(consts):
            bad = []

            def on_elem(user, e, path):
                if e in writes:
                    return 'unknown'
                v = fn.nodes[e]
                if v['k'] == 'ReturnStmt':
                    if v.get('val') is None or fn.val(v['val']) != 0:
                        bad.append(e)
                    return None
                return user

            def on_edge(user, b, j, dnf):
                if user != 'R':
                    return user
                # the edge is infeasible for result == R if every alternative contains an atom on the parameter that R falsifies
                feasible = False
                for conj in dnf:
                    ok = True
                    for a in conj:
                        k, pol = facts.atom_key(fn, a)
                        m = re.match(r'^\(%s (<|<=|==|!=|>|>=) #(-?\d+)\)$' % re.escape(rn), k)
                        if m:
                            c = int(m.group(2))
                            holds = {'<': R < c, '<=': R <= c, '==': R == c, '!=': R != c, '>': R > c, '>=': R >= c}[m.group(1)]
                            if holds != bool(pol):
                                ok = False
                    feasible = feasible or ok
                return user if feasible else None
            facts.Explorer(fn, on_elem=on_elem, on_edge=on_edge).run(fn.entry, 0, 'R')
            n += 1
            ctx.ob('C04.R7', fn, fn.body, not bad, '%s for result %d' % (fn.name.split('::', 1)[1], R),
                   'asks for a restart at line(s) %s' % sorted(set(fn.line_of(x) for x in bad)) if bad else 'finishes on every feasible path')
    if n < 3:
        raise AnalysisBroken('C04.R7: only %d notify implementations found' % n)


def r10(ctx):
    ctx.mark('arbitration-disarm', 'C04.R10')
    ctx.rule('C04.R10', 'a failed start of an arbitration leaves the device disarmed: in every startArbitration implementation that '
             'stores the master address, each return of a result that is not known to be RESULT_OK is reached only with '
             'm_arbitrationMaster reset to SYN - otherwise isArbitrating() stays true, no further request is started and the '
             'queued requests are never completed', minimum=1)
    import re
    fb = ctx.fb
    n = 0
    seen = set()
    for fn in fb.functions:
        if not fn.name.endswith('::startArbitration') or not fn.blocks or fn.name in seen:
            continue
        seen.add(fn.name)
        pn = fn.P(0)
        arm = set(nid for nid, d, rhs, op, lhs in fn.assignments() if d == 'this.m_arbitrationMaster' and rhs is not None and fn.key(rhs) == pn)
        disarm = set(nid for nid, d, rhs, op, lhs in fn.assignments() if d == 'this.m_arbitrationMaster' and rhs is not None and fn.val(rhs) == 170)
        if not arm:
            continue
        ctx.touch(fn)
        writes = {}
        for nid, d, rhs, op, lhs in fn.assignments():
            if d and ':' in d:
                writes[nid] = d.split(':')[-1]
        bad = []

        def on_elem(user, e, path):
            armed, okv = user
            if e in arm:
                armed = True
            elif e in disarm:
                armed = False
            if e in writes:
                okv = frozenset(x for x in okv if x != writes[e])
            v = fn.nodes[e]
            if v['k'] == 'ReturnStmt':
                rv = v.get('val')
                okret = rv is None or fn.val(rv) == 0 or fn.key(rv) in okv
                if armed and not okret:
                    bad.append(e)
                return None
            return (armed, okv)

        def on_edge(user, b, j, dnf):
            armed, okv = user
            if len(dnf) == 1:
                for a in dnf[0]:
                    k, p = facts.atom_key(fn, a)
                    m = re.match(r'^\((\w+) == #0\)$', k)
                    if m and p:
                        okv = frozenset(set(okv) | {m.group(1)})
                    # the parameter itself being SYN means "disarm": nothing is armed on that path
                    if k == '(%s == #170)' % pn and p:
                        armed = False
            return (armed, okv)
        # a request to disarm (parameter == SYN) is not a start
        facts.Explorer(fn, on_elem=on_elem, on_edge=on_edge).run(fn.entry, 0, (False, frozenset()))
        n += 1
        ctx.ob('C04.R10', fn, fn.body, not bad, 'error returns of %s' % fn.name.split('::', 1)[1],
               'returns a possible error with the arbitration still armed at line(s) %s' % sorted(set(fn.line_of(x) for x in bad)) if bad
               else 'every possible error return is reached disarmed')
    if n < 1:
        raise AnalysisBroken('C04.R10: no startArbitration implementation that stores the master address found')


def r12(ctx):
    ctx.rule('C04.R12', 'the own AUTO-SYN counts as a SYN for the lock counter: handleReceive returns early after an AUTO-SYN it '
             'sent itself and so never reaches the SYN handling that counts m_remainLockCount down; on every path from the '
             'AUTO-SYN send to that early return the counter is therefore written (reset to 0). With the reset bound to a '
             'condition, a request re-queued after a lost arbitration is never started again while ebusd is the SYN '
             'generator of a quiet bus', minimum=1)
    import rules.C03 as c03
    fb = ctx.fb
    fn = fb.fn(A.HR)
    ctx.touch(fn)
    c, recvs, rsym = c03.autosyn_sites(fn)
    flags = []
    for nid, d, rhs, op, lhs in fn.assignments():
        if op != '=' or rhs is None or fn.val(rhs) != 1 or not d or d.startswith('this.') or lhs is None:
            continue
        if fn.nodes[fn.strip(lhs, casts=True)].get('rk') != 'local':
            continue
        if (('(%s == #%d)' % (rsym, c03.SYN), True) in set((a[0], a[1]) for a in fn.atoms(nid))) and \
                fn.reaches_point(fn.pos(c)[0], fn.pos(nid), set(), start_idx=fn.pos(c)[1] + 1):
            flags.append(nid)
    if not flags:
        raise AnalysisBroken('C04.R12: the flag that marks an own AUTO-SYN in handleReceive was not recognised')
    lockw = set(nid for nid, d, rhs, op, lhs in fn.assignments() if lhs is not None and fn.key(lhs) == 'this.m_remainLockCount' and
                (op in ('--', '-=') or (rhs is not None and fn.val(rhs) == 0)))
    for f in flags:
        before = not fn.reaches_point(fn.pos(c)[0], fn.pos(f), lockw, start_idx=fn.pos(c)[1] + 1)
        after = not fn.reaches_point(fn.pos(f)[0], (fn.exit, 0), lockw, start_idx=fn.pos(f)[1] + 1)
        ok = before or after
        ctx.ob('C04.R12', fn, f, ok, 'own AUTO-SYN and the lock counter',
               'the counter is reset/decremented on every path from the send to the mark: %s; or from the mark to the return: %s' % (before, after))


def request_owns_data_rule(ctx, rid):
    """a request created with new outlives the function that creates it: no reference (or pointer to a local) it keeps as a data
    member may be bound to a local variable of the creating function"""
    fb = ctx.fb
    n = 0
    seen = set()
    for fn in fb.functions:
        if fn.relfile not in ('src/ebusd/bushandler.cpp', 'src/ebusd/mainloop.cpp') or not fn.nodes or (fn.name, fn.sig) in seen:
            continue
        seen.add((fn.name, fn.sig))
        for x, v in sorted(fn.nodes.items()):
            if v['k'] != 'CXXNewExpr' or not (v.get('newt') or '').endswith('Request') or v.get('init') is None:
                continue
            ce = fn.nodes[fn.strip(v['init'], casts=True)]
            if ce.get('k') != 'CXXConstructExpr':
                continue
            cls = fb.classes.get(v['newt'])
            ctors = [f for f in fb.functions if f.name == ce.get('callee') and len(f.params) >= len(ce.get('args', []))]
            if cls is None or not ctors:
                raise AnalysisBroken('%s: class or constructor of %s not found' % (rid, v['newt']))
            ct = ctors[0]
            ctx.touch(fn)
            ctx.touch(ct)
            ftypes = {f_['name']: f_.get('t') or '' for f_ in cls.get('fields', [])}
            n += 1
            bad = []
            for i in ct.inits:
                t = ftypes.get(i.get('member'))
                if t is None or not (t.rstrip().endswith('&')):
                    continue
                src = ct.nodes[ct.strip(i['init'], casts=True)]
                if src.get('k') != 'DeclRefExpr' or src.get('rk') != 'param':
                    continue
                idx = [k for k, p_ in enumerate(ct.params) if p_.get('decl') == src.get('decl')]
                if not idx or idx[0] >= len(ce.get('args', [])):
                    continue
                a = fn.nodes[fn.strip(ce['args'][idx[0]], casts=True)]
                if a.get('k') == 'DeclRefExpr' and a.get('rk') == 'local' and not (a.get('t') or '').rstrip().endswith(('&', '*')):
                    bad.append('member %s (%s) is bound to the local %s of %s' % (i.get('member'), t, a.get('name'), fn.name.split('::', 1)[1]))
            ctx.ob(rid, fn, x, not bad, 'new %s in %s' % (v['newt'].split('::')[-1], fn.name.split('::', 1)[1]),
                   'keeps no reference to a local of the creating function: %s%s' % (not bad, '' if not bad else ' - ' + '; '.join(bad)))
    if n < 2:
        raise AnalysisBroken('%s: only %d request allocations found' % (rid, n))


def r13(ctx):
    ctx.rule('C04.R13', 'a request is still intact when its completion callback runs: a request object created with new outlives '
             'the function that creates it (the protocol thread completes it later), so none of its reference data members is '
             'bound, through the constructor, to a local variable of the creating function - the restart decision of a scan '
             'over several addresses would otherwise copy from a dead stack frame', minimum=2)
    request_owns_data_rule(ctx, 'C04.R13')


def r15(ctx):
    ctx.rule('C04.R15', 'a SYN ends the exchange of the current request, whatever else is buffered: where handleReceive handles a '
             'received SYN (outside the closing SYN of an own exchange) and enters ready/skip through setState, the result '
             'handed over is negative - so that setState completes the current request - unless the choice of a non-negative '
             'result is tied to m_currentRequest == nullptr. A SYN that arrives in one read chunk with the next telegram gives '
             'RESULT_CONTINUE; passed on as it is, the request stays current in state ready, ebusd follows the foreign telegram '
             'as if it were its own exchange (acknowledges the foreign response, reports its own request as sent)', minimum=1)
    fb = ctx.fb
    fn = fb.fn(A.HR)
    ctx.touch(fn)
    states, _ = A.bus_states(fb)
    import rules.C03 as c03
    c_, recvs, rsym = c03.autosyn_sites(fn)
    n = 0
    for c in fn.calls('setState'):
        v = fn.nodes[c]
        args = v.get('args', [])
        if len(args) < 2 or states.get(fn.val(args[0])) not in ('bs_ready', 'bs_skip'):
            continue
        atoms = set((a[0], a[1]) for a in fn.atoms(c))
        if ('(%s == #%d)' % (rsym, c03.SYN), True) not in atoms:
            continue
        if any(k.startswith('(result < #0)') and p_ for k, p_ in atoms):
            continue
        inv = {v_: k_ for k_, v_ in states.items()}
        if fn.needs_one_of(c, [('(this.m_state == #%d)' % inv['bs_noSignal'], True), ('(this.m_state == #%d)' % inv['bs_skip'], True)]):
            continue    # in noSignal / skip no request is current (entering them completed it)
        n += 1
        nocur_call = fn.needs_one_of(c, [('(this.m_currentRequest == #0)', True)])
        bad = []

        def leaves(x, conds):
            x = fn.strip(x, casts=True)
            nd = fn.nodes[x]
            if nd['k'] == 'ConditionalOperator':
                leaves(nd['then'], conds + [(nd['cond'], True)])
                leaves(nd['else'], conds + [(nd['cond'], False)])
                return
            val = fn.val(x)
            if val is not None and val < 0:
                return
            # non-negative or unknown: allowed only where no request is current
            tied = nocur_call
            for cnd, pol in conds:
                for conj in facts.implied(fn, cnd, pol):
                    pass
                dnf = facts.implied(fn, cnd, pol)
                if dnf and all(any(facts.atom_key(fn, a) == ('(this.m_currentRequest == #0)', True) for a in cj) for cj in dnf):
                    tied = True
            if not tied:
                bad.append(fn.key(x))
        leaves(args[1], [])
        ctx.ob('C04.R15', fn, c, not bad, 'setState(%s, ...) on a received SYN' % states.get(fn.val(args[0])),
               'a result that is not negative is chosen only without a current request: %s%s' % (not bad, '' if not bad else ' (may pass %s while a request is current)' % ', '.join(bad)))
    if n < 1:
        raise AnalysisBroken('C04.R15: the handling of a received SYN was not found in handleReceive')


def r16(ctx):
    ctx.rule('C04.R16', 'draining a queue ends: a loop of the protocol handler that takes requests out of a queue until it is empty '
             '(while ((r = Q.pop()) != nullptr)) puts nothing back into that same queue - the drain of m_nextRequests on signal '
             'loss hands every request to its waiter through m_finishedRequests; pushed back into m_nextRequests, a waited '
             'request is popped again at once and the bus thread never leaves the loop', minimum=1)
    fb = ctx.fb
    n = 0
    seen = set()
    for fn in fb.functions:
        if not fn.relfile.startswith('src/lib/ebus/protocol') or not fn.nodes or (fn.name, fn.sig) in seen:
            continue
        seen.add((fn.name, fn.sig))
        for l in fn.all('WhileStmt', 'ForStmt', 'DoStmt'):
            cond = fn.nodes[l].get('cond')
            if cond is None:
                continue
            pops = [c for c in fn.calls('pop') if c in set(fn.walk(cond)) and 'obj' in fn.nodes[c]]
            for pc in pops:
                q = fn.key(fn.nodes[pc]['obj'])
                n += 1
                ctx.touch(fn)
                inside = set(fn.walk(fn.nodes[l].get('body', l)))
                back = [c for c in fn.calls('push', 'push_back', 'emplace') if c in inside and 'obj' in fn.nodes[c] and fn.key(fn.nodes[c]['obj']) == q]
                ctx.ob('C04.R16', fn, l, not back, 'loop that drains %s in %s' % (q.split('.')[-1], fn.name.split('::', 1)[-1]),
                       'nothing is pushed back into the drained queue: %s' % (not back))
    if n < 1:
        raise AnalysisBroken('C04.R16: no draining loop found in the protocol handler')


def run(ctx):
    r16(ctx)
    r15(ctx)
    import rules.common as _cmn
    ctx.rule('C04.R14', 'an argument is still the argument where it is read: a for loop that takes a by-value parameter over as its counter destroys the argument, so no read of that parameter is reachable behind such a loop - BusHandler::prepareScan decides who frees a scan request (deleteOnFinish) by slave == SYN; behind for (slave = 1; slave != 0; slave++) that test is always false and every asynchronous scan request stays in the finished queue for ever (checked against a positive example on every run)', minimum=3)
    _cmn.loop_counter_param_rule(ctx, 'C04.R14', lambda f: f.relfile.startswith(('src/lib/ebus/', 'src/ebusd/')), 3)
    r13(ctx)
    r12(ctx)
    r10(ctx)
    r7(ctx)
    r1(ctx)
    r2(ctx)
    r3(ctx)
    r4(ctx)
    r5(ctx)
    r6(ctx)
    import rules.common as _common
    ctx.rule('C04.R8', 'arguments keep their roles across calls: at every call of a repository function in the request handling sources (master, slave and result of a request are not exchanged) whose arguments are named like parameters of the callee, no two of them are passed crosswise (argument i named like parameter j and argument j like parameter i)', minimum=4)
    _common.swapped_args_rule(ctx, 'C04.R8', ('src/ebusd/bushandler', 'src/ebusd/scan', 'src/lib/ebus/protocol'), 4)
    import rules.C03 as _c03
    ctx.borrow(_c03.r9, {'C03.R9': 'C04.R9'},
               'signal loss is detected by the receive timeout: a remaining time that wraps around keeps recv() from '
               'returning, the pending requests are never completed and their waiters never released')
    import rules.C14 as _c14
    _c14.clock_rule(ctx, 'C04.R11')
